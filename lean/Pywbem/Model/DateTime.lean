/-
C06, sub-model (2): CIMDateTime.
Mirrors pywbem/_cim_types.py: CIMDateTime.__init__ (both regular expressions, asterisk rules, _to_int,
datetime()/timedelta() field validation and normalisation, copy constructor), _to_str, __str__,
minutes_from_utc, precision, is_interval — after the `fix:` commits of the C06 builder (anchored ASCII
patterns, `[+-]`, copy keeps precision).

State of an object = the three private fields: __datetime (7 fields + tz offset in whole minutes),
__timedelta (days, seconds, microseconds as normalised by Python), __precision.
Not modelled: tzinfo objects whose offset is not a whole number of minutes; now()/fromtimestamp().
-/
import Pywbem.Proto

namespace Pywbem.Model.DateTime
open Pywbem.Proto

inductive DT where
  /-- timestamp: datetime(y, mo, d, h, mi, s, us, MinutesFromUTC(off)), precision -/
  | ts (y mo d h mi s us : Nat) (off : Int) (prec : Option Nat)
  /-- interval: timedelta(days, secs, us) (normalised: 0 ≤ secs < 86400, 0 ≤ us < 10^6), precision -/
  | iv (days : Int) (secs us : Nat) (prec : Option Nat)
  deriving DecidableEq, Repr, Inhabited

def DT.prec : DT → Option Nat
  | .ts _ _ _ _ _ _ _ _ p => p
  | .iv _ _ _ p => p

/-- mirrors CIMDateTime.is_interval -/
def DT.isInterval : DT → Bool
  | .ts .. => false
  | .iv .. => true

/-! ## decimal digits -/

def digitChar (k : Nat) : Char :=
  match k % 10 with
  | 0 => '0' | 1 => '1' | 2 => '2' | 3 => '3' | 4 => '4'
  | 5 => '5' | 6 => '6' | 7 => '7' | 8 => '8' | _ => '9'

/-- regex class [0-9] -/
def isDigit (c : Char) : Bool := '0' ≤ c && c ≤ '9'

def digitVal (c : Char) : Nat := c.toNat - 48

/-- the `w` low decimal digits of `n`, most significant first -/
def fixedDigits : Nat → Nat → List Char
  | 0, _ => []
  | w + 1, n => fixedDigits w (n / 10) ++ [digitChar n]

/-- f'{n:0{w}d}' for n ≥ 0 -/
def fmtNat (w n : Nat) : List Char :=
  if n < 10 ^ w then fixedDigits w n else Nat.toDigits 10 n

/-- f'{v:0{w}d}' (the sign counts for the width) -/
def fmtD (w : Nat) (v : Int) : List Char :=
  if v < 0 then '-' :: fmtNat (w - 1) v.natAbs else fmtNat w v.toNat

/-- int(s) for a string of ASCII digits -/
def decNat (s : List Char) : Except PyExc Nat :=
  if s.isEmpty || !s.all isDigit then .error .valueError
  else .ok (s.foldl (fun a c => a * 10 + digitVal c) 0)

/-! ## printing -/

/-- mirrors CIMDateTime._to_str -/
def toStrField (prec : Option Nat) (v : Int) (b len : Nat) : List Char :=
  let vs := fmtD len v
  match prec with
  | none => vs
  | some p =>
    if p < b + len then vs.take (p - b) ++ List.replicate (len - (p - b)) '*'   -- p - b = max(0, p - b)
    else vs

/-- datetime.utcoffset(): the tzinfo's offset must be strictly between -24h and +24h, else ValueError -/
def utcoffsetOk (off : Int) : Bool := -1440 < off && off < 1440

/-- mirrors CIMDateTime.minutes_from_utc: `utcoffset().seconds / 60`, `if days == -1: -(60*24 - offset)`;
    timedelta(minutes=off) normalises to days = ⌊off*60 / 86400⌋, seconds = off*60 mod 86400 -/
def minutesFromUtc : DT → Except PyExc Int
  | .iv .. => .ok 0
  | .ts _ _ _ _ _ _ _ off _ =>
    if !utcoffsetOk off then .error .valueError
    else
      let tdDays : Int := (off * 60) / 86400
      let tdSeconds : Int := (off * 60) % 86400
      let offset := tdSeconds / 60           -- exact: tdSeconds is a multiple of 60
      .ok (if tdDays == -1 then -((60 * 24) - offset) else offset)

/-- mirrors CIMDateTime.__str__ -/
def toStr (x : DT) : Except PyExc (List Char) :=
  match x with
  | .iv days secs us p =>
    let hours := secs / 3600
    let secInHour := secs - hours * 3600
    let minutes := secInHour / 60
    let seconds := secInHour - minutes * 60
    .ok (toStrField p days 0 8 ++ toStrField p hours 8 2 ++ toStrField p minutes 10 2 ++
         toStrField p seconds 12 2 ++ '.' :: toStrField p us 15 6 ++ [':', '0', '0', '0'])
  | .ts y mo d h mi s us _ p => do
    let offset ← minutesFromUtc x
    let sign := if offset < 0 then '-' else '+'
    let aoff := if offset < 0 then -offset else offset
    .ok (toStrField p y 0 4 ++ toStrField p mo 4 2 ++ toStrField p d 6 2 ++ toStrField p h 8 2 ++
         toStrField p mi 10 2 ++ toStrField p s 12 2 ++ '.' :: toStrField p us 15 6 ++ sign :: fmtD 3 aoff)

/-! ## parsing -/

/-- regex class [0-9\*] -/
def isDS (c : Char) : Bool := isDigit c || c == '*'

def slice (s : List Char) (b len : Nat) : List Char := (s.drop b).take len

/-- `_timestamp_pattern.search(dtarg) is not None` (anchored at both ends: exactly 25 characters) -/
def matchTs (s : List Char) : Bool :=
  s.length == 25 && (slice s 0 14).all isDS && slice s 14 1 == ['.'] && (slice s 15 6).all isDS &&
  (slice s 21 1 == ['+'] || slice s 21 1 == ['-']) && (slice s 22 3).all isDigit

/-- `_interval_pattern.search(dtarg) is not None` -/
def matchIv (s : List Char) : Bool :=
  s.length == 25 && (slice s 0 14).all isDS && slice s 14 1 == ['.'] && (slice s 15 6).all isDS &&
  slice s 21 4 == [':', '0', '0', '0']

/-- dtarg.index('*') -/
def firstStar (s : List Char) : Nat := s.idxOf '*'
/-- dtarg.rindex('*') + 1 -/
def afterStar (s : List Char) : Nat := s.length - s.reverse.idxOf '*'

def isStarOrDot (c : Char) : Bool := c == '*' || c == '.'

/-- mirrors CIMDateTime.__init__: the `if '*' in dtarg:` block; result = the precision -/
def starCheck (s : List Char) : Except PyExc (Option Nat) :=
  if s.contains '*' then
    if !(slice s (firstStar s) (afterStar s - firstStar s)).all isStarOrDot then .error .valueError
    else if afterStar s != 21 then .error .valueError
    else .ok (some (firstStar s))
  else .ok none

/-- mirrors CIMDateTime._to_int (rep = rep_digit) -/
def toIntField (f : List Char) (minV : Nat) (rep : Option Char) : Except PyExc Nat :=
  if f.contains '*' then
    if slice f (firstStar f) (afterStar f - firstStar f) != List.replicate (afterStar f - firstStar f) '*' then
      .error .valueError
    else if afterStar f != f.length then .error .valueError
    else match rep with
      | none => if firstStar f != 0 then .error .valueError else .ok minV
      | some r => decNat (f.map (fun c => if c == '*' then r else c))
  else decNat f

def isLeap (y : Nat) : Bool := y % 4 == 0 && (y % 100 != 0 || y % 400 == 0)

def daysInMonth (y m : Nat) : Nat :=
  if m == 2 then (if isLeap y then 29 else 28)
  else if m == 4 || m == 6 || m == 9 || m == 11 then 30 else 31

/-- Python datetime(...) accepts exactly these field values -/
def validDateTime (y mo d h mi s us : Nat) : Bool :=
  1 ≤ y && y ≤ 9999 && 1 ≤ mo && mo ≤ 12 && 1 ≤ d && d ≤ daysInMonth y mo &&
  h ≤ 23 && mi ≤ 59 && s ≤ 59 && us ≤ 999999

/-- mirrors CIMDateTime.__init__, str branch, timestamp format -/
def parseTs (s : List Char) : Except PyExc DT := do
  let off ← decNat (slice s 22 3)
  let offset : Int := if slice s 21 1 == ['-'] then -(off : Int) else off
  let prec ← starCheck s
  let y ← toIntField (slice s 0 4) 0 none
  let mo ← toIntField (slice s 4 2) 1 none
  let d ← toIntField (slice s 6 2) 1 none
  let h ← toIntField (slice s 8 2) 0 none
  let mi ← toIntField (slice s 10 2) 0 none
  let sec ← toIntField (slice s 12 2) 0 none
  let us ← toIntField (slice s 15 6) 0 (some '0')
  if validDateTime y mo d h mi sec us then .ok (.ts y mo d h mi sec us offset prec)
  else .error .valueError

/-- mirrors CIMDateTime.__init__, str branch, interval format -/
def parseIv (s : List Char) : Except PyExc DT := do
  let prec ← starCheck s
  let days ← toIntField (slice s 0 8) 0 none
  let hours ← toIntField (slice s 8 2) 0 none
  let minutes ← toIntField (slice s 10 2) 0 none
  let seconds ← toIntField (slice s 12 2) 0 none
  let us ← toIntField (slice s 15 6) 0 (some '0')
  -- timedelta(): total seconds re-split into days and seconds (us < 10^6 needs no carry)
  let total := ((days * 24 + hours) * 60 + minutes) * 60 + seconds
  .ok (.iv ((total / 86400 : Nat) : Int) (total % 86400) us prec)

/-- mirrors CIMDateTime.__init__ for a str argument -/
def parse (s : List Char) : Except PyExc DT :=
  if matchTs s then parseTs s
  else if matchIv s then parseIv s
  else .error .valueError

/-! ## the other constructor arguments -/

/-- what can be passed as `dtarg` -/
inductive DtArg where
  | str (s : List Char)
  /-- datetime object: fields (valid by construction) and tz offset in minutes (none = naive) -/
  | datetime (y mo d h mi s us : Nat) (off : Option Int)
  /-- timedelta object (normalised by Python) -/
  | timedelta (days : Int) (secs us : Nat)
  | cimdt (x : DT)
  | other
  deriving Repr, Inhabited

/-- mirrors CIMDateTime.__init__ -/
def construct : DtArg → Except PyExc DT
  | .str s => parse s
  | .datetime y mo d h mi s us off => .ok (.ts y mo d h mi s us (off.getD 0) none)
  | .timedelta days secs us => .ok (.iv days secs us none)
  | .cimdt x => .ok x                      -- copy: datetime, timedelta and (after the fix) precision
  | .other => .error .typeError

/-! ## equality: CIMDateTime.__eq__ (= `_eq_item` on the datetime and timedelta fields) -/

/-- days since 1970-01-01 of a proleptic Gregorian date (what Python's aware-datetime comparison effectively uses) -/
def daysFromCivil (y m d : Nat) : Int :=
  let y' : Int := (y : Int) - (if m ≤ 2 then 1 else 0)
  let era : Int := y' / 400
  let yoe : Int := y' - era * 400
  let mp : Int := if m > 2 then (m : Int) - 3 else (m : Int) + 9
  let doy : Int := (153 * mp + 2) / 5 + (d : Int) - 1
  let doe : Int := yoe * 365 + yoe / 4 - yoe / 100 + doy
  era * 146097 + doe - 719468

/-- the point in time of a timestamp in microseconds since the epoch, UTC (local fields minus the UTC offset) -/
def instantUs : DT → Int
  | .ts y mo d h mi s us off _ =>
    ((daysFromCivil y mo d * 86400 + (h : Int) * 3600 + (mi : Int) * 60 + (s : Int)) - off * 60) * 1000000 + (us : Int)
  | .iv days secs us _ => (days * 86400 + (secs : Int)) * 1000000 + (us : Int)

/-- mirrors CIMDateTime.__eq__ for two distinct objects: `_eq_item(self.datetime, other.datetime) and
    _eq_item(self.timedelta, other.timedelta)`.  Two aware datetimes are equal iff they are the same instant (Python
    calls utcoffset() on both, which raises ValueError for an offset of 24 h or more); a timestamp never equals an
    interval; the precision takes no part. -/
def dtEq (a b : DT) : Except PyExc Bool :=
  match a, b with
  | .ts _ _ _ _ _ _ _ o1 _, .ts _ _ _ _ _ _ _ o2 _ =>
    if !utcoffsetOk o1 || !utcoffsetOk o2 then .error .valueError
    else .ok (instantUs a == instantUs b)
  | .iv d1 s1 u1 _, .iv d2 s2 u2 _ => .ok (d1 == d2 && s1 == s2 && u1 == u2)
  | _, _ => .ok false

/-! ## specification predicates (used in the theorem statements, not by the driver) -/

/-- the string indices at which the asterisks of an accepted timestamp / interval string can start -/
def tsPrecs : List Nat := [4, 6, 8, 10, 12, 15, 16, 17, 18, 19, 20]
def ivPrecs : List Nat := [0, 8, 10, 12, 15, 16, 17, 18, 19, 20]

/-- the microsecond digits from string index `p` on are zero (p ≤ 15: all six) -/
def usMaskOk (us p : Nat) : Bool := us % 10 ^ (21 - max p 15) == 0

/-- Well-formed object state: what the three private fields of a CIMDateTime object can hold.
    Field values Python's datetime / timedelta accept; a precision only from the reachable set; and every field
    behind the precision index holds the value the constructor substitutes for asterisks
    (month/day 1, everything else 0).  `C06_dt_construct_wf` proves every constructor path yields such a state. -/
def WF : DT → Bool
  | .ts y mo d h mi s us _ none => validDateTime y mo d h mi s us
  | .ts y mo d h mi s us _ (some p) =>
    validDateTime y mo d h mi s us && tsPrecs.contains p &&
    (!decide (p ≤ 4) || mo == 1) && (!decide (p ≤ 6) || d == 1) && (!decide (p ≤ 8) || h == 0) &&
    (!decide (p ≤ 10) || mi == 0) && (!decide (p ≤ 12) || s == 0) && usMaskOk us p
  | .iv days secs us none => decide (secs < 86400) && decide (us < 1000000) && decide (0 ≤ days ∨ days < 0)
  | .iv days secs us (some p) =>
    decide (secs < 86400) && decide (us < 1000000) && ivPrecs.contains p &&
    (!decide (p ≤ 0) || days == 0) && (!decide (p ≤ 8) || secs / 3600 == 0) &&
    (!decide (p ≤ 10) || secs % 3600 / 60 == 0) && (!decide (p ≤ 12) || secs % 60 == 0) && usMaskOk us p

/-- the values DSP0004 can express: an interval of 0..99999999 days, a UTC offset within ±999 minutes -/
def Expressible : DT → Bool
  | .ts _ _ _ _ _ _ _ off _ => decide (-999 ≤ off) && decide (off ≤ 999)
  | .iv days _ _ _ => decide (0 ≤ days) && decide (days ≤ 99999999)

/-- the constructor argument is something Python can hand over: a datetime / timedelta object that exists
    (field ranges enforced by Python itself), or a CIMDateTime object that is itself well-formed -/
def DtArg.valid : DtArg → Bool
  | .str _ => true
  | .datetime y mo d h mi s us _ => validDateTime y mo d h mi s us
  | .timedelta _ secs us => decide (secs < 86400) && decide (us < 1000000)
  | .cimdt x => WF x
  | .other => true

end Pywbem.Model.DateTime
