/-
XmlSyntax — the element level of the CIM-XML wire, receiving side: a concrete, executable XML parser
for the documents pywbem's serialiser (minidom `toxml()`, model `Xml.ser`) produces, and `wireTree`,
what the receiver sees of a tree the sender wrote.

mirrors pywbem/_tupletree.py: xml_to_tupletree_sax, CIMContentHandler.startElement / endElement /
  characters   (tree = (name, attrs, children); adjacent character data is ONE child; attrs is a dict:
  this model keeps document order and rejects duplicates like expat does)
mirrors expat (xmlparse.c doProlog / doContent / doCdataSection, xmltok_impl.c contentTok / scanAtts) as far as
  the documents in scope go:
  * optional XML declaration at offset 0 (encoding must be utf-8, see below),
    white space and comments before and after the root element;
  * element: `<` Name (S+ Name S* `=` S* quoted-value)* S* (`/>` | `>` content `</` Name S* `>`);
    `"`- and `'`-quoted values; duplicate attribute names and mismatched end tags are errors;
  * content: character data runs decoded by `recvText` (references, end-of-line normalisation, XML Char
    check; a literal `]]>` is an error), CDATA sections (raw, end-of-line normalised, XML Char check),
    comments (ignored; `--` inside is an error), child elements.
NOT modelled — `par` answers `none` although expat accepts:  processing instructions, DOCTYPE declarations
  (internal subset, entity declarations), encodings other than UTF-8 in the declaration (the model works
  on characters, not bytes), `standalone` is accepted and ignored.
  Names: ASCII only — letters, digits, `_ : - .` exactly as XML 1.0; a name containing a non-ASCII character is
  rejected (expat applies the XML 1.0 4th edition Letter / Digit / CombiningChar / Extender tables there; all CIM-XML
  element and attribute names are ASCII).
So `par` under-approximates expat: documents it accepts are meant to be accepted by expat with the same tree.

Totality: every recursion that is not structural on the input is driven by a fuel argument; each loop
iteration consumes at least one input character, so `length + 1` fuel never runs out on any input.
-/
import Pywbem.Model.Xml

namespace Pywbem.Model.XmlParse
open Pywbem.Model Pywbem.Model.XmlText

/-! ### character classes -/

/-- XML `S` -/
def isWS (c : Char) : Bool := c = ' ' || c = '\t' || c = '\n' || c = '\r'

/-- XML `NameStartChar`, ASCII part: letter, `_`, `:` -/
def isNameStart (c : Char) : Bool :=
  let n := c.toNat
  (0x41 ≤ n && n ≤ 0x5A) || (0x61 ≤ n && n ≤ 0x7A) || n == 0x5F || n == 0x3A

/-- XML `NameChar`, ASCII part: additionally digit, `-`, `.` -/
def isNameChar (c : Char) : Bool :=
  isNameStart c || (0x30 ≤ c.toNat && c.toNat ≤ 0x39) || c.toNat == 0x2D || c.toNat == 0x2E

/-- a non-empty XML Name -/
def isName : Str → Bool
  | [] => false
  | c :: cs => isNameStart c && cs.all isNameChar

/-! ### scanning helpers (all structural) -/

def skipWS : Str → Str
  | [] => []
  | c :: cs => if isWS c then skipWS cs else c :: cs

def startsWS : Str → Bool
  | [] => false
  | c :: _ => isWS c

/-- longest prefix satisfying `p`, and the rest -/
def spanP (p : Char → Bool) : Str → Str × Str
  | [] => ([], [])
  | c :: cs => if p c then ((c :: (spanP p cs).1), (spanP p cs).2) else ([], c :: cs)

/-- split at the first occurrence of `q` (which is dropped); `none` when there is none -/
def splitAtChar (q : Char) : Str → Option (Str × Str)
  | [] => none
  | c :: cs => if c = q then some ([], cs) else (splitAtChar q cs).map (fun r => (c :: r.1, r.2))

/-- split at the first occurrence of the string `pat` (which is dropped) -/
def splitAtPat (pat : Str) : Str → Option (Str × Str)
  | [] => none
  | c :: cs =>
    if pat.isPrefixOf (c :: cs) then some ([], (c :: cs).drop pat.length)
    else (splitAtPat pat cs).map (fun r => (c :: r.1, r.2))

def stripPrefix (pat : Str) (s : Str) : Option Str :=
  if pat.isPrefixOf s then some (s.drop pat.length) else none

/-- does the literal `]]>` occur -/
def hasCdEnd : Str → Bool
  | [] => false
  | c :: cs => "]]>".toList.isPrefixOf (c :: cs) || hasCdEnd cs

def expectChar (c : Char) : Str → Option Str
  | [] => none
  | d :: r => if d = c then some r else none

def parseName : Str → Option (Str × Str)
  | [] => none
  | c :: cs => if isNameStart c then some (c :: (spanP isNameChar cs).1, (spanP isNameChar cs).2) else none

def hasDup : List Str → Bool
  | [] => false
  | k :: ks => ks.contains k || hasDup ks

/-! ### attributes -/

/-- the pieces of a `'`-quoted literal between literal `"` characters -/
def splitQuot : Str → List Str
  | [] => [[]]
  | c :: cs =>
    match splitQuot cs with
    | [] => [[c]]                                   -- unreachable
    | p :: ps => if c = '"' then [] :: p :: ps else (c :: p) :: ps

def joinQuot : List Str → Option Str
  | [] => some []
  | [p] => recvAttr (.txt false) p
  | p :: ps =>
    match recvAttr (.txt false) p, joinQuot ps with
    | some a, some b => some (a ++ '"' :: b)
    | _, _ => none

/-- attribute-value literal → value. `recvAttr` is the `"`-quoted case (it rejects a literal `"`); in a
    `'`-quoted literal a `"` is an ordinary character, everything else is the same. -/
def decodeAttr (q : Char) (raw : Str) : Option Str :=
  if q = '"' then recvAttr (.txt false) raw else joinQuot (splitQuot raw)

/-- `(S+ Name S* = S* quoted)* S*`; stops in front of the first non-blank that cannot start a name -/
def parseAttrs : Nat → Str → Option (List (Str × Str) × Str)
  | 0, _ => none
  | f + 1, s =>
    match skipWS s with
    | [] => some ([], [])
    | c :: cs =>
      if isNameStart c = false then some ([], c :: cs)
      else if startsWS s = false then none
      else
        match parseName (c :: cs) with
        | none => none
        | some (k, s2) =>
          match expectChar '=' (skipWS s2) with
          | none => none
          | some s3 =>
            match skipWS s3 with
            | [] => none
            | q :: s4 =>
              if q = '"' ∨ q = '\'' then
                match splitAtChar q s4 with
                | none => none
                | some (raw, s5) =>
                  match decodeAttr q raw with
                  | none => none
                  | some v =>
                    match parseAttrs f s5 with
                    | none => none
                    | some (rest, s6) => some ((k, v) :: rest, s6)
              else none

/-! ### content and elements -/

/-- SAX `characters`: append to a preceding text child, never create an empty one -/
def addText (t : Str) (ks : List Xml) : List Xml :=
  if t = [] then ks
  else match ks with
    | .text s2 :: r => .text (t ++ s2) :: r
    | r => .text t :: r

/-- after `<!--`: the rest behind `-->` -/
def skipComment (s : Str) : Option Str :=
  match splitAtPat "--".toList s with
  | none => none
  | some (body, r) =>
    if body.all isXmlChar then expectChar '>' r else none

/-- content up to and including the `</` of the end tag; `pe` parses one child element.
    Returns the children and the input behind `</`. -/
def contentLoop (pe : Str → Option (Xml × Str)) : Nat → Str → Option (List Xml × Str)
  | 0, _ => none
  | f + 1, s =>
    match s with
    | [] => none
    | c :: cs =>
      if c = '<' then
        match cs with
        | [] => none
        | d :: ds =>
          if d = '/' then some ([], ds)
          else if d = '!' then
            match stripPrefix "[CDATA[".toList ds with
            | some r1 =>
              match splitAtPat "]]>".toList r1 with
              | none => none
              | some (body, r2) =>
                if body.all isXmlChar then
                  match contentLoop pe f r2 with
                  | none => none
                  | some (ks, r3) => some (addText (normEOL false body) ks, r3)
                else none
            | none =>
              match stripPrefix "--".toList ds with
              | some r1 =>
                match skipComment r1 with
                | none => none
                | some r2 => contentLoop pe f r2
              | none => none
          else
            match pe (c :: cs) with
            | none => none
            | some (e, r) =>
              match contentLoop pe f r with
              | none => none
              | some (ks, r') => some (e :: ks, r')
      else
        let run := spanP (fun x => x != '<') (c :: cs)
        if hasCdEnd run.1 then none
        else
          match recvText (.txt false) run.1 with
          | none => none
          | some t =>
            match contentLoop pe f run.2 with
            | none => none
            | some (ks, r') => some (addText t ks, r')

/-- one element, given the parser for its content and the fuel for its attribute list -/
def parseElemWith (content : Str → Option (List Xml × Str)) (fa : Nat) (s : Str) : Option (Xml × Str) :=
  match expectChar '<' s with
  | none => none
  | some s1 =>
    match parseName s1 with
    | none => none
    | some (n, s2) =>
      match parseAttrs fa s2 with
      | none => none
      | some (as, s3) =>
        if hasDup (as.map (·.1)) then none
        else
          match s3 with
          | [] => none
          | c :: r =>
            if c = '>' then
              match content r with
              | none => none
              | some (ks, r2) =>
                match parseName r2 with
                | none => none
                | some (n2, r3) =>
                  if n2 = n then
                    match expectChar '>' (skipWS r3) with
                    | none => none
                    | some r4 => some (.elem n as ks, r4)
                  else none
            else if c = '/' then
              match expectChar '>' r with
              | none => none
              | some r2 => some (.elem n as [], r2)
            else none

/-- one element. One fuel serves the nesting depth, the number of attributes and the number of content items: called
    with fuel > input length, every inner call again has fuel > its remaining input (each level, attribute and item
    consumes at least one character), so the fuel never runs out; measuring the input once keeps the parser linear. -/
def parseElem : Nat → Str → Option (Xml × Str)
  | 0, _ => none
  | f + 1, s => parseElemWith (fun r => contentLoop (parseElem f) (f + 1) r) (f + 1) s

/-! ### document -/

def lowerAsciiChar (c : Char) : Char :=
  if 0x41 ≤ c.toNat ∧ c.toNat ≤ 0x5A then Char.ofNat (c.toNat + 32) else c

def isVerChar (c : Char) : Bool :=
  let n := c.toNat
  (0x41 ≤ n && n ≤ 0x5A) || (0x61 ≤ n && n ≤ 0x7A) || (0x30 ≤ n && n ≤ 0x39) || n == 0x5F || n == 0x2E || n == 0x2D

/-- the XML declaration, only at offset 0: `<?xml` pseudo-attributes `?>`. Pseudo-attribute values are literal (no
    references): version any `[A-Za-z0-9._-]*` (expat does not insist on 1.0), encoding utf-8 in any case (NOT `utf8`: expat does not know that
    name, Python's fallback then builds a single-byte table which rejects every non-ASCII character - found by the C02
    correspondence run; such documents are outside the parser's domain: `none`),
    standalone yes / no; this order only. -/
def skipDecl (s : Str) : Option Str :=
  match stripPrefix "<?xml".toList s with
  | none => some s
  | some s1 =>
    if startsWS s1 = false then none                 -- `<?xml-stylesheet` …: a PI, not modelled
    else
      match splitAtPat "?>".toList s1 with
      | none => none
      | some (body, rest) =>
        if body.contains '&' then none
        else
          match parseAttrs 4 body with
          | some (as, []) =>
            let names := as.map (·.1)
            let okNames := names = ["version".toList] ∨ names = ["version".toList, "encoding".toList] ∨
              names = ["version".toList, "standalone".toList] ∨
              names = ["version".toList, "encoding".toList, "standalone".toList]
            let okVersion := match Xml.attr as "version".toList with
              | none => false
              | some v => v.all isVerChar
            let okEnc := match Xml.attr as "encoding".toList with
              | none => true
              | some e => e.map lowerAsciiChar = "utf-8".toList
            let okSa := match Xml.attr as "standalone".toList with
              | none => true
              | some e => e = "yes".toList ∨ e = "no".toList
            if okNames ∧ okVersion = true ∧ okEnc = true ∧ okSa = true then some rest else none
          | _ => none

/-- `Misc*`: white space and comments -/
def skipMisc : Nat → Str → Option Str
  | 0, _ => none
  | f + 1, s =>
    match stripPrefix "<!--".toList (skipWS s) with
    | none => some (skipWS s)
    | some r =>
      match skipComment r with
      | none => none
      | some r2 => skipMisc f r2

/-- root element and `Misc*` up to the end of the input -/
def parRoot (s : Str) : Option Xml :=
  match parseElem (s.length + 1) s with
  | none => none
  | some (t, r) =>
    match skipMisc (r.length + 1) r with
    | some [] => some t
    | _ => none

/-- **the parser**: document → root element as `xml_to_tupletree_sax` returns it (attributes in document order) -/
def par (s : Str) : Option Xml :=
  match skipDecl s with
  | none => none
  | some s1 =>
    match skipMisc (s1.length + 1) s1 with
    | none => none
    | some s2 => parRoot s2

/-! ### what the receiver sees of a tree the sender wrote -/

def wireAttrs : List (Str × Str) → Option (List (Str × Str))
  | [] => some []
  | (k, v) :: rest =>
    match wireAttr v, wireAttrs rest with
    | some v', some r => some ((k, v') :: r)
    | _, _ => none

/-- pending character data `p` (sender's strings, concatenated) becomes one text child, none if empty -/
def flushText (p : Str) (r : List Xml) : Option (List Xml) :=
  if p = [] then some r
  else match wireText p with
    | some t => some (.text t :: r)
    | none => none

mutual
/-- what `xml_to_tupletree_sax` makes of `toxml()` of a tree: attribute values pass `wireAttr`; the strings of
    adjacent text children are concatenated FIRST (a CR ending one and an LF starting the next are one line
    end on the wire) and then pass `wireText`; empty character data leaves no node -/
def wireTree : Xml → Option Xml
  | .text s => (wireText s).map .text
  | .elem n as ks =>
    match wireAttrs as, wireKids [] ks with
    | some as', some ks' => some (.elem n as' ks')
    | _, _ => none
def wireKids (p : Str) : List Xml → Option (List Xml)
  | [] => flushText p []
  | .text s :: ks => wireKids (p ++ s) ks
  | .elem n as kk :: ks =>
    match wireTree (.elem n as kk), wireKids [] ks with
    | some t, some r => flushText p (t :: r)
    | _, _ => none
end

/-! ### well-formed trees (what the serialiser must be given for its output to be XML) -/

def wfAttrs : List (Str × Str) → Bool
  | [] => true
  | (k, v) :: rest => isName k && v.all isXmlChar && wfAttrs rest

mutual
/-- element and attribute names are XML Names (`isName`), attribute names pairwise distinct, all
    characters of texts and attribute values are XML Chars -/
def wfTree : Xml → Bool
  | .text s => s.all isXmlChar
  | .elem n as ks => isName n && wfAttrs as && !hasDup (as.map (·.1)) && wfKids ks
def wfKids : List Xml → Bool
  | [] => true
  | k :: ks => wfTree k && wfKids ks
end

def WfTree (t : Xml) : Prop := wfTree t = true
instance (t : Xml) : Decidable (WfTree t) := inferInstanceAs (Decidable (wfTree t = true))

/-- attribute values the wire leaves alone: no TAB / LF / CR -/
def stableAttrs : List (Str × Str) → Bool
  | [] => true
  | (_, v) :: rest => v.all (fun c => c != '\t' && c != '\n' && c != '\r') && stableAttrs rest

def headIsText : List Xml → Bool
  | .text _ :: _ => true
  | _ => false

mutual
/-- trees the wire leaves alone: texts without CR, attribute values without TAB/LF/CR, no empty and no
    adjacent text children -/
def stableTree : Xml → Bool
  | .text s => !s.contains '\r'
  | .elem _ as ks => stableAttrs as && stableKids ks
def stableKids : List Xml → Bool
  | [] => true
  | .text s :: ks => !s.isEmpty && !s.contains '\r' && !headIsText ks && stableKids ks
  | .elem n as kk :: ks => stableTree (.elem n as kk) && stableKids ks
end

def StableTree (t : Xml) : Prop := stableTree t = true
instance (t : Xml) : Decidable (StableTree t) := inferInstanceAs (Decidable (stableTree t = true))

end Pywbem.Model.XmlParse
