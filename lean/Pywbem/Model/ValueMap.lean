/-
C20 — model of `pywbem/_valuemapping.py` (class ValueMapping) AFTER the `fix:` commits of C20
(truncate at valuemap_size; ModelError for open range ends facing each other; `\Z` in the range
pattern; items() from a list in qualifier order).  Strings are `List Char`.  Mathlib-free.

Section `Spec` holds the short specification (`claims`) the theorems of Proofs/Props/C20.lean
compare the model with.
-/
import Pywbem.Proto
import Pywbem.Model.IntLit
import Pywbem.Generated.IntTypesVM

namespace Pywbem.Model.ValueMap
open Pywbem.Proto Pywbem.Model.IntLit

/-- limits of a CIM integer type (class attributes minvalue / maxvalue of the CIMInt subclass) -/
structure IntType where
  minv : Int
  maxv : Int
  deriving Repr, DecidableEq

/-- mirrors pywbem/_valuemapping.py: `type_from_name(typename)` + `issubclass(cimtype, CIMInt)`;
    the table is regenerated from pywbem/_cim_types.py on every run -/
def intTypeOf (name : String) : Option IntType :=
  match Pywbem.Generated.IntTypesVM.table.find? (fun r => r.1 == name) with
  | some r => some ⟨r.2.1, r.2.2⟩
  | none => none

/-- split at the LAST occurrence of ".." (greedy first group of `^(.*)\.\.(.*)\Z`) -/
def splitLastDots : Str → Option (Str × Str)
  | [] => none
  | c :: rest =>
    match splitLastDots rest with
    | some (a, b) => some (c :: a, b)
    | none => if c = '.' ∧ rest.head? = some '.' then some ([], rest.tail) else none

/-- mirrors pywbem/_valuemapping.py: `re.match(r'^(.*)\.\.(.*)\Z', valuemap_str)`;
    `.` does not match a newline, so any newline makes the match fail -/
def rangeMatch (s : Str) : Option (Str × Str) :=
  if '\n' ∈ s then none else splitLastDots s

/-- mirrors `str.endswith('..')` -/
def endsDots (s : Str) : Bool := s.getLast? == some '.' && s.dropLast.getLast? == some '.'
/-- mirrors `str.startswith('..')` -/
def startsDots (s : Str) : Bool :=
  match s with
  | a :: b :: _ => a == '.' && b == '.'
  | _ => false

/-- mirrors pywbem/_valuemapping.py: ValueMapping._to_int -/
def toInt (s : Str) : Except PyExc Int :=
  match integerValueToInt s with
  | some v => .ok v
  | none => .error .modelError

/-- mirrors _values_tuple: the branch `lo == ''` (`rec` = the recursive call) -/
def loOpen (T : IntType) (vmap : List Str) (i : Nat)
    (rec : Nat → Except PyExc (Int × Int)) : Except PyExc Int :=
  if i = 0 then .ok T.minv
  else
    match vmap[i - 1]? with
    | none => .error .indexError
    | some p =>
      if endsDots p then .error .modelError          -- fix: open ends facing each other
      else
        match rec (i - 1) with
        | .ok (_, ph) => .ok (ph + 1)
        | .error e => .error e

/-- mirrors _values_tuple: the branch `hi == ''` -/
def hiOpen (T : IntType) (vmap : List Str) (i : Nat)
    (rec : Nat → Except PyExc (Int × Int)) : Except PyExc Int :=
  if i + 1 = vmap.length then .ok T.maxv             -- i == len(valuemap_list) - 1
  else
    match vmap[i + 1]? with
    | none => .error .indexError
    | some nx =>
      if startsDots nx then .error .modelError        -- fix: open ends facing each other
      else
        match rec (i + 1) with
        | .ok (nl, _) => .ok (nl - 1)
        | .error e => .error e

/-- mirrors pywbem/_valuemapping.py: the body of ValueMapping._values_tuple (without the Values string,
    which the caller takes from values_list[i]); `rec` = the recursive call -/
def tupleBody (T : IntType) (vmap : List Str) (rec : Nat → Except PyExc (Int × Int)) (i : Nat) :
    Except PyExc (Int × Int) :=
  match vmap[i]? with
  | none => .error .indexError
  | some s =>
    match rangeMatch s with
    | none =>
      match toInt s with
      | .ok v => .ok (v, v)
      | .error e => .error e
    | some (los, his) =>
      match (if los = [] then loOpen T vmap i rec else toInt los) with
      | .error e => .error e
      | .ok lo =>
        match (if his = [] then hiOpen T vmap i rec else toInt his) with
        | .error e => .error e
        | .ok hi => .ok (lo, hi)

/-- mirrors pywbem/_valuemapping.py: ValueMapping._values_tuple.  `fuel` = remaining Python recursion
    depth; running out of it is RecursionError.  Theorem `C20_values_tuple_terminates`: length+1
    always suffices. -/
def valuesTuple (T : IntType) (vmap : List Str) : Nat → Nat → Except PyExc (Int × Int)
  | 0, _ => .error .recursionError
  | fuel + 1, i => tupleBody T vmap (fun j => valuesTuple T vmap fuel j) i

/-- the same function WITHOUT the two guards = the code before the fix (kept only for the
    negation witness `C20_unguarded_recursion_diverges`) -/
def valuesTupleUnguarded (T : IntType) (vmap : List Str) : Nat → Nat → Except PyExc (Int × Int)
  | 0, _ => .error .recursionError
  | fuel + 1, i =>
    match vmap[i]? with
    | none => .error .indexError
    | some s =>
      match rangeMatch s with
      | none =>
        match toInt s with
        | .ok v => .ok (v, v)
        | .error e => .error e
      | some (los, his) =>
        match (if los = [] then
                 (if i = 0 then .ok T.minv else
                    match valuesTupleUnguarded T vmap fuel (i - 1) with
                    | .ok (_, ph) => .ok (ph + 1)
                    | .error e => .error e)
               else toInt los) with
        | .error e => .error e
        | .ok lo =>
          match (if his = [] then
                   (if i + 1 = vmap.length then .ok T.maxv else
                      match valuesTupleUnguarded T vmap fuel (i + 1) with
                      | .ok (nl, _) => .ok (nl - 1)
                      | .error e => .error e)
                 else toInt his) with
          | .error e => .error e
          | .ok hi => .ok (lo, hi)

/-- what tobinary()/items() report for one entry: int, (lo, hi) tuple, or None -/
inductive Bin where
  | single (v : Int)
  | range (lo hi : Int)
  | unclaimed
  deriving Repr, DecidableEq

/-- Python dict as insertion-ordered association list: `d[k] = v` -/
def dictSet {κ ν} [DecidableEq κ] : List (κ × ν) → κ → ν → List (κ × ν)
  | [], k, v => [(k, v)]
  | (k', v') :: r, k, v => if k' = k then (k, v) :: r else (k', v') :: dictSet r k v

/-- `d.get(k)` -/
def dictGet {κ ν} [DecidableEq κ] : List (κ × ν) → κ → Option ν
  | [], _ => none
  | (k', v') :: r, k => if k' = k then some v' else dictGet r k

/-- the lookup tables of a ValueMapping object -/
structure VM where
  single : List (Int × Str) := []            -- _b2v_single_dict
  ranges : List (Int × Int × Str) := []      -- _b2v_range_tuple_list
  unclaimed : Option Str := none             -- _b2v_unclaimed
  v2b : List (Str × Bin) := []               -- _v2b_dict (OrderedDict)
  items : List (Bin × Str) := []             -- _items_list
  deriving Repr, DecidableEq

/-- the recursion budget the model grants: one more than the number of ValueMap entries -/
def fuelFor (vmap : List Str) : Nat := vmap.length + 1

/-- a resolved entry: none = the unclaimed marker "..", some (lo, hi) = the values it claims -/
abbrev Ent := Option (Int × Int)

/-- mirrors _create_for_element, loop body: `if valuemap_str == '..'` … `else: lo, hi, _ = vm._values_tuple(…)` -/
def entAt (T : IntType) (vmap : List Str) (i : Nat) (s : Str) : Except PyExc Ent :=
  if s = ['.', '.'] then .ok none
  else
    match valuesTuple T vmap (fuelFor vmap) i with
    | .error e => .error e
    | .ok p => .ok (some p)

/-- mirrors _create_for_element, loop body: the table updates for one entry -/
def addEnt (vm : VM) (e : Ent) (vs : Str) : VM :=
  match e with
  | none =>
    { vm with unclaimed := some vs, v2b := dictSet vm.v2b vs .unclaimed,
              items := vm.items ++ [(.unclaimed, vs)] }
  | some (lo, hi) =>
    if lo = hi then
      { vm with single := dictSet vm.single lo vs, v2b := dictSet vm.v2b vs (.single lo),
                items := vm.items ++ [(.single lo, vs)] }
    else
      { vm with ranges := vm.ranges ++ [(lo, hi, vs)], v2b := dictSet vm.v2b vs (.range lo hi),
                items := vm.items ++ [(.range lo hi, vs)] }

/-- mirrors _create_for_element: body of `for i, valuemap_str in enumerate(valuemap_list)` -/
def stepEntry (T : IntType) (vmap values : List Str) (i : Nat) (s : Str) (vm : VM) : Except PyExc VM :=
  match values[i]? with
  | none => .error .indexError                       -- values_list[i]
  | some vs =>
    match entAt T vmap i s with
    | .error e => .error e
    | .ok en => .ok (addEnt vm en vs)

/-- the for loop: `rest` is the not yet visited suffix of valuemap_list, `i` its start index -/
def loop (T : IntType) (vmap values : List Str) : Nat → List Str → VM → Except PyExc VM
  | _, [], vm => .ok vm
  | i, s :: rest, vm =>
    match stepEntry T vmap values i s vm with
    | .error e => .error e
    | .ok vm' => loop T vmap values (i + 1) rest vm'

/-- decimal text of a natural number (Python `f"{v}"`) -/
def decStr (n : Nat) : Str :=
  if h : n < 10 then [Char.ofNat (48 + n)] else decStr (n / 10) ++ [Char.ofNat (48 + n % 10)]
decreasing_by omega

/-- mirrors: `[f"{v}" for v in range(0, len(values_list))]` (no ValueMap qualifier) -/
def defaultMap (n : Nat) : List Str := (List.range n).map decStr

/-- mirrors _create_for_element: `valuemap_qual.value`, or the DSP0004 default when there is no ValueMap -/
def effMap (valuemap : Option (List Str)) (n : Nat) : List Str :=
  match valuemap with
  | some m => m
  | none => defaultMap n

/-- mirrors _create_for_element: "Verify and adjust the valuemap and values arrays" -/
def reconcile (values vmap : List Str) (vd : Option Str) : Except PyExc (List Str) :=
  if vmap.length > values.length then
    match vd with
    | none => .error .modelError
    | some d => .ok (values ++ List.replicate (vmap.length - values.length) d)
  else if vmap.length < values.length then
    match vd with
    | none => .error .modelError
    | some _ => .ok (values.take vmap.length)        -- fix: del values_list[valuemap_size:]
  else .ok values

/-- the value-mapped element as _create_for_element sees it -/
structure Elem where
  typ : String                       -- element_obj.type / .return_type
  values : Option (List Str)         -- Values qualifier value, none = no such qualifier
  valuemap : Option (List Str)       -- ValueMap qualifier value

/-- mirrors pywbem/_valuemapping.py: ValueMapping._create_for_element -/
def create (e : Elem) (vd : Option Str) : Except PyExc VM :=
  match intTypeOf e.typ with
  | none => .error .modelError                       -- not integer-typed
  | some T =>
    match e.values with
    | none => .error .valueError                     -- no Values qualifier
    | some values0 =>
      let vmap := effMap e.valuemap values0.length
      match reconcile values0 vmap vd with
      | .error x => .error x
      | .ok values => loop T vmap values 0 vmap {}

/-! ## The same construction under an explicit stack budget (known finding C20-KF3)

`create` grants `_values_tuple` length+1 frames, which always suffice (`C20_values_tuple_terminates`).
CPython grants what is left of its recursion limit (default 1000 frames in total); `createB budget` is the
construction with exactly `budget` frames for each top-level `_values_tuple` call. -/

def entAtB (budget : Nat) (T : IntType) (vmap : List Str) (i : Nat) (s : Str) : Except PyExc Ent :=
  if s = ['.', '.'] then .ok none
  else
    match valuesTuple T vmap budget i with
    | .error e => .error e
    | .ok p => .ok (some p)

def loopB (budget : Nat) (T : IntType) (vmap values : List Str) : Nat → List Str → VM → Except PyExc VM
  | _, [], vm => .ok vm
  | i, s :: rest, vm =>
    match values[i]? with
    | none => .error .indexError
    | some vs =>
      match entAtB budget T vmap i s with
      | .error e => .error e
      | .ok en => loopB budget T vmap values (i + 1) rest (addEnt vm en vs)

def createB (budget : Nat) (e : Elem) (vd : Option Str) : Except PyExc VM :=
  match intTypeOf e.typ with
  | none => .error .modelError
  | some T =>
    match e.values with
    | none => .error .valueError
    | some values0 =>
      let vmap := effMap e.valuemap values0.length
      match reconcile values0 vmap vd with
      | .error x => .error x
      | .ok values => loopB budget T vmap values 0 vmap {}

/-! ## ValueMap arrays with NULL elements (known finding C20-KF4)

The same code on a `valuemap_list` whose items may be Python `None`: `None == '..'` is False,
`re.match(pattern, None)` raises TypeError, `None.endswith` / `None.startswith` raise AttributeError. -/

/-- an item of the ValueMap array: a string or None -/
abbrev Item := Option Str

/-- mirrors _values_tuple, branch `lo == ''`, on items -/
def loOpenI (T : IntType) (vmap : List Item) (i : Nat)
    (rec : Nat → Except PyExc (Int × Int)) : Except PyExc Int :=
  if i = 0 then .ok T.minv
  else
    match vmap[i - 1]? with
    | none => .error .indexError
    | some none => .error .attributeError              -- None.endswith('..')
    | some (some p) =>
      if endsDots p then .error .modelError
      else
        match rec (i - 1) with
        | .ok (_, ph) => .ok (ph + 1)
        | .error e => .error e

/-- mirrors _values_tuple, branch `hi == ''`, on items -/
def hiOpenI (T : IntType) (vmap : List Item) (i : Nat)
    (rec : Nat → Except PyExc (Int × Int)) : Except PyExc Int :=
  if i + 1 = vmap.length then .ok T.maxv
  else
    match vmap[i + 1]? with
    | none => .error .indexError
    | some none => .error .attributeError              -- None.startswith('..')
    | some (some nx) =>
      if startsDots nx then .error .modelError
      else
        match rec (i + 1) with
        | .ok (nl, _) => .ok (nl - 1)
        | .error e => .error e

/-- mirrors the body of _values_tuple on items -/
def tupleBodyI (T : IntType) (vmap : List Item) (rec : Nat → Except PyExc (Int × Int)) (i : Nat) :
    Except PyExc (Int × Int) :=
  match vmap[i]? with
  | none => .error .indexError
  | some none => .error .typeError                     -- re.match(r'…', None)
  | some (some s) =>
    match rangeMatch s with
    | none =>
      match toInt s with
      | .ok v => .ok (v, v)
      | .error e => .error e
    | some (los, his) =>
      match (if los = [] then loOpenI T vmap i rec else toInt los) with
      | .error e => .error e
      | .ok lo =>
        match (if his = [] then hiOpenI T vmap i rec else toInt his) with
        | .error e => .error e
        | .ok hi => .ok (lo, hi)

def valuesTupleI (T : IntType) (vmap : List Item) : Nat → Nat → Except PyExc (Int × Int)
  | 0, _ => .error .recursionError
  | fuel + 1, i => tupleBodyI T vmap (fun j => valuesTupleI T vmap fuel j) i

/-- loop body on items: `if valuemap_str == '..'` is False for None -/
def entAtI (T : IntType) (vmap : List Item) (i : Nat) (s : Item) : Except PyExc Ent :=
  if s = some ['.', '.'] then .ok none
  else
    match valuesTupleI T vmap (vmap.length + 1) i with
    | .error e => .error e
    | .ok p => .ok (some p)

def loopI (T : IntType) (vmap : List Item) (values : List Str) : Nat → List Item → VM → Except PyExc VM
  | _, [], vm => .ok vm
  | i, s :: rest, vm =>
    match values[i]? with
    | none => .error .indexError
    | some vs =>
      match entAtI T vmap i s with
      | .error e => .error e
      | .ok en => loopI T vmap values (i + 1) rest (addEnt vm en vs)

/-- size reconciliation only looks at the length of the ValueMap array -/
def reconcileN (values : List Str) (n : Nat) (vd : Option Str) : Except PyExc (List Str) :=
  reconcile values (List.replicate n []) vd

/-- mirrors _create_for_element for a ValueMap qualifier whose array may contain NULL elements -/
def createI (typ : String) (values0 : List Str) (vmap : List Item) (vd : Option Str) : Except PyExc VM :=
  match intTypeOf typ with
  | none => .error .modelError
  | some T =>
    match reconcileN values0 vmap.length vd with
    | .error x => .error x
    | .ok values => loopI T vmap values 0 vmap {}

/-- the element as the CIM repository delivers it: a qualifier may be present with a NULL value
    (`some none`), e.g. MOF `[ValueMap, Values{"a"}]` -/
structure ElemQ where
  typ : String
  values : Option (Option (List Str))
  valuemap : Option (Option (List Str))

/-- mirrors _create_for_element including its behaviour on NULL qualifier values (known finding
    C20-KF2): `list(values_qual.value)` and `len(valuemap_list)` raise TypeError -/
def createQ (e : ElemQ) (vd : Option Str) : Except PyExc VM :=
  match intTypeOf e.typ with
  | none => .error .modelError
  | some _ =>
    match e.values with
    | none => .error .valueError
    | some none => .error .typeError                          -- list(None)
    | some (some vals) =>
      match e.valuemap with
      | some none => .error .typeError                        -- len(None)
      | some (some m) => create ⟨e.typ, some vals, some m⟩ vd
      | none => create ⟨e.typ, some vals, none⟩ vd

/-- mirrors pywbem/_valuemapping.py: ValueMapping._tovalues_single (for an int argument) -/
def tovalues (vm : VM) (v : Int) : Except PyExc Str :=
  match dictGet vm.single v with
  | some s => .ok s
  | none =>
    match vm.ranges.find? (fun r => decide (r.1 ≤ v) && decide (v ≤ r.2.1)) with
    | some r => .ok r.2.2
    | none =>
      match vm.unclaimed with
      | some u => .ok u
      | none => .error .valueError

/-- mirrors pywbem/_valuemapping.py: ValueMapping.tobinary (for a str argument) -/
def tobinary (vm : VM) (s : Str) : Except PyExc Bin :=
  match dictGet vm.v2b s with
  | some b => .ok b
  | none => .error .valueError

/-- mirrors pywbem/_valuemapping.py: ValueMapping.items -/
def items (vm : VM) : List (Bin × Str) := vm.items

/-! ## Spec: the DSP0004 reading of a ValueMap (what the property statement says) -/
namespace Spec

/-- a ValueMap entry after parsing, before the open ends are resolved -/
inductive Raw where
  | unclaimed                                  -- ".."
  | single (n : Int)                           -- integerValue
  | range (lo hi : Option Int)                 -- [integerValue] ".." [integerValue], not both empty
  deriving Repr, DecidableEq

/-- one end of a range: empty = open -/
def parseEnd (s : Str) : Option (Option Int) :=
  if s = [] then some none else
  match integerValueToInt s with
  | some v => some (some v)
  | none => none

/-- entry grammar: ".." | integerValue | [integerValue] ".." [integerValue]; none = malformed -/
def parseEntry (s : Str) : Option Raw :=
  if s = ['.', '.'] then some .unclaimed else
  match rangeMatch s with
  | none =>
    match integerValueToInt s with
    | some v => some (.single v)
    | none => none
  | some (a, b) =>
    match parseEnd a, parseEnd b with
    | some lo, some hi => some (.range lo hi)
    | _, _ => none

/-- declarative entry grammar (DSP0004 ValueMap, integer flavour), independent of `rangeMatch`:
      entry = ".." | integerValue | [integerValue] ".." [integerValue]      (not both ends empty) -/
def IsEnd (a : Str) (l : Option Int) : Prop :=
  (a = [] ∧ l = none) ∨ (∃ v, integerValueToInt a = some v ∧ l = some v)

inductive IsEntry : Str → Raw → Prop
  | unclaimed : IsEntry ['.', '.'] .unclaimed
  | single (s : Str) (n : Int) : integerValueToInt s = some n → IsEntry s (.single n)
  | range (a b : Str) (l h : Option Int) : IsEnd a l → IsEnd b h → (a ≠ [] ∨ b ≠ []) →
      IsEntry (a ++ '.' :: '.' :: b) (.range l h)

/-- all entries parsed, or none when one is malformed -/
def parseAll : List Str → Option (List Raw)
  | [] => some []
  | s :: rest =>
    match parseEntry s, parseAll rest with
    | some r, some rs => some (r :: rs)
    | _, _ => none

/-- the closed upper end an entry offers to its right neighbour -/
def closedHi : Raw → Option Int
  | .single n => some n
  | .range _ (some h) => some h
  | _ => none

/-- the closed lower end an entry offers to its left neighbour -/
def closedLo : Raw → Option Int
  | .single n => some n
  | .range (some l) _ => some l
  | _ => none

/-- resolved lower end of entry `i` (`r` = its parsed form): own value, else type minimum for the
    first entry, else one above the closed upper end of the left neighbour; none = the neighbour
    offers no closed end (ModelError) -/
def specLo (T : IntType) (raws : List Raw) (i : Nat) : Raw → Option Int
  | .single n => some n
  | .range (some l) _ => some l
  | _ => if i = 0 then some T.minv else
         match raws[i - 1]? with
         | some p => (closedHi p).map (· + 1)
         | none => none

def specHi (T : IntType) (raws : List Raw) (i : Nat) : Raw → Option Int
  | .single n => some n
  | .range _ (some h) => some h
  | _ => if i + 1 = raws.length then some T.maxv else
         match raws[i + 1]? with
         | some p => (closedLo p).map (· - 1)
         | none => none

def resolveAt (T : IntType) (raws : List Raw) (i : Nat) (r : Raw) : Option Ent :=
  match r with
  | .unclaimed => some none
  | r => match specLo T raws i r, specHi T raws i r with
         | some lo, some hi => some (some (lo, hi))
         | _, _ => none

/-- all entries resolved, or none when one cannot be -/
def resolveFrom (T : IntType) (raws : List Raw) : Nat → List Raw → Option (List Ent)
  | _, [] => some []
  | i, r :: rest =>
    match resolveAt T raws i r, resolveFrom T raws (i + 1) rest with
    | some e, some es => some (e :: es)
    | _, _ => none

def resolve (T : IntType) (raws : List Raw) : Option (List Ent) := resolveFrom T raws 0 raws

/-- index of the last element satisfying `p` -/
def lastIdx {α} (p : α → Bool) : List α → Option Nat
  | [] => none
  | a :: r =>
    match lastIdx p r with
    | some j => some (j + 1)
    | none => if p a then some 0 else none

/-- index of the first element satisfying `p` -/
def firstIdx {α} (p : α → Bool) : List α → Option Nat
  | [] => none
  | a :: r => if p a then some 0 else (firstIdx p r).map (· + 1)

def isExact (v : Int) : Ent → Bool
  | some (lo, hi) => decide (lo = hi) && decide (lo = v)
  | none => false

def isRangeOf (v : Int) : Ent → Bool
  | some (lo, hi) => !decide (lo = hi) && decide (lo ≤ v) && decide (v ≤ hi)
  | none => false

def isUnclaimed : Ent → Bool
  | none => true
  | some _ => false

/-- **the spec**: which entry claims `v` — an exact entry (the last one, if repeated), else the first
    enclosing proper range, else the unclaimed marker (the last one, if repeated), else nobody -/
def claims (ents : List Ent) (v : Int) : Option Nat :=
  match lastIdx (isExact v) ents with
  | some i => some i
  | none =>
    match firstIdx (isRangeOf v) ents with
    | some i => some i
    | none => lastIdx isUnclaimed ents

def entBin : Ent → Bin
  | none => .unclaimed
  | some (lo, hi) => if lo = hi then .single lo else .range lo hi

/-- the whole construction as the property statement reads it; `.error` = which exception class -/
def specCreate (e : Elem) (vd : Option Str) : Except PyExc (List Ent × List Str) :=
  match intTypeOf e.typ with
  | none => .error .modelError
  | some T =>
    match e.values with
    | none => .error .valueError
    | some values0 =>
      let vmap := effMap e.valuemap values0.length
      match reconcile values0 vmap vd with
      | .error x => .error x
      | .ok values =>
        match parseAll vmap with
        | none => .error .modelError
        | some raws =>
          match resolve T raws with
          | none => .error .modelError
          | some ents => .ok (ents, values)

/-- tovalues as the property statement reads it -/
def specToValues (ents : List Ent) (values : List Str) (v : Int) : Except PyExc Str :=
  match claims ents v with
  | some i => match values[i]? with
    | some s => .ok s
    | none => .error .indexError
  | none => .error .valueError

end Spec

end Pywbem.Model.ValueMap
