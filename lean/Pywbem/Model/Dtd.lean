/-
C03 — a DTD validator over `Xml` trees.

`validTree d t` decides what a validating XML 1.0 parser decides for the document `Xml.ser t` against the
DTD `d` (the judge in the correspondence run is lxml/libxml2 on the serialised text):
  * every element is declared; its children match the declared content model
    (Brzozowski derivatives of the regular expression: correct for every model, deterministic or not —
     proved against the declarative semantics `Lang` in Proofs/Lemmas/Dtd.lean);
  * every attribute is declared, occurs once, has a value allowed by its type; required attributes occur;
    (these two are `structNode`)
  * well-formedness at character level: every character of every text node and attribute value is an
    XML 1.0 `Char` (XmlText.isXmlChar)  (`charsOk`).
Not part of the tree level (delegated to `Xml.ser`, compared byte for byte in K): escaping of markup characters.
-/
import Pywbem.Model.Xml
import Pywbem.Model.DtdTypes

namespace Pywbem.Model.Dtd
open Pywbem.Model Pywbem.Model.XmlText

/-! ### content-model matcher -/

def nullable : Re → Bool
  | .none => false
  | .eps => true
  | .sym _ => false
  | .seq a b => nullable a && nullable b
  | .alt a b => nullable a || nullable b
  | .star _ => true

/-- smart constructors keep derivatives small (`∅·r = ∅`, `ε·r = r`, `∅|r = r`) -/
def mkSeq (a b : Re) : Re :=
  match a with
  | .none => .none
  | .eps => b
  | a => match b with
    | .none => .none
    | b => .seq a b

def mkAlt (a b : Re) : Re :=
  match a with
  | .none => b
  | a => match b with
    | .none => a
    | b => .alt a b

/-- Brzozowski derivative of `r` with respect to the child name `x` -/
def deriv (x : Name) : Re → Re
  | .none => .none
  | .eps => .none
  | .sym n => if n = x then .eps else .none
  | .seq a b => if nullable a then mkAlt (mkSeq (deriv x a) b) (deriv x b) else mkSeq (deriv x a) b
  | .alt a b => mkAlt (deriv x a) (deriv x b)
  | .star a => mkSeq (deriv x a) (.star a)

def derivs : Re → List Name → Re
  | r, [] => r
  | r, x :: xs => derivs (deriv x r) xs

/-- does the sequence of child element names match the content model? -/
def matchRe (r : Re) (w : List Name) : Bool := nullable (derivs r w)

/-! ### attributes -/

def lookupAtt (decls : List AttDecl) (n : Name) : Option AttDecl := decls.find? (fun d => d.name == n)

/-- every character is an XML 1.0 `Char`; mirrors pywbem/_cim_xml.py: _check_xml_chars -/
def strOk (s : Str) : Bool := s.all isXmlChar

def isWs (c : Char) : Bool := c = ' ' || c = '\t' || c = '\n' || c = '\r'

/-- XML `NameChar` restricted to what occurs in practice (ASCII letters, digits, `.-_:`, and everything ≥ U+00B7
    is accepted as in XML 1.0 5th ed. only approximately; `xml:lang` is never written by pywbem) -/
def isNameChar (c : Char) : Bool :=
  c.isAlphanum || c = '.' || c = '-' || c = '_' || c = ':'

/-- value check for one attribute against its declaration.  Enumerated values are compared as written
    (a validator working on an already parsed document, like libxml2's post-parse validation, does not
    re-normalise them). -/
def attValueOk (d : AttDecl) (v : Str) : Bool :=
  (match d.ty with
   | .cdata => true
   | .nmtoken => !v.isEmpty && v.all isNameChar
   | .enum vals => vals.contains v
   | .other => false) &&
  (match d.dflt with
   | .fixed f => v == f
   | _ => true)

def attrOk (decls : List AttDecl) (a : Str × Str) : Bool :=
  match lookupAtt decls a.1 with
  | some d => attValueOk d a.2
  | none => false

def nodupNames : List Name → Bool
  | [] => true
  | n :: ns => !ns.contains n && nodupNames ns

def isRequired (d : AttDecl) : Bool :=
  match d.dflt with
  | .required => true
  | _ => false

def requiredPresent (decls : List AttDecl) (as : List (Str × Str)) : Bool :=
  decls.all (fun d => !isRequired d || (as.map (·.1)).contains d.name)

def validAttrs (decls : List AttDecl) (as : List (Str × Str)) : Bool :=
  as.all (attrOk decls) && nodupNames (as.map (·.1)) && requiredPresent decls as

/-! ### content -/

def lookupElem (d : Dtd) (n : Name) : Option ElemDecl := d.find? (fun e => e.name == n)

/-- names of the element children, in order -/
def kidNames : List Xml → List Name
  | [] => []
  | .elem n _ _ :: ks => n :: kidNames ks
  | .text _ :: ks => kidNames ks

/-- all text children satisfy `p` -/
def textsAll (p : Str → Bool) : List Xml → Bool
  | [] => true
  | .text s :: ks => p s && textsAll p ks
  | .elem .. :: ks => textsAll p ks

def noElems : List Xml → Bool
  | [] => true
  | .text _ :: ks => noElems ks
  | .elem .. :: _ => false

/-- the content of an element against its contentspec.
    EMPTY: nothing but empty text nodes (minidom prints `<X></X>` for them, which is valid for EMPTY);
    children: text only as white space between the child elements;
    (#PCDATA): text only; mixed: text and the listed elements in any order. -/
def contentOk (c : Content) (ks : List Xml) : Bool :=
  match c with
  | .empty => noElems ks && textsAll (fun s => s.isEmpty) ks
  | .any => true
  | .pcdata => noElems ks
  | .mixed names => (kidNames ks).all names.contains
  | .children r => textsAll (fun s => s.all isWs) ks && matchRe r (kidNames ks)

mutual
/-- DTD structure of one node: elements are checked against their declaration -/
def structNode (d : Dtd) : Xml → Bool
  | .text _ => true
  | .elem n as ks =>
    match lookupElem d n with
    | none => false
    | some decl => validAttrs decl.atts as && contentOk decl.content ks && structNodes d ks
def structNodes (d : Dtd) : List Xml → Bool
  | [] => true
  | k :: ks => structNode d k && structNodes d ks
end

def attrsCharsOk : List (Str × Str) → Bool
  | [] => true
  | (_, v) :: rest => strOk v && attrsCharsOk rest

mutual
/-- every text node and attribute value of the tree consists of XML characters -/
def charsOk : Xml → Bool
  | .text s => strOk s
  | .elem _ as ks => attrsCharsOk as && charsOkList ks
def charsOkList : List Xml → Bool
  | [] => true
  | k :: ks => charsOk k && charsOkList ks
end

/-- a document: its root is an element, the tree has the structure the DTD demands, and all its
    characters can be written in XML 1.0 -/
def validTree (d : Dtd) (t : Xml) : Bool := t.isElem && structNode d t && charsOk t

/-! ### diagnosis (driver only): the first reason why a tree is not valid -/

mutual
partial def whyInvalid (d : Dtd) : Xml → Option String
  | .text s => if strOk s then none else some "text: character outside the XML Char production"
  | .elem n as ks =>
    match lookupElem d n with
    | none => some s!"element {String.ofList n}: not declared"
    | some decl =>
      if !attrsCharsOk as then some s!"element {String.ofList n}: attribute value with a character outside the XML Char production"
      else if !as.all (attrOk decl.atts) then
        match as.find? (fun a => !attrOk decl.atts a) with
        | some a => some s!"element {String.ofList n}: attribute {String.ofList a.1} undeclared or value not allowed"
        | none => some "?"
      else if !nodupNames (as.map (·.1)) then some s!"element {String.ofList n}: duplicate attribute"
      else if !requiredPresent decl.atts as then some s!"element {String.ofList n}: required attribute missing"
      else if !contentOk decl.content ks then some s!"element {String.ofList n}: content does not match the declaration"
      else whyInvalidList d ks
partial def whyInvalidList (d : Dtd) : List Xml → Option String
  | [] => none
  | k :: ks => match whyInvalid d k with
    | some r => some r
    | none => whyInvalidList d ks
end

end Pywbem.Model.Dtd
