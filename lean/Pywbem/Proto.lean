/-
Line protocol shared by every per-property driver (`Driver/Cxx.lean`).
One JSON object per input line, one JSON object per output line.
Mathlib-free on purpose: the drivers are linked as native executables.
-/
import Lean.Data.Json

namespace Pywbem.Proto
open Lean

/-- Python-style exception classes the models can raise.  `documented`
    classes are the ones the properties allow to escape; the others are leaks. -/
inductive PyExc where
  | cimError (code : Nat)
  | cimXmlParseError | xmlParseError | headerParseError | versionError
  | httpError | authError | connectionError | timeoutError
  | mofCompileError | mofParseError | mofDependencyError | mofRepositoryError
  | modelError | valueError | typeError | osError
  | keyError | indexError | attributeError | overflowError | assertionError
  | unicodeError | recursionError | stopIteration
  deriving Repr, DecidableEq, Inhabited

def PyExc.name : PyExc → String
  | .cimError _ => "CIMError" | .cimXmlParseError => "CIMXMLParseError"
  | .xmlParseError => "XMLParseError" | .headerParseError => "HeaderParseError"
  | .versionError => "VersionError" | .httpError => "HTTPError" | .authError => "AuthError"
  | .connectionError => "ConnectionError" | .timeoutError => "TimeoutError"
  | .mofCompileError => "MOFCompileError" | .mofParseError => "MOFParseError"
  | .mofDependencyError => "MOFDependencyError" | .mofRepositoryError => "MOFRepositoryError"
  | .modelError => "ModelError" | .valueError => "ValueError" | .typeError => "TypeError"
  | .osError => "OSError" | .keyError => "KeyError" | .indexError => "IndexError"
  | .attributeError => "AttributeError" | .overflowError => "OverflowError"
  | .assertionError => "AssertionError" | .unicodeError => "UnicodeError"
  | .recursionError => "RecursionError" | .stopIteration => "StopIteration"

def PyExc.toJson (e : PyExc) : Json :=
  match e with
  | .cimError c => Json.mkObj [("exc", "CIMError"), ("code", (c : Nat))]
  | e => Json.mkObj [("exc", e.name)]

/-- code points of a model string (`List Char`) as a JSON array of ints -/
def cpsToJson (s : List Char) : Json := Json.arr (s.map (fun c => (c.toNat : Json))).toArray

def jsonToNat? (j : Json) : Option Nat :=
  match j with
  | .num n => if n.exponent == 0 && n.mantissa ≥ 0 then some n.mantissa.toNat else none
  | _ => none

def jsonToInt? (j : Json) : Option Int :=
  match j with
  | .num n => if n.exponent == 0 then some n.mantissa else none
  | .str s => s.toInt?
  | _ => none

/-- a JSON array of code points, or a JSON string, as `List Char` -/
def jsonToChars? (j : Json) : Option (List Char) :=
  match j with
  | .str s => some s.toList
  | .arr a => a.toList.mapM (fun x => (jsonToNat? x).map Char.ofNat)
  | _ => none

def getField (j : Json) (k : String) : Json := (j.getObjVal? k).toOption.getD Json.null

def getNat (j : Json) (k : String) : Option Nat := jsonToNat? (getField j k)
def getInt (j : Json) (k : String) : Option Int := jsonToInt? (getField j k)
def getStr (j : Json) (k : String) : Option String :=
  match getField j k with | .str s => some s | _ => none
def getChars (j : Json) (k : String) : Option (List Char) := jsonToChars? (getField j k)
def getBool (j : Json) (k : String) : Option Bool :=
  match getField j k with | .bool b => some b | _ => none
def getArr (j : Json) (k : String) : List Json :=
  match getField j k with | .arr a => a.toList | _ => []

def intToJson (i : Int) : Json := Json.str (toString i)   -- ints travel as decimal text (64-bit safe)

def optToJson {α} (f : α → Json) : Option α → Json
  | none => Json.null
  | some a => f a

/-- read lines from stdin, answer each with `handle`; malformed JSON is answered with `{"bad":...}` -/
partial def loop (h : IO.FS.Stream) (out : IO.FS.Stream) (handle : Json → Json) : IO Unit := do
  let line ← h.getLine
  if line.isEmpty then return ()
  let t := line.trimAscii.toString
  if t.isEmpty then
    loop h out handle
  else
    let r := match Json.parse t with
      | .ok j => handle j
      | .error e => Json.mkObj [("bad", e)]
    out.putStrLn r.compress
    loop h out handle

def runDriver (handle : Json → Json) : IO Unit := do
  let i ← IO.getStdin
  let o ← IO.getStdout
  loop i o handle
  o.flush

end Pywbem.Proto
