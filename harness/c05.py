"""C05 — equality, hashing and copying of CIM objects: correspondence K (Lean model Model/Eq.lean vs the real
pywbem classes) + the property oracle evaluated on the real objects only.

Objects are generated as *specs* (plain JSON-able trees); `build(spec)` makes the real pywbem object.  Variants
(recase / reorder / numeric retype / attribute mutation / nested mutation) are transformations of specs, so every
case is replayable from its JSON.
"""
import copy
import json
import math
import pickle

import common

PROP = 'C05'

# ----------------------------------------------------------------------------------------------- class tables

# constructor argument order == our spec field names (public attribute names)
FIELDS = {
    'CIMInstanceName': ['classname', 'keybindings', 'host', 'namespace'],
    'CIMClassName': ['classname', 'host', 'namespace'],
    'CIMInstance': ['classname', 'properties', 'qualifiers', 'path'],
    'CIMClass': ['classname', 'properties', 'methods', 'superclass', 'qualifiers', 'path'],
    'CIMProperty': ['name', 'value', 'type', 'class_origin', 'array_size', 'propagated', 'is_array',
                    'reference_class', 'qualifiers', 'embedded_object'],
    'CIMMethod': ['name', 'return_type', 'parameters', 'class_origin', 'propagated', 'qualifiers'],
    'CIMParameter': ['name', 'type', 'reference_class', 'is_array', 'array_size', 'qualifiers', 'value',
                     'embedded_object'],
    'CIMQualifier': ['name', 'value', 'type', 'propagated', 'overridable', 'tosubclass', 'toinstance',
                     'translatable'],
    'CIMQualifierDeclaration': ['name', 'type', 'value', 'is_array', 'array_size', 'scopes', 'overridable',
                                'tosubclass', 'toinstance', 'translatable'],
}
KINDS = list(FIELDS)
# the property: "== ignores the lexical case of CIM names, host and namespace" -> these attributes
NAME_ATTRS = {'classname', 'name', 'host', 'namespace', 'superclass', 'class_origin', 'reference_class'}
# "... and the order of keybindings, properties, methods, parameters and qualifiers" (+ scopes: a NocaseDict too)
CHILD_ATTRS = {'keybindings', 'properties', 'qualifiers', 'methods', 'parameters', 'scopes'}
FLAG_ATTRS = {'propagated', 'is_array', 'overridable', 'tosubclass', 'toinstance', 'translatable'}
# what the docstrings of copy() declare shared between original and copy: the value objects of these dicts
DOC_SHARED = {
    'CIMInstanceName': ['keybindings'], 'CIMClassName': [], 'CIMInstance': ['properties', 'qualifiers'],
    'CIMClass': ['properties', 'methods', 'qualifiers'], 'CIMProperty': ['qualifiers'],
    'CIMMethod': ['parameters', 'qualifiers'], 'CIMParameter': ['qualifiers'], 'CIMQualifier': [],
    'CIMQualifierDeclaration': [], 'NocaseDict': ['items'],
}
NUM_TAGS = ['bool', 'int', 'float', 'Uint8', 'Sint8', 'Uint16', 'Sint16', 'Uint32', 'Sint32', 'Uint64', 'Sint64',
            'Real32', 'Real64']
INT_TYPES = {'uint8': (0, 255), 'sint8': (-128, 127), 'uint16': (0, 65535), 'sint16': (-32768, 32767),
             'uint32': (0, 2 ** 32 - 1), 'sint32': (-2 ** 31, 2 ** 31 - 1), 'uint64': (0, 2 ** 64 - 1),
             'sint64': (-2 ** 63, 2 ** 63 - 1)}
SCALAR_TYPES = ['string', 'boolean', 'uint8', 'sint8', 'uint16', 'sint16', 'uint32', 'sint32', 'uint64', 'sint64',
                'real32', 'real64', 'datetime', 'char16']
SCOPES = ['CLASS', 'ASSOCIATION', 'INDICATION', 'PROPERTY', 'REFERENCE', 'METHOD', 'PARAMETER', 'ANY']

# alphabet the concrete CaseOps.py of the model covers (ASCII, Latin-1, ẞ, İ, Kelvin sign, µ, ς)
NAME_POOL = ['Foo', 'foo', 'Bar', 'CIM_Thing', 'cim_thing', 'X', 'y', 'Name_1', 'InstanceID', 'instanceid', 'Key',
             'A_b_C', 'Ärger', 'äRGER', 'Straße', 'STRAẞE', 'strasse', 'İx', 'i̇x',
             'Kelvin', 'kelvin', 'µm', 'σς', 'Zz9']
HOSTS = [None, None, 'acme.com', 'ACME.com', 'acme.com:5989', '[::1]:5988', '10.0.0.1', '']
NAMESPACES = [None, None, 'root/cimv2', 'Root/CIMv2', 'interop', 'root/Ä', '', '/']   # '/' is stripped to ''
STRINGS = ['', 'a', 'A', 'abc', 'ABC', 'x y', 'ä', 'Straße', '42', 'true']
DATETIMES = ['20180911124613.128000+000', '20180911124613.128***+000', '20180911134613.128000+060',
             '20180911124613.128000+060', '20180911124613.******+000', '20180911124613.000000+000',
             '2018091112****.******+000', '19991231235959.999999-720', '20000101000000.000000+000',
             '00000012124613.128000:000', '00000012124613.128***:000', '00000012124613.******:000',
             '00000000000000.000000:000', '99999999235959.999999:000', '00000012124613.000000:000']


def pyw():
    """pywbem, with NULL key values allowed (documented config variable IGNORE_NULL_KEY_VALUE) for the whole run, so
    that instance paths / dicts holding None values are built, compared and copied"""
    import pywbem
    import pywbem.config
    pywbem.config.IGNORE_NULL_KEY_VALUE = True
    return pywbem


def ncd():
    from pywbem._nocasedict import NocaseDict
    return NocaseDict


def ncd_base():
    from pywbem._vendor.nocasedict import NocaseDict
    return NocaseDict


# ----------------------------------------------------------------------------------------------- spec -> real

def build_value(v):
    P = pyw()
    if v is None:
        return None
    if 'K' in v:
        return build(v)
    t = v['V']
    if t == 'str':
        return v['s']
    if t == 'char16':
        return P.Char16(v['s'])
    if t == 'bool':
        return bool(v['b'])
    if t == 'int':
        return int(v['n']) if v['t'] == 'int' else getattr(P, v['t'])(int(v['n']))
    if t == 'float':
        x = float(v['x'])
        return x if v['t'] == 'float' else getattr(P, v['t'])(x)
    if t == 'dt':
        return P.CIMDateTime(v['s'])
    if t == 'list':
        return [build_value(i) for i in v['items']]
    raise ValueError(v)


def build(spec):
    """real pywbem object of a spec; raises whatever the constructors raise for an invalid combination"""
    return _build(spec)


def _build(spec):
    P = pyw()
    k = spec['K']
    if k == 'CIMDateTime':
        return P.CIMDateTime(spec['s'])
    if k == 'NocaseDict':
        d = ncd()()
        if spec.get('unnamed'):
            d.allow_unnamed_keys = True       # as the keybindings dict of a CIMInstanceName
        for key, v in spec['items']:
            d[key] = build_value(v)
        return d
    kw = {}
    for f in FIELDS[k]:
        v = spec.get(f)
        if f == 'keybindings':
            kw[f] = [(key, build_value(x)) for key, x in (v or [])]
        elif f == 'scopes':
            kw[f] = [(key, x) for key, x in (v or [])]
        elif f in CHILD_ATTRS:
            kw[f] = [build(c) for c in (v or [])]
        elif f == 'path':
            kw[f] = build(v) if v is not None else None
        elif f == 'value':
            kw[f] = build_value(v)
        else:
            kw[f] = v
    cls = getattr(P, k)
    if k == 'CIMInstance':
        path = kw.pop('path')
        o = cls(**kw)
        o.path = path     # as CIMInstance.copy(): the init would propagate key property values into the path
        return o
    return cls(**kw)


# ----------------------------------------------------------------------------------------------- real -> JSON

class Ids:
    """first-occurrence index of the identity of every mutable value seen (objects are kept alive)"""

    def __init__(self):
        self.map = {}
        self.keep = []

    def of(self, o):
        i = self.map.get(id(o))
        if i is None:
            i = self.map[id(o)] = len(self.map)
            self.keep.append(o)
        return i


_EPOCH = None


def _utc_us(dt):
    global _EPOCH
    import datetime as D
    if _EPOCH is None:
        _EPOCH = D.datetime(1970, 1, 1, tzinfo=D.timezone.utc)
    td = dt - _EPOCH
    return (td.days * 86400 + td.seconds) * 10 ** 6 + td.microseconds


def enc(o, ids):
    """the wire encoding of Driver/C05.lean (public attributes of the real object, in __slots__ order)"""
    P = pyw()
    if o is None:
        return None
    if isinstance(o, bool):
        return {'n': str(int(o)), 'd': '1', 't': 0}
    if isinstance(o, int):
        tn = type(o).__name__
        return {'n': str(int(o)), 'd': '1', 't': NUM_TAGS.index(tn) if tn in NUM_TAGS else 1}
    if isinstance(o, float):
        tn = type(o).__name__
        if math.isnan(o):
            return {'f': 'nan'}
        if math.isinf(o):
            return {'f': 'inf' if o > 0 else '-inf'}
        n, d = float(o).as_integer_ratio()
        return {'n': str(n), 'd': str(d), 't': NUM_TAGS.index(tn) if tn in NUM_TAGS else 2}
    if isinstance(o, str):
        return {'s': common.cps(o)}
    if isinstance(o, P.CIMDateTime):
        if o.is_interval:
            td = o.timedelta
            return {'iv': str((td.days * 86400 + td.seconds) * 10 ** 6 + td.microseconds), 'p': o.precision}
        return {'ts': str(_utc_us(o.datetime)), 'mfu': o.minutes_from_utc, 'p': o.precision}
    if isinstance(o, list):
        i = ids.of(o)
        return {'l': [enc(x, ids) for x in o], 'id': i}
    if isinstance(o, ncd_base()):
        i = ids.of(o)
        # NocaseDict.items() rejects the unnamed key of keybindings unless allowed; read the internal pairs
        return {'d': [[None if k is None else common.cps(k), enc(v, ids)] for k, v in o._data.values()], 'id': i}
    k = type(o).__name__
    if k in FIELDS:
        i = ids.of(o)
        slots = [s.lstrip('_') for s in type(o).__slots__]
        # a slot without a public attribute of that name is private state (e.g. a cache): it travels as None, the
        # model's table (regenerated from the source) shows it as a slot that __eq__ skips -> the pin theorem reports it
        return {'k': k, 'a': [enc(getattr(o, s), ids) if s in FIELDS[k] else None for s in slots], 'id': i,
                'slots': slots}
    raise TypeError('cannot encode %r' % type(o))


def strip_ids(j):
    if isinstance(j, dict):
        return {k: strip_ids(v) for k, v in j.items() if k != 'id'}
    if isinstance(j, list):
        return [strip_ids(x) for x in j]
    return j


def canon(j, attr=None):
    """reference normal form of the PROPERTY (independent of the model): names/host/namespace lower-cased, dict keys
    case-folded and sorted, Python number type dropped; every other public attribute kept (incl. CIMDateTime
    precision / minutes_from_utc)"""
    if j is None:
        return None
    if 's' in j:
        s = common.from_cps(j['s'])
        return ['s', s.lower() if attr in NAME_ATTRS else s]
    if 'n' in j:
        return ['n', j['n'], j['d']]
    if 'f' in j:
        return ['f', j['f']]
    if 'ts' in j:
        return ['ts', j['ts'], j['mfu'], j['p']]
    if 'iv' in j:
        return ['iv', j['iv'], j['p']]
    if 'l' in j:
        return ['l'] + [canon(x) for x in j['l']]
    if 'd' in j:
        items = [[None if k is None else common.from_cps(k).casefold(), canon(v)] for k, v in j['d']]
        items.sort(key=lambda kv: (kv[0] is not None, kv[0] or ''))
        return ['d'] + items
    return ['k', j['k']] + [[s, canon(a, s)] for s, a in zip(j['slots'], j['a'])]


def first_diff(ca, cb, where='top'):
    """classify the first difference of two canon forms: '<Class>.<attr>' or 'CIMDateTime.precision' …"""
    if ca == cb:
        return None
    if not isinstance(ca, list) or not isinstance(cb, list) or not ca or not cb or ca[0] != cb[0]:
        return where
    t = ca[0]
    if t == 'ts':
        if ca[1] != cb[1]:
            return 'CIMDateTime.datetime'
        return 'CIMDateTime.minutes_from_utc' if ca[2] != cb[2] else 'CIMDateTime.precision'
    if t == 'iv':
        return 'CIMDateTime.timedelta' if ca[1] != cb[1] else 'CIMDateTime.precision'
    if t == 'k':
        if ca[1] != cb[1]:
            return where
        for (s, x), (_, y) in zip(ca[2:], cb[2:]):
            if x != y:
                d = first_diff(x, y, ca[1] + '.' + s)
                return d
        return where
    if t in ('l', 'd'):
        if len(ca) != len(cb):
            return where
        for x, y in zip(ca[1:], cb[1:]):
            if x != y:
                if t == 'd':
                    if x[0] != y[0]:
                        return where
                    return first_diff(x[1], y[1], where)
                return first_diff(x, y, where)
    return where


def has_nan(j):
    if isinstance(j, dict):
        return j.get('f') == 'nan' or any(has_nan(v) for v in j.values())
    if isinstance(j, list):
        return any(has_nan(x) for x in j)
    return False


# ----------------------------------------------------------------------------------------------- generators

def g_name(rng):
    return rng.choice(NAME_POOL)


def g_optname(rng):
    """an optional name attribute: mostly None, sometimes a name, sometimes the empty string (which is NOT None)"""
    r = rng.random()
    return None if r < 0.55 else '' if r < 0.63 else g_name(rng)


def g_scalar(rng, t, depth=0):
    if t == 'string':
        return {'V': 'str', 's': rng.choice(STRINGS)}
    if t == 'char16':
        return {'V': 'char16', 's': rng.choice(['a', 'A', 'ä', 'z'])}
    if t == 'boolean':
        return {'V': 'bool', 'b': rng.random() < 0.5}
    if t in INT_TYPES:
        lo, hi = INT_TYPES[t]
        n = rng.choice([lo, hi, 0, 1, 1, 2, 5, 42, min(hi, 100), max(lo, -1), hi - 1])
        return {'V': 'int', 't': t.capitalize(), 'n': n}
    if t in ('real32', 'real64'):
        x = rng.choice([0.0, -0.0, 1.0, 1.5, -2.25, 42.0, 0.1, 1e10, 1e300 if t == 'real64' else 1e30, 5e-324,
                        float('inf'), float('-inf')])
        if rng.random() < 0.02:
            x = float('nan')          # K only: the property excludes NaN, the oracle skips such cases
        return {'V': 'float', 't': t.capitalize(), 'x': x}
    if t == 'datetime':
        return {'V': 'dt', 's': rng.choice(DATETIMES)}
    if t == 'reference':
        if rng.random() < 0.8:
            return g_instancename(rng, depth - 1)
        return g_classname(rng)
    raise ValueError(t)


def g_keyvalue(rng, depth, allow_none=True):
    if allow_none and rng.random() < 0.08:
        return None                 # NULL key value (config.IGNORE_NULL_KEY_VALUE) / None value of a NocaseDict
    r = rng.random()
    if r < 0.30:
        return {'V': 'str', 's': rng.choice(STRINGS)}
    if r < 0.50:
        return {'V': 'int', 't': rng.choice(['int', 'int', 'Uint8', 'Uint32', 'Sint64']), 'n': rng.choice([0, 1, 2, 5, 42])}
    if r < 0.58:
        return {'V': 'float', 't': rng.choice(['float', 'Real32', 'Real64']), 'x': rng.choice([0.0, 1.0, 5.0, 1.5, 42.0])}
    if r < 0.66:
        return {'V': 'bool', 'b': rng.random() < 0.5}
    if r < 0.76:
        return {'V': 'dt', 's': rng.choice(DATETIMES)}
    if r < 0.80:
        return {'V': 'char16', 's': 'a'}
    if depth > 0:
        return g_instancename(rng, depth - 1)
    return {'V': 'str', 's': 'leaf'}


def g_keybindings(rng, depth, unnamed=False):
    n = rng.choice([0, 1, 1, 2, 2, 3])
    names = rng.sample(NAME_POOL, n)
    out, seen = [], set()
    for nm in names:
        if nm.casefold() in seen:
            continue
        seen.add(nm.casefold())
        out.append([nm, g_keyvalue(rng, depth)])
    if unnamed and rng.random() < (0.12 if unnamed is True else unnamed):
        out.insert(rng.randint(0, len(out)), [None, g_keyvalue(rng, 0)])   # the unnamed keybinding DSP0201 allows
    return out


def g_instancename(rng, depth=1):
    return {'K': 'CIMInstanceName', 'classname': g_name(rng), 'keybindings': g_keybindings(rng, depth, True),
            'host': rng.choice(HOSTS), 'namespace': rng.choice(NAMESPACES)}


def g_classname(rng):
    return {'K': 'CIMClassName', 'classname': g_name(rng), 'host': rng.choice(HOSTS),
            'namespace': rng.choice(NAMESPACES)}


def g_flag(rng):
    return rng.choice([None, None, True, False])


def g_typed_value(rng, depth, allow_ref=True, allow_emb=True):
    """(type, value spec, is_array, embedded_object, reference_class)"""
    r = rng.random()
    emb, refcls = None, None
    if allow_ref and r < 0.10 and depth > 0:
        t = 'reference'
        refcls = g_optname(rng)
    elif allow_emb and r < 0.22 and depth > 0:
        t = 'string'
        emb = rng.choice(['instance', 'object'])
    else:
        t = rng.choice(SCALAR_TYPES)
    is_array = rng.random() < 0.25 and t != 'reference'

    def one():
        if emb == 'instance':
            return g_instance(rng, depth - 1)
        if emb == 'object':
            return g_instance(rng, depth - 1) if rng.random() < 0.6 else g_class(rng, depth - 1)
        return g_scalar(rng, t, depth)
    if rng.random() < 0.12:
        v = None
    elif is_array:
        v = {'V': 'list', 'items': [one() if rng.random() < 0.9 else None for _ in range(rng.choice([0, 1, 2, 3]))]}
    else:
        v = one()
    return t, v, is_array, emb, refcls


def g_qualifier(rng, depth=0):
    t, v, is_array, _, _ = g_typed_value(rng, 0, allow_ref=False, allow_emb=False)
    return {'K': 'CIMQualifier', 'name': g_name(rng), 'value': v, 'type': t, 'propagated': g_flag(rng),
            'overridable': g_flag(rng), 'tosubclass': g_flag(rng), 'toinstance': g_flag(rng),
            'translatable': g_flag(rng)}


def g_children(rng, gen, lo_hi=(0, 3)):
    out, seen = [], set()
    for _ in range(rng.randint(*lo_hi)):
        c = gen()
        key = c['name'].casefold()
        if key not in seen:
            seen.add(key)
            out.append(c)
    return out


def g_property(rng, depth=1):
    t, v, is_array, emb, refcls = g_typed_value(rng, depth)
    return {'K': 'CIMProperty', 'name': g_name(rng), 'value': v, 'type': t,
            'class_origin': g_optname(rng),
            'array_size': rng.choice([None, None, 5]) if is_array else None,
            'propagated': g_flag(rng), 'is_array': is_array, 'reference_class': refcls,
            'qualifiers': g_children(rng, lambda: g_qualifier(rng), (0, 2)), 'embedded_object': emb}


def g_parameter(rng, depth=1):
    t, v, is_array, emb, refcls = g_typed_value(rng, depth)
    return {'K': 'CIMParameter', 'name': g_name(rng), 'type': t, 'reference_class': refcls, 'is_array': is_array,
            'array_size': rng.choice([None, None, 5]) if is_array else None,
            'qualifiers': g_children(rng, lambda: g_qualifier(rng), (0, 2)), 'value': v, 'embedded_object': emb}


def g_method(rng, depth=1):
    return {'K': 'CIMMethod', 'name': g_name(rng), 'return_type': rng.choice(SCALAR_TYPES),
            'parameters': g_children(rng, lambda: g_parameter(rng, depth - 1), (0, 3)),
            'class_origin': g_optname(rng), 'propagated': g_flag(rng),
            'qualifiers': g_children(rng, lambda: g_qualifier(rng), (0, 2))}


def g_instance(rng, depth=1):
    return {'K': 'CIMInstance', 'classname': g_name(rng),
            'properties': g_children(rng, lambda: g_property(rng, depth), (0, 4)),
            'qualifiers': g_children(rng, lambda: g_qualifier(rng), (0, 2)),
            'path': g_instancename(rng, max(depth, 1)) if rng.random() < 0.5 else None}


def g_class(rng, depth=1):
    return {'K': 'CIMClass', 'classname': g_name(rng),
            'properties': g_children(rng, lambda: g_property(rng, depth), (0, 3)),
            'methods': g_children(rng, lambda: g_method(rng, depth), (0, 2)),
            'superclass': g_optname(rng),
            'qualifiers': g_children(rng, lambda: g_qualifier(rng), (0, 2)),
            'path': g_classname(rng) if rng.random() < 0.4 else None}


def g_qualifierdecl(rng):
    t, v, is_array, _, _ = g_typed_value(rng, 0, allow_ref=False, allow_emb=False)
    scopes = [[s if rng.random() < 0.7 else s.lower(), rng.choice([True, True, True, False, None])]
              for s in rng.sample(SCOPES, rng.choice([0, 1, 2, 3]))]
    return {'K': 'CIMQualifierDeclaration', 'name': g_name(rng), 'type': t, 'value': v, 'is_array': is_array,
            'array_size': rng.choice([None, None, 5]) if is_array else None, 'scopes': scopes,
            'overridable': g_flag(rng), 'tosubclass': g_flag(rng), 'toinstance': g_flag(rng),
            'translatable': g_flag(rng)}


def g_datetime(rng):
    return {'K': 'CIMDateTime', 's': rng.choice(DATETIMES)}


def g_nocasedict(rng):
    if rng.random() < 0.25:
        # a keybindings-style dict: unnamed keys allowed, and (mostly) one present
        return {'K': 'NocaseDict', 'items': g_keybindings(rng, 1, unnamed=0.7), 'unnamed': True}
    return {'K': 'NocaseDict', 'items': g_keybindings(rng, 1)}


TOP = [('CIMInstanceName', lambda r: g_instancename(r, 2)), ('CIMClassName', g_classname),
       ('CIMInstance', lambda r: g_instance(r, 2)), ('CIMClass', lambda r: g_class(r, 1)),
       ('CIMProperty', lambda r: g_property(r, 2)), ('CIMMethod', lambda r: g_method(r, 1)),
       ('CIMParameter', lambda r: g_parameter(r, 2)), ('CIMQualifier', g_qualifier),
       ('CIMQualifierDeclaration', g_qualifierdecl), ('CIMDateTime', g_datetime), ('NocaseDict', g_nocasedict)]


# ----------------------------------------------------------------------------------------------- variants

def recase_str(rng, s):
    """another spelling with the same str.lower() and str.casefold()"""
    out = []
    for ch in s:
        cands = [c for c in (ch.upper(), ch.lower(), ch.swapcase()) if len(c) == 1 and c.lower() == ch.lower() and
                 c.casefold() == ch.casefold()]
        out.append(rng.choice(cands) if cands and rng.random() < 0.6 else ch)
    r = ''.join(out)
    if 'Σ' in r or r.lower() != s.lower() or r.casefold() != s.casefold():   # Σ lower-cases context dependently
        return s
    return r


def walk(spec, fn, rng):
    """apply fn(rng, node) to every object spec of the tree (post-order); fn mutates in place"""
    if isinstance(spec, dict):
        if 'K' in spec:
            for f, v in list(spec.items()):
                if f == 'keybindings' or (spec['K'] == 'NocaseDict' and f == 'items'):
                    for kv in v or []:
                        walk(kv[1], fn, rng)
                elif f in CHILD_ATTRS and f != 'scopes':
                    for c in v or []:
                        walk(c, fn, rng)
                elif f in ('path', 'value'):
                    walk(v, fn, rng)
            fn(rng, spec)
        elif spec.get('V') == 'list':
            for i in spec['items']:
                walk(i, fn, rng)


def v_recase(rng, spec):
    s = copy.deepcopy(spec)

    def fn(rng, n):
        for f in list(n):
            if f in NAME_ATTRS and isinstance(n[f], str):
                n[f] = recase_str(rng, n[f])
            elif f in ('keybindings', 'scopes') or (n['K'] == 'NocaseDict' and f == 'items'):
                for kv in n[f] or []:
                    if kv[0] is not None:
                        kv[0] = recase_str(rng, kv[0])
    walk(s, fn, rng)
    return s


def v_reorder(rng, spec):
    s = copy.deepcopy(spec)

    def fn(rng, n):
        for f in list(n):
            if (f in CHILD_ATTRS or (n['K'] == 'NocaseDict' and f == 'items')) and n[f]:
                rng.shuffle(n[f])
    walk(s, fn, rng)
    return s


def v_retype(rng, spec):
    """change the Python type of numeric keybinding / dict values keeping the numeric value"""
    s = copy.deepcopy(spec)

    def fn(rng, n):
        for f in list(n):
            if f == 'keybindings' or (n['K'] == 'NocaseDict' and f == 'items'):
                for kv in n[f] or []:
                    v = kv[1]
                    if isinstance(v, dict) and v.get('V') == 'int' and rng.random() < 0.7:
                        if rng.random() < 0.3 and abs(v['n']) < 2 ** 53:
                            kv[1] = {'V': 'float', 't': rng.choice(['float', 'Real64']), 'x': float(v['n'])}
                        elif v['n'] in (0, 1) and rng.random() < 0.3:
                            kv[1] = {'V': 'bool', 'b': bool(v['n'])}
                        else:
                            v['t'] = rng.choice(['int', 'Uint64', 'Uint8' if 0 <= v['n'] < 256 else 'int'])
                    elif isinstance(v, dict) and v.get('V') == 'float' and float(v['x']).is_integer() and \
                            rng.random() < 0.5:
                        kv[1] = {'V': 'int', 't': 'int', 'n': int(v['x'])}
                    elif isinstance(v, dict) and v.get('V') == 'bool' and rng.random() < 0.5:
                        kv[1] = {'V': 'int', 't': 'int', 'n': int(v['b'])}
    walk(s, fn, rng)
    return s


def nodes(spec, acc=None):
    acc = [] if acc is None else acc
    walk(spec, lambda r, n: acc.append(n), None)
    return acc


def mutate_value(rng, v, depth=0):
    """a different value of (mostly) the same kind"""
    if v is None:
        return {'V': 'str', 's': 'was-none'}
    if 'K' in v:
        r = rng.random()
        if r < 0.12:
            return {'V': 'str', 's': 'was-object'}            # another kind of value: must compare unequal, not raise
        if r < 0.24:
            return g_classname(rng) if v['K'] != 'CIMClassName' else g_instancename(rng, 0)
        return v_mutate(rng, v)
    t = v['V']
    if t == 'str':
        if rng.random() < 0.1:
            return rng.choice([g_classname(rng), g_instancename(rng, 0), g_instance(rng, 0)])
        return rng.choice([{'V': 'str', 's': v['s'] + 'x'}, {'V': 'str', 's': v['s'].swapcase() or 'Q'}, None])
    if t == 'char16':
        return {'V': 'char16', 's': 'b' if v['s'] != 'b' else 'c'}
    if t == 'bool':
        return {'V': 'bool', 'b': not v['b']}
    if t == 'int':
        return rng.choice([{'V': 'int', 't': v['t'], 'n': v['n'] + 1 if v['n'] < 100 else v['n'] - 1},
                           {'V': 'str', 's': str(v['n'])}])
    if t == 'float':
        return {'V': 'float', 't': v['t'], 'x': 7.75 if v['x'] != 7.75 else 8.5}
    if t == 'dt':
        return {'V': 'dt', 's': rng.choice([d for d in DATETIMES if d != v['s']])}
    if t == 'list':
        items = list(v['items'])
        r = rng.random()
        if items and r < 0.35:
            items.pop(rng.randrange(len(items)))
        elif items and r < 0.75:
            i = rng.randrange(len(items))
            items[i] = mutate_value(rng, items[i])
        elif len(items) >= 2 and r < 0.85:
            items.reverse()
        else:
            items.append(items[0] if items else None)
        return {'V': 'list', 'items': items}
    return v


_MUTATED = []      # which attributes the mutations of the current case touched (input-distribution statistics)


def v_mutate(rng, spec):
    """change ONE attribute of ONE (possibly nested) object of the tree"""
    s = copy.deepcopy(spec)
    ns = nodes(s)
    n = rng.choice(ns)
    k = n['K']
    if k == 'CIMDateTime':
        n['s'] = rng.choice([d for d in DATETIMES if d != n['s']])
        return s
    if k == 'NocaseDict':
        f = 'items'
    else:
        f = rng.choice(FIELDS[k])
    _MUTATED.append(k + '.' + f)
    v = n.get(f)
    if f in NAME_ATTRS:
        opts = [(v or '') + 'x', g_name(rng)]
        if f not in ('classname', 'name'):
            opts.append(None if v is not None else 'added')
            opts.append('' if v is None else None)        # empty string vs None: different attribute values
            if f == 'namespace':
                opts.append('/' if v is None else None)   # normalised to ''

        n[f] = rng.choice(opts)
    elif f in FLAG_ATTRS:
        n[f] = rng.choice([x for x in (None, True, False) if x is not v])
    elif f in ('type', 'return_type'):
        n[f] = rng.choice([t for t in SCALAR_TYPES if t != v])
        if 'value' in n and rng.random() < 0.7:
            n['value'] = None
    elif f == 'array_size':
        n[f] = rng.choice([x for x in (None, 5, 6) if x != v])
    elif f == 'embedded_object':
        n[f] = rng.choice([x for x in (None, 'instance', 'object') if x != v])
    elif f == 'value':
        n[f] = mutate_value(rng, v)
    elif f == 'path':
        if v is None:
            n[f] = g_instancename(rng, 1) if k == 'CIMInstance' else g_classname(rng)
        else:
            n[f] = None if rng.random() < 0.3 else v_mutate(rng, v)
    elif f in ('keybindings', 'items'):
        kb = list(v or [])
        r = rng.random()
        named = [i for i, kv in enumerate(kb) if kv[0] is not None]
        if named and r < 0.25:
            # same value under ANOTHER key (a missing key must not look like a key holding None)
            i = rng.choice(named)
            used = {kv[0].casefold() for kv in kb if kv[0] is not None}
            cands = [nm for nm in NAME_POOL if nm.casefold() not in used] or [kb[i][0] + 'X']
            kb[i] = [rng.choice(cands), kb[i][1]]
        elif kb and r < 0.4:
            kb.pop(rng.randrange(len(kb)))
        elif kb and r < 0.7:
            i = rng.randrange(len(kb))
            kb[i] = [kb[i][0], mutate_value(rng, kb[i][1])]
        else:
            kb.append(['NewKey%d' % len(kb), g_keyvalue(rng, 0)])
        n[f] = kb
    elif f == 'scopes':
        sc = list(v or [])
        r = rng.random()
        if sc and r < 0.25:
            i = rng.randrange(len(sc))
            used = {x[0].casefold() for x in sc}
            sc[i] = [rng.choice([x for x in SCOPES if x.casefold() not in used] or ['FOO']), sc[i][1]]
        elif sc and r < 0.6:
            i = rng.randrange(len(sc))
            sc[i] = [sc[i][0], rng.choice([x for x in (True, False, None) if x is not sc[i][1]])]
        else:
            sc.append(['FOO%d' % len(sc), True])
        n[f] = sc
    elif f in CHILD_ATTRS:
        ch = list(v or [])
        r = rng.random()
        if ch and r < 0.3:
            ch.pop(rng.randrange(len(ch)))
        elif ch and r < 0.7:
            i = rng.randrange(len(ch))
            ch[i] = v_mutate(rng, ch[i])
        else:
            gen = {'properties': lambda: g_property(rng, 0), 'qualifiers': lambda: g_qualifier(rng),
                   'methods': lambda: g_method(rng, 0), 'parameters': lambda: g_parameter(rng, 0)}[f]
            c = gen()
            c['name'] = 'New%d' % len(ch)
            ch.append(c)
        n[f] = ch
    return s


def v_same(rng, spec):
    return copy.deepcopy(spec)


VARIANTS = [('same', v_same), ('recase', v_recase), ('reorder', v_reorder), ('retype', v_retype),
            ('mutate', v_mutate), ('mutate', v_mutate), ('recase+reorder', lambda r, s: v_reorder(r, v_recase(r, s))),
            ('recase+mutate', lambda r, s: v_mutate(r, v_recase(r, s)))]


def gen_case(rng):
    """a triple of specs (a, b, c): b a variant of a, c a variant of b (or of a)"""
    kind, gen = rng.choice(TOP)
    a = gen(rng)
    del _MUTATED[:]
    vb, fb = rng.choice(VARIANTS)
    b = fb(rng, a)
    vc, fc = rng.choice(VARIANTS)
    c = fc(rng, b if rng.random() < 0.7 else a)
    return {'mode': 'cmp', 'kind': kind, 'variants': [vb, vc], 'specs': [a, b, c], 'mutated': list(_MUTATED)}


# ----------------------------------------------------------------------------------------------- cmp cases

PAIRS = [(0, 3), (3, 0), (0, 1), (1, 0), (1, 2), (2, 1), (0, 2), (2, 0)]   # index 3 = twin of a (rebuilt)


def real_cmp(objs):
    """==, !=, hash equality and set membership on the real objects, exceptions as class names"""
    res = []
    hs = []
    for o in objs:
        try:
            hs.append(('ok', hash(o)))
        except Exception as e:  # noqa
            hs.append(('exc', type(e).__name__))
    for i, j in PAIRS:
        a, b = objs[i], objs[j]
        r = {}
        try:
            r['eq'] = bool(a == b)
        except Exception as e:  # noqa
            r['eq'] = common.exc_json(e)
        try:
            r['ne'] = bool(a != b)
        except Exception as e:  # noqa
            r['ne'] = common.exc_json(e)
        if hs[i][0] == 'ok' and hs[j][0] == 'ok':
            r['heq'] = hs[i][1] == hs[j][1]
            try:
                r['inset'] = b in {a}
                r['indict'] = {a: 1}.get(b) == 1
            except Exception as e:  # noqa
                r['inset'] = common.exc_json(e)
        else:
            r['heq'] = {'exc': hs[i][1] if hs[i][0] == 'exc' else hs[j][1]}
        res.append(r)
    return res


def eval_cmp(case):
    """build the real objects of a cmp case; returns None when a spec is rejected by the constructors"""
    try:
        objs = [build(s) for s in case['specs']]
        objs.append(build(case['specs'][0]))
    except Exception:  # noqa  (invalid combination: constructor validation is C06, not C05)
        return None
    ids = Ids()
    encs = [enc(o, ids) for o in objs]
    return {'encs': encs, 'real': real_cmp(objs)}


def oracle_cmp(run, case, ev):
    """the property on the REAL results only.  expected equality = equality of the reference normal forms"""
    encs, real = ev['encs'], ev['real']
    kind = case['kind']
    if any(has_nan(e) for e in encs):
        return
    cans = [canon(e) if isinstance(e, dict) and ('k' in e or 'd' in e or 'l' in e) else canon(e) for e in encs]
    byp = {}
    for (i, j), r in zip(PAIRS, real):
        byp[(i, j)] = r
        obs = {'pair': [i, j], 'real': r}
        if not isinstance(r['eq'], bool):
            run.violate({'kind': 'eq_raises', 'cls': kind, 'exc': r['eq'].get('exc')}, case, obs)
            continue
        if not isinstance(r['ne'], bool):
            run.violate({'kind': 'ne_raises', 'cls': kind, 'exc': r['ne'].get('exc')}, case, obs)
        elif r['ne'] == r['eq']:
            run.violate({'kind': 'ne_not_negation_of_eq', 'cls': kind}, case, obs)
        if not isinstance(r['heq'], bool):
            run.violate({'kind': 'hash_raises', 'cls': kind, 'exc': r['heq'].get('exc')}, case, obs)
        else:
            if r['eq'] and not r['heq']:
                run.violate({'kind': 'eq_but_hash_differs', 'cls': kind}, case, obs)
            if r.get('inset') != r['eq'] or r.get('indict') != r['eq']:
                run.violate({'kind': 'set_or_dict_membership_inconsistent', 'cls': kind}, case, obs)
        expected = cans[i] == cans[j]
        if expected and not r['eq']:
            run.violate({'kind': 'equal_objects_compare_unequal', 'cls': kind,
                         'why': 'reflexivity' if 3 in (i, j) else 'case_order_or_number_type'}, case, obs)
        if not expected and r['eq']:
            run.violate({'kind': 'not_distinguished', 'cls': kind, 'attr': first_diff(cans[i], cans[j])}, case, obs)
    for (i, j) in PAIRS:
        r, q = byp.get((i, j)), byp.get((j, i))
        if r and q and isinstance(r['eq'], bool) and isinstance(q['eq'], bool) and r['eq'] != q['eq']:
            run.violate({'kind': 'not_symmetric', 'cls': kind}, case, {'pair': [i, j], 'ab': r, 'ba': q})
    ab, bc, ac = byp[(0, 1)]['eq'], byp[(1, 2)]['eq'], byp[(0, 2)]['eq']
    if ab is True and bc is True and ac is not True:
        run.violate({'kind': 'not_transitive', 'cls': kind}, case, {'ab': ab, 'bc': bc, 'ac': ac})


# ----------------------------------------------------------------------------------------------- copy cases

HOWS = ['copy', 'shallow', 'deep', 'pickle']


def do_copy(o, how):
    if how == 'copy':
        return o.copy()
    if how == 'shallow':
        return copy.copy(o)
    if how == 'deep':
        return copy.deepcopy(o)
    return pickle.loads(pickle.dumps(o))


def renumber(j, base):
    """ids >= base renamed by first occurrence (pre-order) so that allocation order does not matter"""
    m = {}

    def go(x):
        if isinstance(x, dict):
            out = {}
            if 'id' in x:
                i = x['id']
                if i >= base:
                    i = m.setdefault(i, base + len(m))
                out['id'] = i
            for k, v in x.items():
                if k not in ('id', 'slots'):
                    out[k] = go(v)
            return out
        if isinstance(x, list):
            return [go(y) for y in x]
        return x
    return go(j)


def poke(o):
    """in-place change of a mutable value"""
    P = pyw()
    if isinstance(o, list):
        if o:
            o.pop()
        else:
            o.append(None)
    elif isinstance(o, ncd_base()):
        ks = list(o._data.keys())
        if ks:
            del o._data[ks[0]]
        else:
            o['Zz'] = 'poked'
    elif hasattr(o, 'classname'):
        o.classname = o.classname + 'Zz'
    elif hasattr(o, 'name'):
        o.name = o.name + 'Zz'


def is_mut(o):
    return isinstance(o, (list, ncd_base())) or type(o).__name__ in FIELDS


def pub_slots(c):
    """public attribute names of the slots of a CIM object (private slots, e.g. caches, are not attributes)"""
    return [x.lstrip('_') for x in type(c).__slots__ if x.lstrip('_') in FIELDS.get(type(c).__name__, ())]


def sites_copy(c):
    """(via, action) for every position of a copy() result that the documentation does NOT declare shared"""
    k = type(c).__name__
    out = []
    if isinstance(c, ncd_base()):
        return [('dict', lambda: poke(c))]
    for s in pub_slots(c):
        v = getattr(c, s)
        if s in CHILD_ATTRS:
            out.append((s + ':dict', lambda v=v: poke(v)))
        elif s == 'value':
            if isinstance(v, list):
                out.append(('value:list', lambda v=v: poke(v)))
                for i, e in enumerate(v):
                    if is_mut(e):
                        out.append(('value[]', lambda e=e: poke(e)))
            elif is_mut(v):
                out.append(('value', lambda v=v: poke(v)))
            out.append(('value:set', lambda: setattr(c, 'value', None)))
        elif s == 'path':
            if v is not None:
                out.append(('path', lambda v=v: poke(v)))
                if hasattr(v, 'keybindings'):
                    for e in list(v.keybindings._data.values()):
                        if is_mut(e[1]):
                            out.append(('path.keybindings[]', lambda e=e: poke(e[1])))
                    out.append(('path.keybindings:dict', lambda v=v: poke(v.keybindings)))
            out.append(('path:set', lambda: setattr(c, 'path', None)))
        elif s in NAME_ATTRS:
            out.append((s + ':set', lambda s=s, v=v: setattr(c, s, (v or '') + 'Zz')))
        elif s in FLAG_ATTRS:
            out.append((s + ':set', lambda s=s, v=v: setattr(c, s, not v)))
        elif s == 'array_size':
            out.append((s + ':set', lambda s=s: setattr(c, s, 77)))
        elif s in ('type', 'return_type'):
            out.append((s + ':set', lambda s=s, v=v: setattr(c, s, 'uint8' if v != 'uint8' else 'sint8')))
        elif s == 'embedded_object':
            out.append((s + ':set', lambda s=s, v=v: setattr(c, s, 'object' if v != 'object' else 'instance')))
    return out


def sites_shallow(c):
    """copy.copy(): only re-binding an attribute of the copy is independent"""
    if isinstance(c, ncd_base()):
        return [('dict', lambda: poke(c))]
    out = []
    for via, act in sites_copy(c):
        if via.endswith(':set'):
            out.append((via, act))
    for s in pub_slots(c):
        if s in CHILD_ATTRS:
            out.append((s + ':set', lambda s=s: setattr(c, s, None)))
    return out


def deep_poke(c, seen=None):
    """change every mutable value reachable from c in place"""
    seen = set() if seen is None else seen
    if id(c) in seen or not is_mut(c):
        return
    seen.add(id(c))
    if isinstance(c, list):
        for e in c:
            deep_poke(e, seen)
    elif isinstance(c, ncd_base()):
        for _, v in list(c._data.values()):
            deep_poke(v, seen)
    else:
        for s in pub_slots(c):
            deep_poke(getattr(c, s), seen)
    poke(c)


def eval_copy(case, run=None):
    """one spec, the four ways of copying.  Returns per `how`: equality results, sharing shape, leaks"""
    spec = case['spec']
    try:
        a = build(spec)
    except Exception:  # noqa  (invalid combination: constructor validation is C06, not C05)
        return None
    kind = spec['K']
    out = {'kind': kind, 'hows': {}}
    ids = Ids()
    ea = enc(a, ids)
    base = len(ids.map)
    out['enc'] = ea
    out['base'] = base
    snap = json.dumps(strip_ids(ea), sort_keys=True)
    if kind in FIELDS:
        # pickle state protocol: __getstate__ keys, __setstate__ of that state on a brand-new object
        try:
            st = a.__getstate__()
            nb = type(a).__new__(type(a))
            nb.__setstate__(st)
            out['state'] = {'keys': list(st.keys()),
                            'restored': [_strip_slots(strip_ids(enc(getattr(nb, sl), Ids()))) if hasattr(nb, sl) else 'UNSET'
                                         for sl in type(a).__slots__]}
        except Exception as e:  # noqa
            out['state'] = common.exc_json(e)
    for how in HOWS:
        r = {}
        try:
            c = do_copy(a, how)
        except Exception as e:  # noqa
            out['hows'][how] = {'exc': common.exc_json(e)}
            continue
        ids2 = Ids()
        ids2.map = dict(ids.map)
        ids2.keep = list(ids.keep)
        try:
            r['shape'] = renumber(enc(c, ids2), base)
        except Exception as e:  # noqa   the copy cannot even be read (e.g. an attribute was lost)
            out['hows'][how] = {'exc': common.exc_json(e), 'stage': 'reading the copy'}
            continue
        try:
            r['eq'] = [bool(a == c), bool(c == a), bool(a != c), hash(a) == hash(c)]
        except Exception as e:  # noqa
            r['eq'] = common.exc_json(e)
        r['type_same'] = type(c) is type(a)
        # mutate the copy / observe the original
        leaks = []
        if how == 'copy' or how == 'shallow':
            n_sites = len(sites_copy(c) if how == 'copy' else sites_shallow(c))
            cur = build(spec)
            for si in range(n_sites):
                cc = do_copy(cur, how)
                sites = sites_copy(cc) if how == 'copy' else sites_shallow(cc)
                if si >= len(sites):
                    break
                via, act = sites[si]
                try:
                    act()
                except Exception as e:  # noqa
                    r.setdefault('site_exc', []).append([via, type(e).__name__])
                    continue
                if json.dumps(strip_ids(enc(cur, Ids())), sort_keys=True) != snap:
                    leaks.append(via)
                    cur = build(spec)      # the original was damaged: start from a fresh one
            r['sites'] = n_sites
        else:
            cur = build(spec)
            cc = do_copy(cur, how)
            deep_poke(cc)
            if json.dumps(strip_ids(enc(cur, Ids())), sort_keys=True) != snap:
                leaks.append('deep')
            r['sites'] = 1
        r['leaks'] = leaks
        out['hows'][how] = r
    return out


def oracle_copy(run, case, ev):
    kind = ev['kind']
    if has_nan(ev['enc']):
        return
    for how, r in ev['hows'].items():
        if 'exc' in r:
            if kind == 'CIMDateTime' and how == 'copy':
                continue       # CIMDateTime has no copy() method (immutable); not part of the property
            run.violate({'kind': 'copy_raises', 'how': how, 'cls': kind, 'exc': r['exc'].get('exc')}, case, r['exc'])
            continue
        if r['eq'] != [True, True, False, True]:
            run.violate({'kind': 'copy_not_equal', 'how': how, 'cls': kind}, case, {'eq_ne_hash': r['eq']})
        if not r['type_same']:
            run.violate({'kind': 'copy_changes_type', 'how': how, 'cls': kind}, case, {})
        for via in r['leaks']:
            run.violate({'kind': 'copy_mutation_leaks', 'how': how, 'cls': kind, 'via': via}, case,
                        {'how': how, 'via': via})


def gen_copy_case(rng):
    kind, gen = rng.choice(TOP)
    return {'mode': 'copy', 'kind': kind, 'spec': gen(rng)}


# ----------------------------------------------------------------------------------------------- mutation sequences

def _child_factory(attr):
    """a value that may be stored under key 'ZzNew' in the dict-valued attribute `attr`"""
    P = pyw()
    return {'properties': lambda: P.CIMProperty('ZzNew', 'v'),
            'qualifiers': lambda: P.CIMQualifier('ZzNew', True),
            'methods': lambda: P.CIMMethod('ZzNew', 'uint8'),
            'parameters': lambda: P.CIMParameter('ZzNew', 'string'),
            'scopes': lambda: True}.get(attr, lambda: 'v')


def inplace_sites(o, out=None, seen=None, where='', attr=None):
    """(name, action, model_op) for every public way of changing `o` or anything reachable from it IN PLACE, in a
    deterministic order: item assignment / deletion / update() on every NocaseDict, CIMInstanceName and CIMInstance,
    append / pop on every list value, re-binding of every name / flag attribute, at every depth.
    model_op = (target object, InOp description with real value objects) or None when the model has no such operation"""
    out = [] if out is None else out
    seen = set() if seen is None else seen
    if not is_mut(o) or id(o) in seen:
        return out
    seen.add(id(o))
    k = type(o).__name__
    if isinstance(o, list):
        val = o[0] if o else None
        out.append((where + 'list.append', lambda: o.append(val), (o, {'o': 'listAppend', 'v': val})))
        if o:
            out.append((where + 'list.pop', lambda: o.pop(), (o, {'o': 'listPop'})))
        for e in list(o):
            inplace_sites(e, out, seen, where + '[].', None)
    elif isinstance(o, ncd_base()):
        mk = _child_factory(attr)
        named = [kv[0] for kv in o._data.values() if kv[0] is not None]
        v1, v2, v3 = mk(), mk(), mk()
        out.append((where + 'dict[new]=', lambda: o.__setitem__('ZzNew', v1), (o, {'o': 'dictSet', 'k': 'ZzNew', 'v': v1})))
        out.append((where + 'dict.update', lambda: o.update({'ZzUpd': v2}),
                    (o, {'o': 'dictUpdate', 'items': [['ZzUpd', v2]]})))
        if named:
            out.append((where + 'dict.del', lambda: o.__delitem__(named[0]), (o, {'o': 'dictDel', 'k': named[0]})))
            out.append((where + 'dict[old]=', lambda: o.__setitem__(_safe_swap(named[-1]), v3),
                        (o, {'o': 'dictSet', 'k': _safe_swap(named[-1]), 'v': v3})))
            out.append((where + 'dict.pop', lambda: o.pop(named[-1]), (o, {'o': 'dictDel', 'k': named[-1]})))
        for _, v in list(o._data.values()):
            inplace_sites(v, out, seen, where + '{}.', None)
    elif k in FIELDS:
        allslots = [x.lstrip('_') for x in type(o).__slots__]
        if k == 'CIMInstanceName':
            names = [kv[0] for kv in o.keybindings._data.values() if kv[0] is not None]
            out.append((where + 'CIMInstanceName[new]=', lambda: o.__setitem__('ZzKey', 'v'),
                        (o, {'o': 'pathSet', 'k': 'ZzKey', 'v': 'v'})))
            out.append((where + 'CIMInstanceName.update', lambda: o.update(ZzUpd='u'),
                        (o, {'o': 'pathSet', 'k': 'ZzUpd', 'v': 'u'})))
            if names:
                out.append((where + 'CIMInstanceName[old]=', lambda: o.__setitem__(names[0], 'changed'),
                            (o, {'o': 'pathSet', 'k': names[0], 'v': 'changed'})))
                out.append((where + 'CIMInstanceName.del', lambda: o.__delitem__(names[0]),
                            (o, {'o': 'pathDel', 'k': names[0]})))
        if k == 'CIMInstance':
            props = [kv[0] for kv in o.properties._data.values()]
            out.append((where + 'CIMInstance[new]=', lambda: o.__setitem__('ZzProp', 'v'), None))
            out.append((where + 'CIMInstance.update', lambda: o.update(ZzUpd='u'), None))
            if props:
                out.append((where + 'CIMInstance.del', lambda: o.__delitem__(props[0]), None))
            if o.path is not None:
                # a key property: assigning it propagates the value into path.keybindings
                kn = [kv[0] for kv in o.path.keybindings._data.values() if kv[0] is not None]
                if kn:
                    out.append((where + 'CIMInstance[key]= (propagates to path)',
                                lambda: o.__setitem__(kn[0], 'propagated'), None))
        for s in pub_slots(o):
            v = getattr(o, s)
            idx = allslots.index(s)
            if s in NAME_ATTRS:
                nv = (v or '') + 'Zz'
                out.append((where + k + '.' + s + '=', lambda s=s, nv=nv: setattr(o, s, nv),
                            (o, {'o': 'setAttr', 'slot': idx, 'v': nv})))
            elif s in FLAG_ATTRS and s != 'is_array':
                nb = not v
                out.append((where + k + '.' + s + '=', lambda s=s, nb=nb: setattr(o, s, nb),
                            (o, {'o': 'setAttr', 'slot': idx, 'v': nb})))
            elif s == 'value' and v is not None and not isinstance(v, list):
                out.append((where + k + '.value=None', lambda: setattr(o, 'value', None),
                            (o, {'o': 'setAttr', 'slot': idx, 'v': None})))
            if is_mut(v):
                inplace_sites(v, out, seen, where + s + '.', s)
    return out


def _safe_swap(s):
    """another spelling of an ASCII key (non-ASCII swapcase leaves the alphabet of the model's CaseOps.py)"""
    return s.swapcase() if s.isascii() else s


def _inop_json(desc, ids):
    """the driver's InOp encoding of a model_op (values encoded with the identities of the object before the change)"""
    o = dict(desc)
    if 'k' in o:
        o['k'] = _key_json(o['k'])
    if 'v' in o:
        o['v'] = _strip_slots(enc(o['v'], ids))
    if 'items' in o:
        o['items'] = [[_key_json(kk), _strip_slots(enc(vv, ids))] for kk, vv in o['items']]
    return o


def eval_mutseq(case):
    """hash the object (as a set/dict would), change it in place, compare with an equal object that was never hashed
    before the change.  Returns a list of (site, eq, heq, inset, enc_a, enc_b) / exceptions"""
    import random as _random
    spec = case['spec']
    try:
        probe = build(spec)
    except Exception:  # noqa
        return None
    if has_nan(enc(probe, Ids())):
        return None
    psites = inplace_sites(probe)
    n = len(psites)
    rnd = _random.Random(case['seed'])
    idxs = set(rnd.sample(range(n), min(n, case.get('nsites', 6))))
    # rare but important paths are always taken: key-property propagation into the path, path item assignment
    special = [i for i, st in enumerate(psites) if 'propagates' in st[0] or 'CIMInstanceName[' in st[0]]
    idxs.update(special[:3])
    idxs = sorted(idxs)
    res = []
    for i in idxs:
        a, b = build(spec), build(spec)
        r = {'site': None}
        try:
            h0 = hash(a)
            holder = {a: 1}                      # noqa  (what a set / dict user does)
            sa, sb = inplace_sites(a), inplace_sites(b)
            r['site'] = sa[i][0]
            kreq = None
            if sa[i][2] is not None:
                ids = Ids()
                before = _strip_slots(enc(a, ids))
                tgt = ids.map.get(id(sa[i][2][0]))
                if tgt is not None:
                    kreq = {'op': 'inplace', 'a': before, 'i': tgt, 'o': _inop_json(sa[i][2][1], ids)}
            try:
                sa[i][1]()
            except Exception as e:  # noqa   the mutation itself is refused (validation): nothing to check
                r['refused'] = type(e).__name__
                res.append(r)
                continue
            sb[i][1]()
            r['eq'] = bool(a == b)
            r['heq'] = hash(a) == hash(b)
            r['inset'] = b in {a}
            r['changed'] = hash(a) != h0
            r['encs'] = [enc(a, Ids()), enc(b, Ids())]
            if kreq is not None:
                r['inplace'] = kreq
        except Exception as e:  # noqa
            r['exc'] = common.exc_json(e)
        res.append(r)
    return {'kind': spec['K'], 'n_sites': n, 'res': res}


def oracle_mutseq(run, case, ev):
    kind = ev['kind']
    for r in ev['res']:
        if 'refused' in r:
            continue
        if 'exc' in r:
            run.violate({'kind': 'mutation_sequence_raises', 'cls': kind, 'exc': r['exc'].get('exc'),
                         'via': r['site']}, case, r)
            continue
        obs = {k: v for k, v in r.items() if k not in ('encs', 'inplace')}
        if not r['eq']:
            run.violate({'kind': 'same_mutation_gives_unequal_objects', 'cls': kind, 'via': r['site']}, case, obs)
        elif not r['heq']:
            run.violate({'kind': 'stale_hash_after_inplace_change', 'cls': kind, 'via': r['site']}, case, obs)
        elif not r['inset']:
            run.violate({'kind': 'set_or_dict_membership_inconsistent', 'cls': kind, 'via': r['site']}, case, obs)


def gen_mutseq_case(rng):
    kind, gen = rng.choice([t for t in TOP if t[0] != 'CIMDateTime'])
    return {'mode': 'mutseq', 'kind': kind, 'spec': gen(rng), 'seed': rng.randrange(1 << 30), 'nsites': 6}


def _mutseq_worker(case):
    return eval_mutseq(case)


def _mutseq_batch(run, cases):
    evs = common.pmap(_mutseq_worker, cases, chunksize=32)
    reqs, kept = [], []
    for case, ev in zip(cases, evs):
        if ev is None:
            run.count('mutseq:skipped')
            continue
        run.case({'kind': case['kind'], 'spec': case['spec'], 'mode': 'mutseq', 'seed': case['seed']},
                 nontrivial=any(r.get('changed') for r in ev['res']))
        run.count('mutseq:kind:' + case['kind'])
        oracle_mutseq(run, case, ev)
        for r in ev['res']:
            if 'refused' in r:
                run.count('mutseq:refused')
                continue
            run.count('mutseq:site:' + (r['site'] or '?').split('.')[-1])
            if 'encs' in r:
                reqs.append({'op': 'cmpn', 'objs': [_strip_slots(e) for e in r['encs']], 'pairs': [[0, 1]]})
                kept.append((case, r))
    ireqs = [(case, r) for case, r in kept if 'inplace' in r]
    ianswers = common.run_driver(PROP, [r['inplace'] for _, r in ireqs]) if ireqs else []
    for (case, r), ans in zip(ireqs, ianswers):
        run.count('mutseq:model_op:' + r['inplace']['o']['o'])
        want = strip_ids(_strip_slots(r['encs'][0]))
        got = strip_ids(ans.get('obj'))
        if got != want:
            run.disagree({'case': case, 'site': r['site'], 'op': r['inplace']['o']}, got, want,
                         'object after an in-place change (mutAt / applyOp)')
    answers = common.run_driver(PROP, reqs) if reqs else []
    for (case, r), ans in zip(kept, answers):
        if 'res' not in ans:
            run.disagree(case, ans, None, 'driver rejected the encoding')
            continue
        m = ans['res'][0]
        if m['eq'] != r['eq'] or (m['heq'] and not r['heq']):
            run.disagree({'case': case, 'site': r['site']}, m, {k: v for k, v in r.items() if k not in ('encs', 'inplace')},
                         'eq / hash after an in-place change')


# ----------------------------------------------------------------------------------------------- read-only operations

def _read_attrs(o):
    for sl in pub_slots(o) if type(o).__name__ in FIELDS else []:
        getattr(o, sl)


def _walk_reads(o, seen=None):
    """read every public attribute of everything reachable (what a debugger / serializer does)"""
    seen = set() if seen is None else seen
    if not is_mut(o) or id(o) in seen:
        return
    seen.add(id(o))
    if isinstance(o, list):
        for e in o:
            _walk_reads(e, seen)
    elif isinstance(o, ncd_base()):
        for _, v in list(o._data.values()):
            _walk_reads(v, seen)
    else:
        for sl in pub_slots(o):
            _walk_reads(getattr(o, sl), seen)


def readonly_ops(twin):
    """(label, function) of operations that must not change an object: comparison, printing, copying, reading,
    serializing.  `twin` is an equal object used as the other operand of == / !="""
    def call(name):
        return lambda o: getattr(o, name)() if hasattr(o, name) else None
    return [
        ('==', lambda o: o == twin), ('!=', lambda o: o != twin), ('reflected ==', lambda o: twin == o),
        ('repr', repr), ('str', str), ('copy()', call('copy')), ('copy.copy', copy.copy),
        ('copy.deepcopy', copy.deepcopy), ('pickle.dumps', pickle.dumps),
        ('attribute reads', _read_attrs), ('deep attribute reads', _walk_reads),
        ('tocimxml', call('tocimxml')), ('tocimxmlstr', call('tocimxmlstr')), ('tomof', call('tomof')),
        ('to_wbem_uri', call('to_wbem_uri')), ('len/iter', lambda o: (len(o), list(o)) if hasattr(o, '__len__') else None),
        ('hash', hash), ('in set', lambda o: o in {twin}),
    ]


def eval_temporal(case):
    """ONE object over time: hash it and put it into a set / dict while nobody has read it yet, then run read-only
    operations in a seeded order; after each: same hash, still found.  Finally: the touched object against a never
    touched equal one (hash taken before anything reads it): == implies equal hashes, found in each other's set."""
    import random as _random
    spec = case['spec']
    try:
        o, twin, fresh = build(spec), build(spec), build(spec)
    except Exception:  # noqa
        return None
    res = {'kind': spec['K'], 'steps': []}
    try:
        h0 = hash(o)
        holder_set, holder_dict = {o}, {o: 1}
    except Exception as e:  # noqa
        res['exc'] = common.exc_json(e)
        return res
    ops = readonly_ops(twin)
    _random.Random(case['seed']).shuffle(ops)
    for label, fn in ops:
        st = {'op': label}
        try:
            fn(o)
        except Exception as e:  # noqa   (e.g. tomof() of an exotic value): the operation itself is not C05's subject
            st['op_exc'] = type(e).__name__
        try:
            st['hash_same'] = hash(o) == h0
            st['in_set'] = o in holder_set
            st['in_dict'] = holder_dict.get(o) == 1
        except Exception as e:  # noqa
            st['exc'] = common.exc_json(e)
        res['steps'].append(st)
        if st.get('exc') or not (st['hash_same'] and st['in_set'] and st['in_dict']):
            break
    try:
        hf = hash(fresh)                      # never read so far
        fset = {fresh}
        res['touched_vs_untouched'] = {'heq': hash(o) == hf, 'fresh_in_touched_set': fresh in {o},
                                       'touched_in_fresh_set': o in fset, 'eq': bool(o == fresh),
                                       'fresh_hash_stable': hash(fresh) == hf}
    except Exception as e:  # noqa
        res['touched_vs_untouched'] = {'exc': common.exc_json(e)}
    res['nan'] = has_nan(enc(o, Ids()))
    return res


def oracle_temporal(run, case, ev):
    kind = ev['kind']
    if ev.get('nan'):
        return
    if 'exc' in ev:
        run.violate({'kind': 'hash_raises', 'cls': kind, 'exc': ev['exc'].get('exc')}, case, ev['exc'])
        return
    for st in ev['steps']:
        if 'exc' in st:
            run.violate({'kind': 'hash_raises', 'cls': kind, 'exc': st['exc'].get('exc'), 'after': st['op']}, case, st)
        elif not st['hash_same']:
            run.violate({'kind': 'hash_changes_after_readonly_operation', 'cls': kind, 'after': st['op']}, case, st)
        elif not (st['in_set'] and st['in_dict']):
            run.violate({'kind': 'set_member_lost_after_readonly_operation', 'cls': kind, 'after': st['op']}, case, st)
    t = ev['touched_vs_untouched']
    if 'exc' in t:
        run.violate({'kind': 'hash_raises', 'cls': kind, 'exc': t['exc'].get('exc')}, case, t)
    else:
        if t['eq'] and not t['heq']:
            run.violate({'kind': 'eq_but_hash_differs', 'cls': kind, 'between': 'touched and untouched object'}, case, t)
        if t['eq'] and not (t['fresh_in_touched_set'] and t['touched_in_fresh_set']):
            run.violate({'kind': 'set_or_dict_membership_inconsistent', 'cls': kind,
                         'between': 'touched and untouched object'}, case, t)
        if not t['eq']:
            run.violate({'kind': 'equal_objects_compare_unequal', 'cls': kind, 'why': 'touched vs untouched'}, case, t)
        if not t['fresh_hash_stable']:
            run.violate({'kind': 'hash_changes_after_readonly_operation', 'cls': kind, 'after': '=='}, case, t)


def gen_temporal_case(rng):
    kind, gen = rng.choice(TOP)
    return {'mode': 'temporal', 'kind': kind, 'spec': gen(rng), 'seed': rng.randrange(1 << 30)}


def _temporal_worker(case):
    return eval_temporal(case)


def _temporal_batch(run, cases):
    evs = common.pmap(_temporal_worker, cases, chunksize=32)
    for case, ev in zip(cases, evs):
        if ev is None:
            run.count('temporal:skipped')
            continue
        run.case({'kind': case['kind'], 'spec': case['spec'], 'mode': 'temporal', 'seed': case['seed']},
                 nontrivial=len(ev.get('steps', [])) > 5)
        run.count('temporal:kind:' + case['kind'])
        for st in ev.get('steps', []):
            if 'op_exc' in st:
                run.count('temporal:op_refused:' + st['op'])
        oracle_temporal(run, case, ev)


# ----------------------------------------------------------------------------------------------- NocaseDict API

DKEYS = ['a', 'A', 'b', 'B', 'Key', 'KEY', 'key', 'Straße', 'STRASSE', 'strasse', 'ä', 'Ä', 'µ', 'x1', None, None]
DVALS = [None, {'V': 'str', 's': 'v'}, {'V': 'str', 's': 'V'}, {'V': 'int', 't': 'int', 'n': 1},
         {'V': 'int', 't': 'Uint8', 'n': 2}, {'V': 'bool', 'b': True}, {'V': 'float', 't': 'float', 'x': 1.0}]


def gen_dict_case(rng):
    ops = []
    for _ in range(rng.randint(3, 25)):
        r = rng.random()
        k = rng.choice(DKEYS)
        v = rng.choice(DVALS)
        if r < 0.30:
            ops.append({'o': 'setitem', 'k': k, 'v': v})
        elif r < 0.40:
            ops.append({'o': 'getitem', 'k': k})
        elif r < 0.48:
            ops.append({'o': 'delitem', 'k': k})
        elif r < 0.56:
            ops.append({'o': 'contains', 'k': k})
        elif r < 0.62:
            ops.append({'o': 'get', 'k': k, 'v': v})
        elif r < 0.68:
            ops.append({'o': 'pop', 'k': k, 'v': v})
        elif r < 0.73:
            ops.append({'o': 'pop0', 'k': k})
        elif r < 0.77:
            ops.append({'o': 'popitem'})
        elif r < 0.84:
            ops.append({'o': 'setdefault', 'k': k, 'v': v})
        elif r < 0.91:
            ops.append({'o': 'update', 'how': rng.choice(['pairs', 'pairs', 'mapping', 'kwargs']),
                        'items': [[rng.choice(DKEYS), rng.choice(DVALS)] for _ in range(rng.randint(0, 4))]})
        elif r < 0.93:
            ops.append({'o': 'clear'})
        elif r < 0.96:
            ops.append({'o': 'len'})
        elif r < 0.98:
            ops.append({'o': 'keys'})
        else:
            ops.append({'o': 'allow', 'b': rng.random() < 0.5})
    return {'mode': 'dictops', 'allow': rng.random() < 0.5, 'ops': ops}


def _key_json(k):
    return None if k is None else common.cps(k)


def _enc_ret(x, ids):
    """encode a return value of the API; a bare object() is an internal sentinel that leaked"""
    if type(x) is object:
        return {'odd': 'object()'}
    return enc(x, ids)


def eval_dictops(case):
    """run the op list on a real pywbem NocaseDict; outputs in the driver's format"""
    d = ncd()()
    d.allow_unnamed_keys = case['allow']
    outs = []
    ids = Ids()
    for op in case['ops']:
        o = op['o']
        try:
            k = op.get('k')
            v = build_value(op['v']) if 'v' in op else None
            if o == 'setitem':
                d[k] = v
                out = {'none': True}
            elif o == 'getitem':
                out = {'val': _enc_ret(d[k], ids)}
            elif o == 'delitem':
                del d[k]
                out = {'none': True}
            elif o == 'contains':
                out = {'bool': k in d}
            elif o == 'get':
                out = {'val': _enc_ret(d.get(k, v), ids)}
            elif o == 'pop':
                out = {'val': _enc_ret(d.pop(k, v), ids)}
            elif o == 'pop0':
                out = {'val': _enc_ret(d.pop(k), ids)}
            elif o == 'popitem':
                kk, vv = d.popitem()
                out = {'item': [_key_json(kk), enc(vv, ids)]}
            elif o == 'setdefault':
                out = {'val': _enc_ret(d.setdefault(k, v), ids)}
            elif o == 'update':
                pairs = [(kk, build_value(vv)) for kk, vv in op['items']]
                how = op.get('how', 'pairs')
                uniq = len({kk for kk, _ in pairs}) == len(pairs) and all(kk is not None for kk, _ in pairs)
                if how == 'mapping' and uniq:
                    d.update(dict(pairs))
                elif how == 'kwargs' and uniq:
                    d.update(**dict(pairs))
                else:
                    d.update(pairs)
                out = {'none': True}
            elif o == 'clear':
                d.clear()
                out = {'none': True}
            elif o == 'len':
                out = {'nat': len(d)}
            elif o == 'keys':
                out = {'keys': [_key_json(kk) for kk, _ in d._data.values()]}
            elif o == 'allow':
                d.allow_unnamed_keys = op['b']
                out = {'none': True}
            else:
                raise AssertionError(o)
        except Exception as e:  # noqa
            out = common.exc_json(e)
        outs.append(out)
    folded = [kk for kk in d._data.keys()]
    return {'outs': outs, 'items': [[_key_json(kk), enc(vv, ids)] for kk, vv in d._data.values()],
            'allow': d.allow_unnamed_keys, 'dupe': len(set(folded)) != len(folded),
            'hash_ok': _hash_matches_rebuild(d)}


def _hash_matches_rebuild(d):
    """oracle: the dictionary reached through the API equals (and hashes like) one built from its items in reverse"""
    saved = d.allow_unnamed_keys
    try:
        d.allow_unnamed_keys = True      # (a history may have switched it off while the unnamed key is inside)
        e = ncd()()
        e.allow_unnamed_keys = True
        for kk, vv in reversed(list(d._data.values())):
            e[kk.swapcase() if isinstance(kk, str) and kk.swapcase().casefold() == kk.casefold() else kk] = vv
        return bool(d == e) and bool(e == d) and hash(d) == hash(e) and not (d != e)
    except Exception as ex:  # noqa
        return type(ex).__name__
    finally:
        d.allow_unnamed_keys = saved


def _dict_worker(case):
    return eval_dictops(case)


def _dict_batch(run, cases):
    evs = common.pmap(_dict_worker, cases, chunksize=64)
    reqs = []
    for case in cases:
        ops = []
        for op in case['ops']:
            o = dict(op)
            if 'k' in o:
                o['k'] = _key_json(o['k'])
            if 'v' in o:
                o['v'] = _strip_slots(enc(build_value(o['v']), Ids()))
            if 'items' in o:
                o['items'] = [[_key_json(kk), _strip_slots(enc(build_value(vv), Ids()))] for kk, vv in o['items']]
            ops.append(o)
        reqs.append({'op': 'dictops', 'allow': case['allow'], 'ops': ops})
    answers = common.run_driver(PROP, reqs)
    for case, ev, ans in zip(cases, evs, answers):
        run.case(case, nontrivial=len(ev['items']) > 0)
        for out in ev['outs']:
            run.count('dict:out:' + (out.get('exc') or next(iter(out))))
        real = {'outs': strip_ids(ev['outs']), 'items': strip_ids(ev['items']), 'allow': ev['allow']}
        model = {'outs': strip_ids(ans.get('outs')), 'items': strip_ids(ans.get('items')), 'allow': ans.get('allow')}
        if real != model:
            run.disagree(case, model, real, 'NocaseDict API history')
        if ev['dupe']:
            run.violate({'kind': 'nocasedict_duplicate_casefolded_key'}, case, ev['items'])
        if ev['hash_ok'] is not True:
            run.violate({'kind': 'nocasedict_not_equal_to_rebuilt_reordered_recased', 'what': str(ev['hash_ok'])},
                        case, ev['items'])
        for op, out in zip(case['ops'], ev['outs']):
            if 'exc' in out and out['exc'] not in ('KeyError', 'ValueError'):
                run.violate({'kind': 'nocasedict_api_raises', 'exc': out['exc'], 'op': op['o']}, case, out)
            if isinstance(out.get('val'), dict) and 'odd' in out['val']:
                run.violate({'kind': 'nocasedict_api_returns_internal_sentinel', 'op': op['o']}, case, out)


# ----------------------------------------------------------------------------------------------- other-class pairs

def gen_xkind_case(rng):
    cims = [t for t in TOP if t[0] in FIELDS]
    (ka, ga), (kb, gb) = rng.choice(cims), rng.choice(cims)
    return {'mode': 'xkind', 'kinds': [ka, kb], 'specs': [ga(rng), gb(rng)]}


def eval_xkind(case):
    try:
        a, b = build(case['specs'][0]), build(case['specs'][1])
    except Exception:  # noqa
        return None
    try:
        r = {'ok': bool(a == b)}
    except Exception as e:  # noqa
        r = common.exc_json(e)
    try:
        n = {'ok': bool(a != b)}
    except Exception as e:  # noqa
        n = common.exc_json(e)
    import operator
    order = []
    for opf in (operator.lt, operator.le, operator.gt, operator.ge):
        try:
            opf(a, b)
            order.append('ok')
        except Exception as e:  # noqa
            order.append(type(e).__name__)
    return {'eq': r, 'ne': n, 'order': order, 'encs': [enc(a, Ids()), enc(b, Ids())]}


def _xkind_worker(case):
    return eval_xkind(case)


def _xkind_batch(run, cases):
    evs = common.pmap(_xkind_worker, cases, chunksize=64)
    kept = [(c, e) for c, e in zip(cases, evs) if e is not None and not any(has_nan(x) for x in e['encs'])]
    reqs = [{'op': 'eqtop', 'a': _strip_slots(e['encs'][0]), 'b': _strip_slots(e['encs'][1])} for _, e in kept]
    answers = common.run_driver(PROP, reqs) if reqs else []
    for (case, ev), ans in zip(kept, answers):
        same = case['kinds'][0] == case['kinds'][1]
        run.case(case, nontrivial=not same)
        run.count('xkind:' + ('same' if same else 'other') + ':' + (ev['eq'].get('exc') or 'ok'))
        m_order = ans.pop('order', None)
        if ans != ev['eq']:
            run.disagree(case, ans, ev['eq'], '== between objects of two classes')
        if any(o != (m_order or {}).get('exc') for o in ev['order']):
            run.disagree(case, m_order, ev['order'], 'ordering operators')
            run.violate({'kind': 'ordering_not_rejected_with_typeerror', 'kinds': case['kinds']}, case, ev['order'])
        # oracle: same class -> a boolean; other class -> the documented TypeError, for == and != alike
        if same and 'ok' not in ev['eq']:
            run.violate({'kind': 'eq_raises', 'cls': case['kinds'][0], 'exc': ev['eq'].get('exc')}, case, ev['eq'])
        if not same and (ev['eq'].get('exc') != 'TypeError' or ev['ne'].get('exc') != 'TypeError'):
            run.violate({'kind': 'other_class_comparison_not_typeerror', 'kinds': case['kinds']}, case,
                        {'eq': ev['eq'], 'ne': ev['ne']})


# ----------------------------------------------------------------------------------------------- run

def _strip_slots(j):
    if isinstance(j, dict):
        return {k: _strip_slots(v) for k, v in j.items() if k != 'slots'}
    if isinstance(j, list):
        return [_strip_slots(x) for x in j]
    return j


def _cmp_worker(case):
    return eval_cmp(case)


def _copy_worker(case):
    return eval_copy(case)


def _timed(run, fn, cases):
    import time
    t0 = time.time()
    fn(run, cases)
    run.count('wall_ms:' + fn.__name__.strip('_'), int((time.time() - t0) * 1000))


def _register_module():
    """./check loads this file under a name that is not in sys.modules; the fork pool pickles workers by name"""
    import sys
    import types
    if __name__ not in sys.modules:
        m = types.ModuleType(__name__)
        m.__dict__.update(globals())
        sys.modules[__name__] = m


def run(run):
    _register_module()
    rng = run.rng
    n_cmp = 70000 if run.thorough else 6000
    n_copy = 14000 if run.thorough else 1500
    n_mut = 8000 if run.thorough else 1200
    run.rule = ('cmp: seeded random object of one of 11 kinds (9 CIM classes, CIMDateTime, NocaseDict; nesting depth <= 3; '
                'names from a 24-name pool with case variants and non-ASCII spellings), then b = variant(a), c = variant(b|a) '
                'with variant in {same, recase, reorder, numeric retype, one-attribute mutation (possibly nested), combinations}; '
                'all 8 ordered pairs among a, b, c and a rebuilt twin of a: ==, !=, hash equality, set and dict membership. '
                'copy: one object, copy()/copy.copy/deepcopy/pickle: equality, id()-walk sharing shape, then one mutation of the '
                'copy per site outside the documented shared set and comparison of the original with its snapshot. '
                'dictops: 3..25 random calls of the NocaseDict API (setitem/getitem/delitem/in/get/pop/popitem/setdefault/update/'
                'clear/len/keys/allow_unnamed_keys toggles) with keys from 14 spellings of 6 casefold classes + None: every return '
                'value / exception class and the final item list (original spellings, order) against the model. '
                'xkind: == and != between objects of two random CIM classes (TypeError expected unless same class). '
                'temporal: ONE freshly built object is hashed and put into a set and a dict before anything has read it, then 18 '
                'read-only operations (==, !=, repr, str, copy kinds, pickle, attribute reads at every depth, tocimxml, tomof, '
                'to_wbem_uri, len/iter, hash, in) run in a seeded order: same hash and still found after each; then the touched object '
                'against a never-read equal object. '
                'mutseq: one object, up to 6 random in-place change sites (item assignment/deletion/update on every dict, path and '
                'instance, key-property propagation, list append/pop, attribute re-binding, at every depth): hash it, change it, and '
                'compare ==, hash and set membership with an equal object built and changed without having been hashed before. '
                'non-trivial = at least one pair equal and one unequal (cmp) / object has a mutable child (copy); distinct = distinct spec JSON')
    run.assumptions += [
        'pywbem.config.IGNORE_NULL_KEY_VALUE = True during the run (NULL key values are generated)',
        'str.lower/str.casefold: concrete model implementation (ASCII, Latin-1, ẞ, İ, Kelvin sign, µ, ς) agrees with CPython '
        'on the generated alphabet (checked by K through every comparison); theorems hold for ANY lower/casefold',
        'builtin hash() of str/int/float/bool/datetime/timedelta/tuple/frozenset is a function of the value '
        '(hypothesis record PyHash + FsetExt of the hash theorem)',
        'numbers travel as reduced fractions (float.as_integer_ratio): Python compares numbers by exact value',
        'copy.copy/copy.deepcopy/pickle machinery of CPython (modelled: shallow = new object, same slot values; deep/pickle = all new)',
    ]
    # ---- comparison cases (in batches: bounded memory)
    done = 0
    while done < n_cmp:
        m = min(CMP_BATCH, n_cmp - done)
        done += m
        _timed(run, _cmp_batch, [gen_case(rng) for _ in range(m)])
    # ---- copy cases
    done = 0
    while done < n_copy:
        m = min(COPY_BATCH, n_copy - done)
        done += m
        _timed(run, _copy_batch, [gen_copy_case(rng) for _ in range(m)])
    # ---- NocaseDict API histories, comparisons across classes
    n_dict = 24000 if run.thorough else 4000
    n_x = 4000 if run.thorough else 600
    done = 0
    while done < n_dict:
        m = min(CMP_BATCH, n_dict - done)
        done += m
        _timed(run, _dict_batch, [gen_dict_case(rng) for _ in range(m)])
    _timed(run, _xkind_batch, [gen_xkind_case(rng) for _ in range(n_x)])
    # ---- one object over time: read-only operations must not change hash / membership
    n_t = 10000 if run.thorough else 1500
    done = 0
    while done < n_t:
        m = min(COPY_BATCH, n_t - done)
        done += m
        _timed(run, _temporal_batch, [gen_temporal_case(rng) for _ in range(m)])
    # ---- hash / change in place / compare with a never-hashed equal object
    done = 0
    while done < n_mut:
        m = min(COPY_BATCH, n_mut - done)
        done += m
        _timed(run, _mutseq_batch, [gen_mutseq_case(rng) for _ in range(m)])


CMP_BATCH = 5000
COPY_BATCH = 1500


def _cmp_batch(run, cases):
    evs = common.pmap(_cmp_worker, cases, chunksize=64)
    reqs, kept = [], []
    for case, ev in zip(cases, evs):
        if ev is None:
            run.count('cmp:spec_rejected_by_constructor')
            continue
        kept.append((case, ev))
        reqs.append({'op': 'cmpn', 'objs': [_strip_slots(e) for e in ev['encs']], 'pairs': [list(p) for p in PAIRS]})
    answers = common.run_driver(PROP, reqs) if reqs else []
    for (case, ev), ans in zip(kept, answers):
        real = ev['real']
        eqs = [r['eq'] for r in real if isinstance(r['eq'], bool)]
        run.case({'kind': case['kind'], 'variants': case['variants'], 'specs': case['specs']},
                 nontrivial=(True in eqs and False in eqs))
        run.count('cmp:kind:' + case['kind'])
        for v in case['variants']:
            run.count('cmp:variant:' + v)
        run.count('cmp:size:%s' % _size_class(ev['encs'][0]))
        for mf in case.get('mutated', []):
            run.count('cmp:mutated:' + mf)
        nan = any(has_nan(e) for e in ev['encs'])
        if nan:
            run.count('cmp:has_nan')
        if 'res' not in ans:
            run.disagree(case, ans, None, 'driver rejected the encoding')
            continue
        if not nan and not all(ans['good']):
            run.disagree(case, {'good': ans['good']}, None, 'model calls a real object ill-formed')
        for (i, j), r, m in zip(PAIRS, real, ans['res']):
            run.count('cmp:eq:%s' % (r['eq'] if isinstance(r['eq'], bool) else 'exc'))
            if r['eq'] != m['eq'] or r['ne'] != m['ne']:
                run.disagree(case, m, r, 'eq/ne of pair %d,%d' % (i, j))
            if nan:
                continue            # hash(nan) depends on the object identity (CPython >= 3.10)
            if isinstance(r.get('inset'), bool) and r['inset'] != m.get('in') and isinstance(r['heq'], bool) and \
                    not (r['heq'] and not m['heq']):
                run.disagree(case, m, r, 'set membership (pyIn) of pair %d,%d' % (i, j))
            if isinstance(r['heq'], bool):
                if m['heq'] and not r['heq']:
                    run.disagree(case, m, r, 'model hashes equal, real hashes differ, pair %d,%d' % (i, j))
                elif r['heq'] and not m['heq']:
                    run.count('cmp:real_hash_collision_or_coarser')
            else:
                run.disagree(case, m, r, 'hash raised')
        oracle_cmp(run, case, ev)


def _size_class(j):
    n = len(json.dumps(j))
    return '<200B' if n < 200 else '<1kB' if n < 1000 else '<5kB' if n < 5000 else '>=5kB'


def _copy_batch(run, ccases):
    cevs = common.pmap(_copy_worker, ccases, chunksize=32)
    reqs, kept = [], []
    for case, ev in zip(ccases, cevs):
        if ev is None:
            run.count('copy:spec_rejected_by_constructor')
            continue
        for how in HOWS:
            if 'exc' in ev['hows'][how]:
                continue
            reqs.append({'op': 'copy', 'how': {'pickle': 'deep'}.get(how, how), 'a': _strip_slots(ev['enc']),
                         'base': ev['base']})
            kept.append((case, ev, how))
    for case, ev in zip(ccases, cevs):
        if ev is not None and 'state' in ev:
            reqs.append({'op': 'state', 'a': _strip_slots(ev['enc'])})
            kept.append((case, ev, 'state'))
    answers = common.run_driver(PROP, reqs) if reqs else []
    seen_case = set()
    for (case, ev, how), ans in zip(kept, answers):
        if how == 'state':
            real = ev['state']
            model = {'keys': ans.get('keys'), 'restored': strip_ids(ans.get('restored'))}
            run.count('copy:state:' + ('exc' if 'exc' in real else 'ok'))
            if real != model:
                run.disagree(case, model, real, '__getstate__ / __setstate__')
            continue
        if id(case) not in seen_case:
            seen_case.add(id(case))
            run.case({'kind': case['kind'], 'spec': case['spec'], 'mode': 'copy'},
                     nontrivial=ev['base'] > 1)
            run.count('copy:kind:' + case['kind'])
            oracle_copy(run, case, ev)
        r = ev['hows'][how]
        run.count('copy:%s:sites' % how, r.get('sites', 0))
        for via in r['leaks']:
            run.count('copy:%s:leak:%s' % (how, via))
        if ev['kind'] == 'CIMDateTime':
            continue
        if 'obj' not in ans:
            run.disagree(case, ans, None, 'driver rejected the encoding')
            continue
        model_shape = renumber(ans['obj'], ev['base'])
        if model_shape != r['shape']:
            run.disagree({'case': case, 'how': how}, model_shape, r['shape'], 'sharing shape of ' + how)
    # cases whose every `how` raised still count (the oracle reports them)
    for case, ev in zip(ccases, cevs):
        if ev is not None and id(case) not in seen_case:
            run.case({'kind': case['kind'], 'spec': case['spec'], 'mode': 'copy'}, nontrivial=False)
            oracle_copy(run, case, ev)


def oracle_only(run):
    search(run, n=1500)


def search(run, n=6000):
    """K or a proof obligation broke and the oracle saw nothing: widen the oracle-only search on the real code"""
    before = len(run.violations)
    rng = run.rng
    for i in range(n):
        case = gen_case(rng)
        ev = eval_cmp(case)
        if ev is not None:
            oracle_cmp(run, case, ev)
        if i % 4 == 0:
            case = gen_copy_case(rng)
            ev = eval_copy(case)
            if ev is not None:
                oracle_copy(run, case, ev)
            case = gen_mutseq_case(rng)
            ev = eval_mutseq(case)
            if ev is not None:
                oracle_mutseq(run, case, ev)
            case = gen_temporal_case(rng)
            ev = eval_temporal(case)
            if ev is not None:
                oracle_temporal(run, case, ev)
        if len(run.violations) > before + 20:
            break
    return run.violations[before:]


def replay(payload):
    case = payload['case']
    if 'case' in case and 'how' in case:
        case = case['case']
    r = common.Run(PROP, 'quick', 0)
    if case.get('mode') == 'temporal':
        ev = eval_temporal(case)
        if ev is None:
            return True, 'spec rejected by the constructors (nothing to check)'
        oracle_temporal(r, case, ev)
        shown = ev
    elif case.get('mode') == 'mutseq':
        ev = eval_mutseq(case)
        if ev is None:
            return True, 'spec rejected by the constructors (nothing to check)'
        oracle_mutseq(r, case, ev)
        shown = [{k: v for k, v in x.items() if k not in ('encs', 'inplace')} for x in ev['res']]
    elif case.get('mode') == 'copy':
        ev = eval_copy(case)
        if ev is None:
            return True, 'spec rejected by the constructors (nothing to check)'
        oracle_copy(r, case, ev)
        shown = {h: {k: v for k, v in x.items() if k != 'shape'} for h, x in ev['hows'].items()}
    else:
        ev = eval_cmp(case)
        if ev is None:
            return True, 'spec rejected by the constructors (nothing to check)'
        oracle_cmp(r, case, ev)
        shown = ev['real']
    want = payload.get('sig')
    hits = [v for v in r.violations if want is None or v['sig'] == want] or r.violations
    if hits:
        return False, 'property C05 FAILS on this case: ' + json.dumps(hits[0]['sig']) + '\nobserved: ' + \
            json.dumps(hits[0]['observed'], default=str)[:1500]
    return True, 'property C05 holds on this case; real results: ' + json.dumps(shown, default=str)[:1500]
