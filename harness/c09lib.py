"""C09 helpers: MOF corpora, input generators, the runner of the real MOF compiler and the property oracle.

Everything in here touches only the REAL code (pywbem from $VERIF_REPO); the Lean model is driven from c09.py.
"""
import os
import re
import shutil
import signal
import tempfile

# --------------------------------------------------------------------------- corpora

QUALS = (
    'Qualifier Key : boolean = false, Scope(property, reference), Flavor(DisableOverride, ToSubclass);\n'
    'Qualifier Description : string = null, Scope(any), Flavor(EnableOverride, ToSubclass, Translatable);\n'
    'Qualifier Association : boolean = false, Scope(association), Flavor(DisableOverride, ToSubclass);\n'
    'Qualifier EmbeddedInstance : string = null, Scope(property, method, parameter);\n'
    'Qualifier Values : string[], Scope(property, method, parameter), Flavor(EnableOverride, ToSubclass, Translatable);\n'
    'Qualifier MaxLen : uint32 = null, Scope(property, method, parameter);\n'
    'Qualifier Abstract : boolean = false, Scope(class, association, indication), Flavor(EnableOverride, Restricted);\n'
)

# the known-good MOF compiled after every case on the SAME compiler object (names unlikely to be produced by a generator)
GOOD = (
    'Qualifier Key : boolean = false, Scope(property, reference), Flavor(DisableOverride, ToSubclass);\n'
    'Qualifier Description : string = null, Scope(any), Flavor(EnableOverride, ToSubclass, Translatable);\n'
    'Qualifier Association : boolean = false, Scope(association), Flavor(DisableOverride, ToSubclass);\n'
    '#pragma include ("c09g_inc.mof")\n'
    '   [Description ("good \\"class\\" \\x41"   " two")]\n'
    'class C09G_A : C09G_Base {\n'
    '   [Key] string id;\n'
    '   uint8 u8 = 0x1F; sint32 s32 = -12; real64 r = 1.5e3; boolean b = true; datetime d = "20200101120000.000000+000";\n'
    '   uint16 arr[] = {1, 010, 101b};\n'
    '   /* a comment\n over lines */ char16 c = \'x\'; // eol comment\n'
    '   uint32 m([Description("in")] string p1, uint8 p2[3]);\n'
    '};\n'
    '[Association] class C09G_L { [Key] C09G_A REF a; [Key] C09G_A REF b; };\n'
    'instance of C09G_A as $c09g1 { id = "one"; u8 = 7; arr = {1,2}; };\n'
    'instance of C09G_A as $c09g2 { id = "two"; };\n'
    'instance of C09G_L { a = $c09g1; b = $c09g2; };\n'
)
GOOD_INC = 'class C09G_Base { uint64 base = 18446744073709551615; };\n'

# valid MOF snippets for the mutation streams (compiled after QUALS in one namespace)
VALID = [
    'class TST_A { [Key] string k; uint8 p = 5; sint16 q = -3; string s = "ab\\n\\x41" "cd"; };',
    'class TST_B : TST_A { real32 r = 1.25; boolean b = false; datetime d = "20200101120000.000000+000"; uint8 arr[] = {1,2,3}; char16 c = \'a\'; };',
    '[Description("d"), Abstract] class TST_C { [Key, Description("k" "k2")] uint32 k; uint64 m([Description("x")] uint8 a, TST_A REF r); };',
    '[Association] class TST_L { [Key] TST_A REF x; [Key] TST_A REF y; };',
    'instance of TST_A as $a1 { k = "1"; p = 7; };',
    'instance of TST_A as $a2 { k = "2"; q = 0x10; s = null; };',
    'instance of TST_L { x = $a1; y = $a2; };',
    'instance of TST_B { k = "3"; arr = {4, 5}; r = .5; b = TRUE; c = \'\\x41\'; };',
    '#pragma namespace ("root/other")',
    'Qualifier TstQ : uint8[] = {1,2}, Scope(class, property), Flavor(EnableOverride);',
    'class TST_E { [Key] string k; [EmbeddedInstance("TST_A")] string e; };',
    'instance of TST_E { k = "e"; e = "instance of TST_A { k = \\"in\\"; };"; };',
    'class TST_V { [Key] uint8 k; [Values{"a","b"}, MaxLen(12)] string v; uint8 f[4]; };',
]

TOKEN_RE = re.compile(
    r'//[^\n]*|/\*.*?\*/|"(?:[^"\\\n]|\\.)*"|\'(?:[^\'\\\n]|\\.)*\'|[+-]?[0-9]*\.[0-9]+(?:[eE][+-]?[0-9]+)?'
    r'|[+-]?0[xX][0-9a-fA-F]+|[+-]?[0-9]+[bB]?|[A-Za-z_][A-Za-z0-9_]*|\s+|.', re.S)


def toks(s):
    return TOKEN_RE.findall(s)


ALPHABETS = [
    ' \t\r\n' * 2 + '#(){};[],$:=' * 3 + '"\'\\/*+-.' * 3 + '0123456789' + 'abxXeEfn' + '@!%&<>?^`|~' + '\x00\x7f\xc2\x80\xe0\xa0\xff\u20ac\U0001f600',
    'class instance of qualifier pragma as ref true false null scope flavor any ' + '{};:=,()[]$#"\\ \n',
]

KEYWORDS = ['class', 'instance', 'of', 'qualifier', 'pragma', 'as', 'ref', 'true', 'false', 'null', 'scope', 'flavor',
            'any', 'string', 'uint8', 'sint64', 'real32', 'boolean', 'datetime', 'char16', 'association', 'indication',
            'property', 'method', 'parameter', 'reference', 'schema', 'enableoverride', 'disableoverride', 'restricted',
            'tosubclass', 'toinstance', 'translatable', 'include', 'namespace']

NEAR_MISS = [
    # strings / escapes
    '"abc', '"a\\', '"a\\"', '"a\\x"', '"a\\x1"', '"a\\xG"', '"a\\q"', '"a\nb"', '"a\rb"', "'a", "''", "'ab'", "'\\x12345'",
    "'\\'", '"\\x00"', '"\\xD800"', '"\\XfFfF1"', '"\\\'"',
    # comments
    '/*', '/* x', '/* * /', '/*/', '/**/', '//', '// x\n', '/ *', '/* a\n\nb */ @',
    # numbers
    '08', '09b', '2b', '0b', '1B', '0x', '0xG', '0x1F', '+0x1f', '-0', '+', '-', '.', '1.', '.5', '1.5e', '1.5e+', '1e5', '-.5E-3',
    '00', '007', '0010b', '9' * 4299, '9' * 4300, '9' * 4301, '-' + '9' * 4300, '+' + '9' * 4305, '0' + '7' * 5000, '1' * 5000 + 'b',
    '0x' + 'f' * 5000, '9' * 5000 + '.5', '1.5e99999', '1' * 400 + '.0',
    # line structure
    '\r', '\r\r\r@', '\n\r\r\r@', '\n\n\n', '\t@', '  @', '@', '\n@', 'x\n\r @', '\r\n\r\n  @', '\n\r\n\r\r\r"', '\x00', '\ufeff',
    '\u00c2\u0080', '\u00c2', '\u00e0\u00a0\u0080x', '\u00e0\u0080', '\u00f4\u0090', 'a\u00c2\u0080b', '\u00e9t\u00e9',
]

PRAGMA_PARAMS = [
    '1:', ':', '', '/', '//', '///', 'root', '/root', 'root/', 'root//a', 'root/a', '/root/a/b', 'http://h/root', 'http:root',
    'http:/root', '//host/root', '///root', '//h:1/root', '//[::1]:5/r', 'a-b:', 'a-b', 'a b', 'root\\n', 'root\\n\\n', '\\nroot',
    'r\\x00t', 'r\\xe9t', '\\x661', 'wbem://', 'x:/r', 'x://@/r', '-:r', '_', '_/_', 'a:b:c', '1', 'a/', 'a//', '//a', '//a/',
    '\\x2f\\x2f', 'r\\x0a', '\\x0a', 'r\\x0d', 'a/b\\x0a', 'a\\x0a/b', '\\u00b5', '\\x00b5', '\\x0660', '\\x00aa/\\x00ba',
]


def gen_random_text(rng):
    n = rng.choice([0, 1, 2, 3, 5, 8, 13, 30, 80])
    alpha = rng.choice(ALPHABETS)
    if rng.random() < 0.3:
        parts = []
        for _ in range(n):
            r = rng.random()
            if r < 0.4:
                parts.append(rng.choice(KEYWORDS))
            elif r < 0.6:
                parts.append(rng.choice(NEAR_MISS))
            else:
                parts.append(rng.choice(alpha))
            parts.append(rng.choice([' ', '', '\n', ' ', '\r\n', '\t']))
        return ''.join(parts)
    return ''.join(rng.choice(alpha) for _ in range(n))


def gen_mutant(rng, base=None):
    """token-level mutation of valid MOF: returns (text, description)"""
    if base is None:
        k = rng.randint(1, 5)
        snippets = [s for s in VALID if rng.random() < 0.45][:k] or [rng.choice(VALID)]
        base = '\n'.join(snippets)
        if rng.random() < 0.3:
            base = base.replace('\n', rng.choice(['\r\n', '\n\n', '\n  ', '\n\r', ' ']))
    t = toks(base)
    idx = [i for i, x in enumerate(t) if not x.isspace()]
    how = rng.choice(['drop', 'dup', 'swap', 'unterm_str', 'unterm_comment', 'bad_escape', 'huge', 'replace', 'insert',
                      'trunc', 'typeval', 'alias', 'kw', 'none', 'nl'])
    if not idx:
        return base, 'none'
    i = rng.choice(idx)
    if how == 'drop':
        del t[i]
    elif how == 'dup':
        t.insert(i, t[i])
    elif how == 'swap':
        j = rng.choice(idx)
        t[i], t[j] = t[j], t[i]
    elif how == 'unterm_str':
        ss = [j for j in idx if t[j][0] in '"\'']
        if ss:
            j = rng.choice(ss)
            t[j] = t[j][:-1] if rng.random() < 0.5 else t[j][:rng.randint(1, len(t[j]))]
    elif how == 'unterm_comment':
        t.insert(i, rng.choice(['/*', '/* x *', '*/', '//', '/']))
    elif how == 'bad_escape':
        ss = [j for j in idx if t[j][0] == '"']
        esc = rng.choice(['\\x', '\\x1', '\\xZ', '\\q', '\\', '\\x12345', '\\u1234', '\\0', '\\xD800', "\\'", '\\X7f'])
        if ss:
            j = rng.choice(ss)
            pos = rng.randint(1, len(t[j]) - 1)
            t[j] = t[j][:pos] + esc + t[j][pos:]
        else:
            t.insert(i, '"a' + esc + '"')
    elif how == 'huge':
        nn = [j for j in idx if t[j][0].isdigit() or t[j][0] in '+-.']
        v = rng.choice(['9' * 4301, '-' + '9' * 4400, '0x' + 'F' * 300, '1' * 70 + 'b', '0' + '7' * 100, '1e999', '9' * 400 + '.0',
                        '99999999999999999999', '-1', '256', '65536', '18446744073709551616', '1.0', '0.1e-400', '4294967296',
                        '-129', '08', '3b'])
        if nn:
            t[rng.choice(nn)] = v
        else:
            t.insert(i, v)
    elif how == 'replace':
        t[i] = rng.choice(['@', '$', '{', '}', ';', '"x"', '5', 'null', 'true', "'c'", '1.5', '$nope', '[', ']', '(', ')', ',', ':',
                           '=', '#', '\\', '\x00', '\u20ac', '{}', '{1,"a"}', 'ref', 'as', 'of'])
    elif how == 'insert':
        t.insert(i, rng.choice(NEAR_MISS + KEYWORDS + ['@', ';', '}', '{']))
    elif how == 'trunc':
        cut = rng.randint(0, len(base))
        return base[:cut], 'trunc'
    elif how == 'typeval':
        vs = [j for j in idx if j > 0 and any(t[k] == '=' for k in range(max(0, j - 2), j))]
        v = rng.choice(['"abc"', '300', '-1', '1.5', 'true', 'null', "'a'", '{1,2}', '{}', '{"a", 1}', '$a1', '$nope', 'TST_A',
                        '"20200101120000.000000+000"', '"2020"', '99999999999999999999999', '{null}', '{true, 1}', '"instance of"',
                        '"instance of TST_A { k = \\"q\\"; };"', '"class X {};"', '5'])
        if vs:
            t[rng.choice(vs)] = v
        else:
            t.insert(i, '= ' + v)
    elif how == 'alias':
        t[i] = rng.choice(['$a1', '$zz', '$', 'as $a1', 'as $', '$a1 $a2'])
    elif how == 'kw':
        t[i] = rng.choice(KEYWORDS)
    elif how == 'nl':
        t.insert(i, rng.choice(['\n', '\r', '\r\n', '\n\r\r', '\n' * 5, '\r\r\r']))
    return ''.join(t), how


def mof_string_literal(param_chars):
    """a MOF string literal denoting exactly the characters given (code points <= 0xFFFF as \\xHHHH when not plain)"""
    out = ['"']
    for ch in param_chars:
        o = ord(ch)
        if ch in '"\\' or o < 32 or o > 126:
            if o > 0xFFFF:
                out.append(ch)
            else:
                out.append('\\x%04X' % o)
        else:
            out.append(ch)
    out.append('"')
    return ''.join(out)


# --------------------------------------------------------------------------- the real code

class Timeout(Exception):
    pass


def _alarm(signum, frame):
    raise Timeout()


def site_of(exc):
    """(site, raiser, rfile, via_handle): site = innermost compiler function (lexer rule t_*, semantic action p_*,
    helper or MOFCompiler method of pywbem/_mof_compiler.py; the methods of the repository classes are skipped) on the
    traceback; raiser/rfile = innermost frame overall; via_handle = the traceback passes through a repository method"""
    tb = exc.__traceback__
    site = raiser = rfile = None
    via = False
    while tb is not None:
        code = tb.tb_frame.f_code
        fn = os.path.basename(code.co_filename)
        if fn in ('_mof_compiler.py', '_mockmofwbemconnection.py'):
            if code.co_name[:1].isupper():
                via = True
            elif fn == '_mof_compiler.py':
                site = code.co_name
        raiser = code.co_name
        rfile = fn
        tb = tb.tb_next
    return site, raiser, rfile, via


def nested_unit_of(exc):
    """text of the embedded value being compiled when exc was raised (innermost compile_embedded_value frame on the
    traceback), or None: errors inside such a nested parse carry file None and positions relative to that text"""
    tb = exc.__traceback__
    unit = None
    while tb is not None:
        code = tb.tb_frame.f_code
        if code.co_name == 'compile_embedded_value' and code.co_filename.endswith('_mof_compiler.py'):
            loc = tb.tb_frame.f_locals
            m = loc.get('mof')
            unit = loc.get('mof_str') if isinstance(m, list) else m
        tb = tb.tb_next
    return unit if isinstance(unit, str) else None


def recursion_via(exc):
    """what recursed (from the traceback of the real code): 'include' = p_compilerDirective frames (a file including
    itself / an include cycle), 'superclass' = p_mp_createClass repairing CIM_ERR_INVALID_SUPERCLASS (10) by compiling the
    superclass file, 'dependency' = p_mp_createClass repairing an unresolved reference/EmbeddedInstance class
    (codes 4, 6, 1), 'qualifier_files' = p_qualifier compiling qualifiers.mof / qualifiers_optional.mof,
    'getclass_superclass_chain' = MOFWBEMConnection.GetClass(LocalOnly=False) calling itself along the superclasses,
    else 'other'"""
    tb = exc.__traceback__
    n_inc = n_super = n_dep = n_qual = n_get = 0
    while tb is not None:
        code = tb.tb_frame.f_code
        if code.co_filename.endswith('_mof_compiler.py'):
            if code.co_name == 'p_compilerDirective':
                n_inc += 1
            elif code.co_name == 'p_qualifier':
                n_qual += 1
            elif code.co_name == 'GetClass':
                n_get += 1
            elif code.co_name == 'p_mp_createClass':
                ec = tb.tb_frame.f_locals.get('errcode')
                if ec == 10:
                    n_super += 1
                elif ec in (4, 6, 1):
                    n_dep += 1
        tb = tb.tb_next
    best = max(n_inc, n_super, n_dep, n_qual)
    if best < 3:
        # no nesting of compile_file at all: the repository's GetClass following a superclass chain that is a cycle
        return 'getclass_superclass_chain' if n_get > 50 else 'other'
    if best == n_inc:
        return 'include'
    if best == n_super:
        return 'superclass'
    return 'dependency' if best == n_dep else 'qualifier_files'


def new_compiler(handle=None, search_paths=None):
    import pywbem
    if handle is None:
        handle = pywbem.MOFWBEMConnection()
    return pywbem.MOFCompiler(handle, search_paths=search_paths, log_func=None)


def outcome_of(func):
    """run func() under an alarm; canonical outcome dict (class names only; never message text)"""
    import pywbem
    old = signal.signal(signal.SIGALRM, _alarm)
    signal.alarm(60)
    try:
        func()
        return {'ok': True}
    except Timeout:
        return {'timeout': True}
    except pywbem.MOFCompileError as e:
        site, raiser, rfile, via = site_of(e)
        out = {'exc': type(e).__name__, 'mof': True, 'lineno': e.lineno, 'column': e.column, 'file': e.file,
               'context': e.context, 'site': site, 'nested_unit': nested_unit_of(e)}
        if isinstance(e, pywbem.MOFRepositoryError):
            ce = e.cim_error
            out['cim_code'] = ce.status_code if isinstance(ce, pywbem.CIMError) else None
        try:
            str(e)
            e.get_err_msg()
        except Exception as e2:      # the error message itself must be printable
            out['str_exc'] = type(e2).__name__
        return out
    except RecursionError as e:
        return {'exc': 'RecursionError', 'site': None, 'raiser': None, 'rfile': None, 'via': recursion_via(e)}
    except BaseException as e:     # noqa
        if isinstance(e, (KeyboardInterrupt, SystemExit)):
            raise
        site, raiser, rfile, via = site_of(e)
        out = {'exc': type(e).__name__, 'site': site, 'raiser': raiser, 'rfile': rfile, 'via_handle': via}
        if isinstance(e, pywbem.CIMError):
            out['code'] = e.status_code
        return out
    finally:
        signal.alarm(0)
        signal.signal(signal.SIGALRM, old)


def position_verdict(out, texts):
    """the position part of the property: None = fine, else a short reason.
    texts: {file name or None: source text} of every input text of the case"""
    ln, col, fil, ctx = out['lineno'], out['column'], out['file'], out['context']
    if ln is None and col is None and ctx is None:
        # documented: no position available (unexpected end of MOF; errors detected outside a token)
        if fil is not None:
            return 'file_without_position'
        return None
    if fil not in texts:
        return 'file_not_an_input'
    if not isinstance(ln, int) or not isinstance(col, int) or isinstance(ln, bool) or isinstance(col, bool):
        return 'position_not_int'
    lines = texts[fil].split('\n')
    if not 1 <= ln <= len(lines):
        return 'line_outside_input'
    if not 0 <= col <= len(lines[ln - 1]) + 1:
        # where would the column fit? (classifies the known lookahead skew)
        if any(col <= len(l) + 1 for l in lines[:ln - 1]):
            return 'column_beyond_line:fits_earlier_line'
        return 'column_beyond_line:fits_no_line'
    if not (isinstance(ctx, list) and all(isinstance(x, str) for x in ctx)):
        return 'context_not_lines'
    if out.get('site') == 'p_error' and len(ctx) >= 2:
        # an error reported at a token: lineno, column and context all come from that token, so the context must show
        # (the beginning of) exactly that line of exactly that input -- "the position names the input the error is in"
        actual = lines[ln - 1]
        shown = ctx[-2]
        if not (actual.startswith(shown) or actual.rstrip('\r').startswith(shown) or
                actual.lstrip('\r').startswith(shown.lstrip('\r'))):
            return 'context_is_not_that_line'
    return None


def repo_snapshot(handle, ns):
    """canonical content of namespace ns of a MOFWBEMConnection (MOF text, namespace name masked)"""
    def m(s):
        return s.replace(ns, '<NS>')
    cl = handle.classes.get(ns, {})
    return {
        'classes': sorted(m(c.tomof()) for c in cl.values()),
        'quals': sorted(m(q.tomof()) for q in handle.qualifiers.get(ns, {}).values()),
        'insts': sorted(m(i.tomof()) + m(str(i.path)) for i in handle.instances.get(ns, [])),
    }


class Workdir:
    """temp dir with the files of the GOOD compile; one per process"""

    def __init__(self):
        self.dir = tempfile.mkdtemp(prefix='c09_')
        self.good_dir = os.path.join(self.dir, 'good')
        os.makedirs(self.good_dir)
        with open(os.path.join(self.good_dir, 'c09g_main.mof'), 'w', encoding='utf-8') as f:
            f.write(GOOD)
        with open(os.path.join(self.good_dir, 'c09g_inc.mof'), 'w', encoding='utf-8') as f:
            f.write(GOOD_INC)
        self.n = 0

    def good_file(self):
        return os.path.join(self.good_dir, 'c09g_main.mof')

    def case_dir(self, files):
        self.n += 1
        d = os.path.join(self.dir, 'c%d' % self.n)
        os.makedirs(d)
        for name, text in files.items():
            p = os.path.join(d, name)
            os.makedirs(os.path.dirname(p), exist_ok=True)
            with open(p, 'w', encoding='utf-8', newline='') as f:
                f.write(text)
        return d

    def close(self):
        shutil.rmtree(self.dir, ignore_errors=True)


_REF = {}


def good_reference(wd):
    """result of the GOOD compile on a fresh compiler (once per process); None if the GOOD compile itself fails on the
    code under test (then _REF['fail'] holds its outcome)"""
    if 'ref' not in _REF:
        _REF['ref'] = None
        try:
            comp = new_compiler()
            out = outcome_of(lambda: comp.compile_file(wd.good_file(), 'c09/ref'))
            if out.get('ok'):
                _REF['ref'] = repo_snapshot(comp.handle, 'c09/ref')
            else:
                _REF['fail'] = out
        except Exception as e:       # noqa: even constructing the compiler or printing the objects may fail
            site, raiser, rfile, via = site_of(e)
            _REF['fail'] = {'exc': type(e).__name__, 'site': site, 'raiser': raiser, 'rfile': rfile, 'via_handle': via}
    return _REF['ref']


# --------------------------------------------------------------------------- stub repository (every CIM status code)

OPS = ['CreateClass', 'ModifyClass', 'GetClass', 'CreateInstance', 'ModifyInstance', 'SetQualifier', 'DeleteQualifier',
       'EnumerateQualifiers']


def make_stub():
    import pywbem

    class StubRepo(pywbem.BaseRepositoryConnection):
        """passes every operation to an in-memory MOFWBEMConnection unless the script says 'fail the n-th call of op with
        CIM status code c' (script: {op: [code|None, ...]}, consumed call by call; exhausted = pass through)"""

        def __init__(self):
            self.inner = pywbem.MOFWBEMConnection()
            self.script = {}
            self.calls = []
            self.conn = None

        def reset(self, script):
            self.script = {k: list(v) for k, v in script.items()}
            self.calls = []

        def _getns(self):
            return self.inner.default_namespace

        def _setns(self, v):
            self.inner.default_namespace = v

        default_namespace = property(_getns, _setns)

        def _do(self, op, args, kwargs):
            q = self.script.get(op)
            code = q.pop(0) if q else None
            self.calls.append([op, code])
            if code is not None:
                raise pywbem.CIMError(code, 'stub says no')
            if op in ('ModifyClass', 'ModifyInstance', 'DeleteQualifier'):
                return None          # not implemented by MOFWBEMConnection: accepted without effect
            return getattr(self.inner, op)(*args, **kwargs)

        def rollback(self, verbose=False):
            pass

    def mk(op):
        def f(self, *args, **kwargs):
            return self._do(op, args, kwargs)
        f.__name__ = op
        return f
    for op in OPS + ['EnumerateInstanceNames', 'DeleteInstance', 'DeleteClass', 'GetQualifier']:
        setattr(StubRepo, op, mk(op))
    StubRepo.__abstractmethods__ = frozenset()
    return StubRepo()


REPO_MOFS = {
    'class': 'class C09S_A { uint8 p; };',
    'class_super': 'class C09S_A { uint8 p; };\nclass C09S_B : C09S_A { uint8 q; };',
    'class_ref': 'class C09S_A { uint8 p; };\nclass C09S_R { C09S_A REF r; uint8 m(C09S_A REF x); };',
    'class_qual': QUALS + 'class C09S_A { [Key, Description("x")] uint8 p; };',
    'class_emb': QUALS + 'class C09S_A { [Key] uint8 p; [EmbeddedInstance] string e; [EmbeddedInstance("C09S_A")] string f; };',
    'qualdecl': 'Qualifier C09S_Q : boolean = false, Scope(any);',
    'inst': QUALS + 'class C09S_A { [Key] uint8 p; uint8 q; };\ninstance of C09S_A as $s1 { p = 1; };',
    'inst_nokey': QUALS + 'class C09S_A { [Key] uint8 p; uint8 q; };\ninstance of C09S_A { q = 1; };',
    'inst_only': 'instance of C09S_A { p = 1; };',
    'class_unknown_qual': 'class C09S_A { [C09S_Nope] uint8 p; };',
    'ns_class': '#pragma namespace ("c09/other")\nclass C09S_A { uint8 p; };\nclass C09S_R { C09S_A REF r; C09S_N REF n; };',
}
