"""C18 — the subscription manager owns exactly what it created and removes exactly that.

K: random operation histories (1..2 mock WBEM servers with Interop namespace and the three subscription
providers, 1..3 manager objects, restarts) are executed on the real WBEMSubscriptionManager / mock server
and on the Lean model (Model/SubMgr.lean through drv_c18); per step the result and a snapshot of every
manager's owned lists and of the three instance classes in every server are compared.  A second stream
compares the model's re.escape / pattern matcher with CPython's `re` on generated (id, Name) pairs.

Oracle: the property itself, evaluated on the real results and snapshots only (class Oracle).
"""
import json
import os
import random
import re as pyre

import common

PROP = 'C18'

FILTER_CN = 'CIM_IndicationFilter'
DEST_CN = 'CIM_ListenerDestinationCIMXML'
SUB_CN = 'CIM_IndicationSubscription'
PREFIX = {'f': 'pywbemfilter:', 'd': 'pywbemdestination:'}
_DEST_L, _FILTER_L, _SUB_L = DEST_CN.lower(), FILTER_CN.lower(), SUB_CN.lower()

# --------------------------------------------------------------------------- the real world

_SRV = {}
NS_WITH_CLASSES, NS_NO_CLASSES = 'root/cimv2', 'root/empty'
DEFAULT_NS = ['interop', NS_WITH_CLASSES, NS_NO_CLASSES]


def _mock_dict():
    from tests.unittest.utils.dmtf_mof_schema_def import DMTF_TEST_SCHEMA_VER
    from pywbem_mock.config import OBJECTMANAGERNAME, SYSTEMNAME
    sd = os.path.join('tests', 'schema')
    return {
        'dmtf_schema': {'version': DMTF_TEST_SCHEMA_VER, 'dir': sd},
        'tst_schema': {'dir': os.path.join(sd, 'FakeWBEMServer'), 'files': []},
        'url': None,
        'class_names': ['CIM_Namespace', 'CIM_ObjectManager', 'CIM_RegisteredProfile',
                        'CIM_ElementConformsToProfile', 'CIM_ReferencedProfile', 'CIM_ComputerSystem',
                        SUB_CN, DEST_CN, FILTER_CN],
        'class-mof': ["class XXX_StorageComputerSystem : CIM_ComputerSystem{};"],
        'system_name': SYSTEMNAME,
        'object_manager': {'Name': OBJECTMANAGERNAME, 'ElementName': 'Mock_Test',
                           'Description': 'Mock_Test CIM Server Version 2.15.0 Released'},
        'interop_namspace': 'interop',
        'other_namespaces': [],
        'providers': ["namespace_provider", 'subscription_providers'],
        'registered_profiles': [('DMTF', 'Indications', '1.1.0'), ('DMTF', 'Profile Registration', '1.0.0'),
                                ('SNIA', 'Server', '1.1.0'), ('SNIA', 'Server', '1.2.0')],
        'referenced_profiles': [(('SNIA', 'Server', '1.2.0'), ('DMTF', 'Indications', '1.1.0'))],
        'element_conforms_to_profile': [],
        'central-instances': [],
        'scoping-instances': [],
    }


def server(k):
    """mock WBEM server number k of this process (built once; emptied by reset_server between cases)"""
    if k not in _SRV:
        import sys
        cwd = os.getcwd()
        os.chdir(common.REPO)          # WbemServerMock reads tests/schema relative to the repo root
        try:
            if common.REPO not in sys.path:
                sys.path.insert(0, common.REPO)
            import io
            import contextlib
            with contextlib.redirect_stdout(io.StringIO()):
                from tests.unittest.utils.wbemserver_mock import WbemServerMock
                m = WbemServerMock(interop_ns='interop', server_mock_data=_mock_dict(),
                                   url='http://srv%d:5988' % k)
                # the connection's default namespace is a user choice (a generated dimension): besides Interop
                # there is a namespace that has the three subscription classes too and one that has no classes
                from tests.unittest.utils.dmtf_mof_schema_def import DMTF_TEST_SCHEMA_VER, DMTFCIMSchema
                conn = m.wbem_server.conn
                schema = DMTFCIMSchema(DMTF_TEST_SCHEMA_VER, os.path.join('tests', 'schema'), use_experimental=False,
                                       verbose=False)
                conn.add_namespace(NS_WITH_CLASSES)
                conn.compile_schema_classes([SUB_CN, DEST_CN, FILTER_CN], schema.schema_pragma_file,
                                            namespace=NS_WITH_CLASSES, verbose=False)
                conn.add_namespace(NS_NO_CLASSES)
            _SRV[k] = m.wbem_server
        finally:
            os.chdir(cwd)
    return _SRV[k]


def reset_server(srv):
    store = srv.conn.cimrepository.get_instance_store('interop')
    for p in list(store.iter_names()):
        if p.classname.lower() in (FILTER_CN.lower(), DEST_CN.lower(), SUB_CN.lower()):
            store.delete(p)


class AppError(Exception):
    """an application exception raised inside a `with WBEMSubscriptionManager(...)` block"""


EXIT_EXCS = ['ValueError', 'KeyError', 'AppError', 'CIMError', 'ConnectionError', 'KeyboardInterrupt', 'SystemExit',
             'GeneratorExit', 'StopIteration', 'AssertionError']


def app_exception(name):
    import pywbem
    if name == 'AppError':
        return AppError('application failure inside the with block')
    if name == 'CIMError':
        return pywbem.CIMError(pywbem.CIM_ERR_FAILED, 'raised by application code')
    if name == 'ConnectionError':
        return pywbem.ConnectionError('raised by application code')
    import builtins
    return getattr(builtins, name)('raised by application code')


def sysname(k):
    from pywbem_mock.config import SYSTEMNAME
    return SYSTEMNAME if k == 0 else 'othersys%d' % k


def sysidx(s):
    from pywbem_mock.config import SYSTEMNAME
    if s == SYSTEMNAME:
        return 0
    if s.startswith('othersys'):
        return int(s[len('othersys'):])
    return 99


def mkpath(cn, name, sys):
    import pywbem
    return pywbem.CIMInstanceName(cn, keybindings={
        'CreationClassName': cn, 'SystemCreationClassName': 'CIM_ComputerSystem',
        'SystemName': sysname(sys), 'Name': name}, namespace='interop')


def subpath(f, h):
    import pywbem
    return pywbem.CIMInstanceName(SUB_CN, keybindings=[('Filter', mkpath(FILTER_CN, f[0], f[1])),
                                                         ('Handler', mkpath(DEST_CN, h[0], h[1]))],
                                  namespace='interop')


def pkey(p):
    return [p.keybindings['Name'], sysidx(p.keybindings['SystemName'])]


class Real:
    """executes concrete ops (the JSON the model gets, plus raw strings) on the real code"""

    def __init__(self, nsrv, static, urls, defns=None):
        import pywbem
        self.nsrv = nsrv
        self.srv = [server(k) for k in range(nsrv)]
        for k, srv in enumerate(self.srv):
            # default namespace of the connection for this case (every manager call names the Interop namespace
            # explicitly, so the choice must not matter)
            srv.conn.default_namespace = (defns or [])[k] if defns and k < len(defns) else 'interop'
        self.urls = urls                      # normalised URL -> token
        self.mgrs = []                        # manager objects by model index
        self.alive = []
        self.sids = {srv.url: k for k, srv in enumerate(self.srv)}
        for k, srv in enumerate(self.srv):
            reset_server(srv)
            st = static[k] if k < len(static) else {'d': [], 'f': [], 's': []}
            objs = []
            for (name, sys) in st['f']:
                i = pywbem.CIMInstance(FILTER_CN, properties={
                    'CreationClassName': FILTER_CN, 'SystemCreationClassName': 'CIM_ComputerSystem',
                    'SystemName': sysname(sys), 'Name': name, 'Query': 'SELECT * FROM CIM_Indication',
                    'QueryLanguage': 'WQL'})
                i.path = mkpath(FILTER_CN, name, sys)
                objs.append(i)
            for (name, sys, url, pt) in st['d']:
                props = {'CreationClassName': DEST_CN, 'SystemCreationClassName': 'CIM_ComputerSystem',
                         'SystemName': sysname(sys), 'Name': name, 'Destination': self.url_of(url)}
                if pt is not None:
                    props['PersistenceType'] = pywbem.Uint16(pt)
                i = pywbem.CIMInstance(DEST_CN, properties=props)
                i.path = mkpath(DEST_CN, name, sys)
                objs.append(i)
            for (fn, fs, hn, hs, _owner) in st['s']:
                fp, hp = mkpath(FILTER_CN, fn, fs), mkpath(DEST_CN, hn, hs)
                i = pywbem.CIMInstance(SUB_CN, properties={'Filter': fp, 'Handler': hp})
                i.path = subpath((fn, fs), (hn, hs))
                objs.append(i)
            if objs:
                srv.conn.add_cimobjects(objs, namespace='interop')

    def url_of(self, token):
        for u, t in self.urls.items():
            if t == token:
                return u
        return 'http://unknown:1'

    # ---- canonical forms
    def dest_json(self, inst):
        if inst is None:                         # junk the caller put into a list it got back (see 'scribble')
            return ['<junk>', -1, -1, None]
        pt = inst.properties.get('PersistenceType')
        return pkey(inst.path) + [self.urls.get(inst['Destination'], -1), None if pt is None else int(pt.value)]

    @staticmethod
    def filt_json(inst):
        return ['<junk>', -1] if inst is None else pkey(inst.path)

    @staticmethod
    def sub_json(inst):
        if inst is None:
            return ['<junk>', -1, '<junk>', -1]
        return pkey(inst.path.keybindings['Filter']) + pkey(inst.path.keybindings['Handler'])

    def snapshot(self):
        stores = []
        for srv in self.srv:
            # the Interop instance store itself, in store order (= the order EnumerateInstances delivers; the
            # get_all_*() route is exercised by the getAll ops); no deep copies
            st = {'d': [], 'f': [], 's': []}
            for i in srv.conn.cimrepository.get_instance_store('interop').iter_values(copy=False):
                cn = i.classname.lower()
                if cn == _DEST_L:
                    st['d'].append(self.dest_json(i))
                elif cn == _FILTER_L:
                    st['f'].append(self.filt_json(i))
                elif cn == _SUB_L:
                    st['s'].append(self.sub_json(i))
            stores.append(st)
        mgrs = []
        for m, mg in enumerate(self.mgrs):
            if not self.alive[m]:
                continue
            regs = []
            for sid in list(mg._servers.keys()):
                s = self.sids[sid]
                reg = {'s': s}
                for key, fn, cv in (('od', mg.get_owned_destinations, self.dest_json),
                                    ('of', mg.get_owned_filters, self.filt_json),
                                    ('os', mg.get_owned_subscriptions, self.sub_json)):
                    try:
                        reg[key] = [cv(i) for i in fn(sid)]
                    except KeyError:
                        reg[key] = 'KeyError'
                regs.append(reg)
            mgrs.append({'m': m, 'regs': regs})
        return {'stores': stores, 'mgrs': mgrs}

    def sid(self, s):
        return self.srv[s].url if s < self.nsrv else 'http://nosuchserver:1'

    @staticmethod
    def remove_all(mg, how):
        """remove_all_servers() (how false) or leaving the context manager — through the real `with` statement:
        how True / 'normal' = the block ends normally; how = name of an exception class = application code inside
        the block raises it.  Result 'ok' = the clean-up itself raised nothing (an application exception must
        come out of the `with` statement unchanged; that is not an error of the manager)."""
        if not how:
            mg.remove_all_servers()
            return {'ok': None}
        if how is True or how == 'normal':
            with mg as entered:
                if entered is not mg:
                    return {'exc': 'EnterReturnedOtherObject'}
            return {'ok': {'exit': False}}
        app = app_exception(how)
        try:
            with mg:
                raise app
        except BaseException as e:  # noqa  (KeyboardInterrupt / SystemExit / GeneratorExit are in the pool)
            if e is app:
                return {'ok': {'exit': True}}           # __exit__ returned a false value: the exception propagates
            return common.exc_json(e)
        return {'ok': {'exit': False}}                  # swallowed (the model says it propagates)

    def step(self, op):
        import pywbem
        try:
            o = op['op']
            if o == 'newMgr':
                mg = pywbem.WBEMSubscriptionManager(common.from_cps(op['id']))
                self.mgrs.append(mg)
                self.alive.append(True)
                return {'ok': {'mgr': len(self.mgrs) - 1}}
            m = op['m']
            mg = self.mgrs[m]
            if o == 'dropMgr':
                self.alive[m] = False
                return {'ok': None}
            if o == 'removeAll':
                return self.remove_all(mg, op.get('exit'))
            s = op['s']
            sid = self.sid(s)
            if o == 'addServer':
                mg.add_server(self.srv[s])
                return {'ok': None}
            if o == 'removeServer':
                mg.remove_server(sid)
                return {'ok': None}
            if o == 'addDest':
                kw = {'owned': op['owned']}
                if op['destId'] is not None:
                    kw['destination_id'] = common.from_cps(op['destId'])
                if op['name'] is not None:
                    kw['name'] = common.from_cps(op['name'])
                if op['pt'] is not None:
                    kw['persistence_type'] = common.from_cps(op['pt'])
                r = mg.add_destination(sid, op['rawurl'], **kw)
                return {'ok': {'d': self.dest_json(r)}}
            if o == 'addFilter':
                kw = {'owned': op['owned']}
                if op['fid'] is not None:
                    kw['filter_id'] = common.from_cps(op['fid'])
                if op['name'] is not None:
                    kw['name'] = common.from_cps(op['name'])
                r = mg.add_filter(sid, op.get('srcns', 'root/cimv2'), 'SELECT * FROM CIM_AlertIndication',
                                  op.get('ql', 'WQL'), **kw)
                return {'ok': {'f': self.filt_json(r)}}
            if o == 'addSubs':
                fp = mkpath(FILTER_CN, common.from_cps(op['f'][0]), op['f'][1])
                sel = op['sel']
                if sel is None:
                    dp = None
                elif 'one' in sel:
                    dp = mkpath(DEST_CN, common.from_cps(sel['one'][0]), sel['one'][1])
                else:
                    dp = [mkpath(DEST_CN, common.from_cps(p[0]), p[1]) for p in sel['many']]
                r = mg.add_subscriptions(sid, fp, dp, owned=op['owned'])
                return {'ok': {'S': [self.sub_json(i) for i in r]}}
            if o == 'removeDests':
                sel = op['sel']
                if 'one' in sel:
                    dp = mkpath(DEST_CN, common.from_cps(sel['one'][0]), sel['one'][1])
                else:
                    dp = [mkpath(DEST_CN, common.from_cps(p[0]), p[1]) for p in sel['many']]
                if op.get('each'):
                    # the caller's idiom "remove everything I own": loop over the RETURNED list while removing
                    # (equals remove_destinations(list of the owned paths) when the returned list is a copy)
                    for inst in mg.get_owned_destinations(sid):
                        mg.remove_destinations(sid, inst.path)
                    return {'ok': None}
                mg.remove_destinations(sid, dp)
                return {'ok': None}
            if o == 'removeFilter':
                mg.remove_filter(sid, mkpath(FILTER_CN, common.from_cps(op['p'][0]), op['p'][1]))
                return {'ok': None}
            if o == 'removeSubs':
                sel = op['sel']

                def sp(x):
                    return subpath((common.from_cps(x[0][0]), x[0][1]), (common.from_cps(x[1][0]), x[1][1]))
                if op.get('each'):
                    for inst in mg.get_owned_subscriptions(sid):
                        mg.remove_subscriptions(sid, inst.path)
                    return {'ok': None}
                mg.remove_subscriptions(sid, sp(sel['one']) if 'one' in sel else [sp(x) for x in sel['many']])
                return {'ok': None}
            if o in ('getOwned', 'getAll'):
                w = op['which']
                name = {'d': 'destinations', 'f': 'filters', 's': 'subscriptions'}[w]
                cv = {'d': self.dest_json, 'f': self.filt_json, 's': self.sub_json}[w]
                r = getattr(mg, ('get_owned_' if o == 'getOwned' else 'get_all_') + name)(sid)
                out = {'ok': {w.upper(): [cv(i) for i in r]}}
                # the returned list belongs to the caller: it edits it (the manager's bookkeeping must not notice)
                how = op.get('scribble')
                if how == 'clear':
                    del r[:]
                elif how == 'pop' and r:
                    r.pop()
                elif how == 'junk':
                    r.insert(0, None)
                elif how == 'reverse':
                    r.reverse()
                return out
        except Exception as e:  # noqa
            return common.exc_json(e)
        raise ValueError(op)


# --------------------------------------------------------------------------- the property oracle

def marker(kind, name):
    """SPEC of the ownership marker: the id i with name = prefix + i + ':' + rest, no ':' in i and rest"""
    pre = PREFIX[kind]
    if not name.startswith(pre):
        return None
    parts = name[len(pre):].split(':')
    if len(parts) != 2:
        return None
    return parts[0]


def tup(x):
    return tuple(x[:2])


class Oracle:
    """Evaluates C18 on what the real code returned.  It keeps, per server, the provenance of every
    instance it has seen being created (who created it, owned or permanent) — taken from the real
    results, never from the model."""

    def __init__(self, case, snap0):
        self.ids = {}            # manager index -> id
        self.alive = {}
        self.violations = []     # (sig, observed)
        self.case = case
        # (manager object, server) pairs whose local view has been invalidated by ANOTHER manager's action on
        # a shared instance (witnessed concretely); value = the cause that explains follow-up mismatches
        self.taint = {}
        nsrv = case['nsrv']
        # provenance: server -> {('f'|'d', name, sys) | ('s', f, h): ('static'|'owned'|'permanent', creator id)}
        self.prov = [dict() for _ in range(nsrv)]
        self.subowner = [dict() for _ in range(nsrv)]      # (f, h) -> id | None   (spec ownership of subscriptions)
        for k in range(nsrv):
            st = snap0['stores'][k]
            for f in st['f']:
                self.prov[k][('f',) + tup(f)] = ('static', None, None)
            for d in st['d']:
                self.prov[k][('d',) + tup(d)] = ('static', None, None)
            for s in st['s']:
                key = (tuple(s[0:2]), tuple(s[2:4]))
                self.prov[k][('s',) + key] = ('static', None, None)
                a, b = marker('f', s[0]), marker('d', s[2])
                self.subowner[k][key] = a if a is not None else b

    def violate(self, sig, observed):
        self.violations.append((sig, observed))

    # ---- spec-owned sets in a store snapshot
    def owned_sets(self, k, st, i):
        fs = {tup(f) for f in st['f'] if marker('f', f[0]) == i}
        ds = {tup(d) for d in st['d'] if marker('d', d[0]) == i}
        ss = {(tuple(s[0:2]), tuple(s[2:4])) for s in st['s']
              if self.subowner[k].get((tuple(s[0:2]), tuple(s[2:4]))) == i}
        return fs, ds, ss

    def cause_missing(self, k, cls, key, i, m=None):
        """why may instance `key`, owned by id i by the spec, be absent from the list of manager object m (id i).
        A trailing '!' = not explainable by a disturbance through another manager either (see explain())."""
        if cls == 's':
            a, b = marker('f', key[0][0]), marker('d', key[1][0])
            p = self.prov[k].get(('s',) + key)
            if p is not None and p[0] == 'owned' and p[2] == m:
                return 'unexplained!'          # the object that created it must know it
            if a != i and b != i:
                if a is None and b is None:
                    return 'owned_sub_both_ends_unowned'      # ... and a later manager object cannot find it
                return 'sub_end_owned_by_other_manager'
            return 'unexplained'
        p = self.prov[k].get((cls,) + key)
        if p is not None and p[0] == 'permanent':
            return 'permanent_name_carries_marker'
        if p is not None and p[0] == 'leaked':
            # created by a call that then raised (KeyError on a deleted dict entry after a half-way remove_server)
            return 'unexplained'
        # a filter / destination carrying the manager's marker whose list entry exists: created as owned through
        # this id or found by add_server — nothing another manager does takes it out of the list
        return 'unexplained!'

    def foreign_sub_cause(self, k, key, i):
        """a subscription that references an instance marked for id i although the spec does not count it as
        owned by i: who made it?"""
        a, b = marker('f', key[0][0]), marker('d', key[1][0])
        if a != i and b != i:
            return 'unexplained'
        p = self.prov[k].get(('s',) + key)
        if p is not None and p[1] is not None and p[1] != i:
            return 'sub_end_owned_by_other_manager'          # created through a manager with another id
        pf = self.prov[k].get(('f',) + key[0])
        pd = self.prov[k].get(('d',) + key[1])
        if p is not None and p[0] == 'permanent' and \
                ((a == i and pf and pf[0] == 'permanent') or (b == i and pd and pd[0] == 'permanent')):
            return 'permanent_name_carries_marker'           # permanent subscription on a marker-named permanent
        return 'unexplained'

    def cause_extra(self, k, cls, key, i, st):
        """why may i's list hold `key` which the spec does not count as owned by i"""
        if cls == 's':
            present = any((tuple(s[0:2]), tuple(s[2:4])) == key for s in st['s'])
            if not present:
                return 'unexplained_not_in_server'
            return self.foreign_sub_cause(k, key, i)
        if key not in {tup(x) for x in st[cls]}:
            return 'unexplained_not_in_server'        # may have been deleted through another manager's claim
        return 'unexplained!'                         # present, without this id's marker, yet listed

    def check_lists(self, snap, after):
        for mg in snap['mgrs']:
            i = self.ids[mg['m']]
            for reg in mg['regs']:
                k = reg['s']
                st = snap['stores'][k]
                spec = dict(zip('fds', self.owned_sets(k, st, i)))
                for cls, key in (('f', 'of'), ('d', 'od'), ('s', 'os')):
                    lst = reg[key]
                    if lst == 'KeyError':
                        self.violate({'kind': 'owned_list_lost', 'cls': cls, 'after': after,
                                      'cause': self.degraded_cause(mg['m'], k)}, {'mgr': mg['m'], 'server': k})
                        continue
                    if cls == 's':
                        have = [(tuple(x[0:2]), tuple(x[2:4])) for x in lst]
                    else:
                        have = [tup(x) for x in lst]
                    if len(set(have)) != len(have):
                        self.violate({'kind': 'duplicate_in_owned_list', 'cls': cls, 'after': after},
                                     {'mgr': mg['m'], 'server': k, 'list': lst})
                    for x in sorted(spec[cls] - set(have)):
                        self.violate({'kind': 'owned_list_mismatch', 'cls': cls, 'dir': 'missing',
                                      'cause': self.explain(mg['m'], k, self.cause_missing(k, cls, x, i, mg['m']))},
                                     {'mgr': mg['m'], 'id': i, 'server': k, 'instance': x, 'after': after})
                    for x in sorted(set(have) - spec[cls]):
                        self.violate({'kind': 'owned_list_mismatch', 'cls': cls, 'dir': 'extra',
                                      'cause': self.explain(mg['m'], k, self.cause_extra(k, cls, x, i, st))},
                                     {'mgr': mg['m'], 'id': i, 'server': k, 'instance': x, 'after': after})

    def degraded_cause(self, m, k):
        return self.taint.get((m, k), 'unexplained')

    def explain(self, m, k, cause):
        """a mismatch without a direct explanation on a pair known to be disturbed by another manager takes that
        disturbance as its cause — except causes marked final ('!')"""
        if cause.endswith('!'):
            return cause[:-1]
        if cause.startswith('unexplained') and (m, k) in self.taint:
            return self.taint[(m, k)]
        if cause == 'sub_end_owned_by_other_manager':
            self.taint[(m, k)] = cause
        return cause

    def remove_server_check(self, m, k, before, after, res):
        i = self.ids[m]
        stb, sta = before['stores'][k], after['stores'][k]
        fs, ds, ss = self.owned_sets(k, stb, i)
        gone_f = {tup(x) for x in stb['f']} - {tup(x) for x in sta['f']}
        gone_d = {tup(x) for x in stb['d']} - {tup(x) for x in sta['d']}
        gone_s = {(tuple(s[0:2]), tuple(s[2:4])) for s in stb['s']} - \
                 {(tuple(s[0:2]), tuple(s[2:4])) for s in sta['s']}
        # which spec-owned instances did the manager not know (causes found by the list check earlier)
        def why_left(cls, x):
            return self.explain(m, k, self.cause_missing(k, cls, x, i, m))

        def why_taken(cls, x):
            return self.explain(m, k, self.cause_extra(k, cls, x, i, stb))
        if 'ok' in res:
            for cls, owned, gone in (('f', fs, gone_f), ('d', ds, gone_d), ('s', ss, gone_s)):
                for x in sorted(owned - gone):
                    self.violate({'kind': 'remove_server_left_owned', 'cls': cls, 'cause': why_left(cls, x)},
                                 {'mgr': m, 'id': i, 'server': k, 'instance': x})
                for x in sorted(gone - owned):
                    self.violate({'kind': 'remove_server_deleted_not_owned', 'cls': cls, 'cause': why_taken(cls, x)},
                                 {'mgr': m, 'id': i, 'server': k, 'instance': x,
                                  'provenance': self.prov[k].get((cls,) + x)})
        else:
            # remove_server must succeed on a registered server; find out whether a foreign reference blocked it
            cause = 'unexplained'
            if res.get('exc') == 'ValueError' and not any(r['s'] == k for mg in before['mgrs'] if mg['m'] == m
                                                          for r in mg['regs']):
                return          # documented: server not registered
            for s in stb['s']:
                key = (tuple(s[0:2]), tuple(s[2:4]))
                if self.subowner[k].get(key) != i:
                    c = self.foreign_sub_cause(k, key, i)
                    if c != 'unexplained':
                        cause = c
            if cause == 'unexplained' and self.degraded_cause(m, k) != 'unexplained':
                cause = self.degraded_cause(m, k)
            self.violate({'kind': 'remove_server_failed', 'exc': res.get('exc'), 'cause': cause},
                         {'mgr': m, 'id': i, 'server': k, 'result': res})
            if cause != 'unexplained':
                self.taint[(m, k)] = cause
            for cls, owned, gone in (('f', fs, gone_f), ('d', ds, gone_d), ('s', ss, gone_s)):
                for x in sorted(gone - owned):
                    self.violate({'kind': 'remove_server_deleted_not_owned', 'cls': cls, 'cause': why_taken(cls, x)},
                                 {'mgr': m, 'id': i, 'server': k, 'instance': x})

    def observe(self, op, res, before, after):
        """one executed step: update provenance from the real result, then check the property clauses"""
        o = op['op']
        if o == 'newMgr':
            if 'ok' in res:
                self.ids[res['ok']['mgr']] = common.from_cps(op['id'])
                self.alive[res['ok']['mgr']] = True
            elif ':' not in common.from_cps(op['id']):
                self.violate({'kind': 'manager_refused', 'exc': res.get('exc')}, {'id': common.from_cps(op['id'])})
            return
        m = op['m']
        i = self.ids.get(m)
        if o == 'dropMgr':
            self.alive[m] = False
            for key in [x for x in self.taint if x[0] == m]:
                del self.taint[key]
            return
        k = op.get('s')
        nsrv = self.case['nsrv']
        # ---- provenance of what this op created (from the store snapshots); deletions are forgotten at the end,
        #      after the clauses that look at the state before the op
        def subkeys(st):
            return {(tuple(x[0:2]), tuple(x[2:4])) for x in st['s']}
        for kk in range(nsrv):
            stb, sta = before['stores'][kk], after['stores'][kk]
            for cls in 'fd':
                for x in {tup(x) for x in sta[cls]} - {tup(x) for x in stb[cls]}:
                    self.prov[kk][(cls,) + x] = ('leaked' if 'ok' not in res else
                                                 'owned' if op.get('owned', True) else 'permanent', i, m)
            for x in subkeys(sta) - subkeys(stb):
                owned = bool(op.get('owned', True))
                self.prov[kk][('s',) + x] = ('owned' if owned else 'permanent', i, m)
                self.subowner[kk][x] = i if owned else None
        # ---- clause: what an add call hands back is what it says: an owned add returns an instance that carries the
        #      manager's own marker, exists in the server and is in the manager's list (never an instance of another
        #      manager, a permanent or a static one); a permanent add returns an existing, unlisted instance
        if o in ('addDest', 'addFilter', 'addSubs') and 'ok' in res and k is not None and k < nsrv:
            sta = after['stores'][k]
            reg = next((r for mg in after['mgrs'] if mg['m'] == m for r in mg['regs'] if r['s'] == k), None)
            cls = {'addDest': 'd', 'addFilter': 'f', 'addSubs': 's'}[o]
            owned = bool(op.get('owned', True)) if o != 'addFilter' else op.get('fid') is not None
            got = [res['ok'][cls]] if cls != 's' else res['ok']['S']
            for r_ in got:
                key = tup(r_) if cls != 's' else (tuple(r_[0:2]), tuple(r_[2:4]))
                inserver = key in ({tup(x) for x in sta[cls]} if cls != 's' else subkeys(sta))
                lst = reg[{'d': 'od', 'f': 'of', 's': 'os'}[cls]] if reg else None
                listed = None if lst in (None, 'KeyError') else \
                    key in ({tup(x) for x in lst} if cls != 's' else {(tuple(x[0:2]), tuple(x[2:4])) for x in lst})
                why = None
                if not inserver:
                    why = 'not_in_server'
                elif owned and cls != 's' and marker(cls, key[0]) != i:
                    why = 'marked_for_other_manager' if marker(cls, key[0]) is not None else 'not_marked'
                elif owned and listed is False:
                    why = 'not_in_owned_list'
                elif not owned and listed is True:
                    why = 'in_owned_list'
                if why:
                    self.violate({'kind': 'add_returned_wrong_instance', 'cls': cls, 'owned': owned, 'why': why},
                                 {'mgr': m, 'id': i, 'server': k, 'returned': r_})
        # ---- clause: add_server (re)discovers exactly the owned set — checked by check_lists below;
        #      an exception other than "already registered" means no discovery at all
        if o == 'addServer' and 'ok' not in res:
            already = any(r['s'] == k for mg in before['mgrs'] if mg['m'] == m for r in mg['regs'])
            if not (res.get('exc') == 'ValueError' and already):
                self.violate({'kind': 'add_server_failed', 'exc': res.get('exc')}, {'mgr': m, 'id': i, 'server': k})
        # ---- clause: remove_server / remove_all_servers / exit delete exactly the owned instances
        if o == 'removeServer' and k is not None and k < nsrv:
            self.remove_server_check(m, k, before, after, res)
        if o == 'removeAll':
            regs = [r['s'] for mg in before['mgrs'] if mg['m'] == m for r in mg['regs']]
            how = op.get('exit')
            form = 'remove_all_servers' if not how else ('exit_normal' if how in (True, 'normal') else 'exit_exception')
            if 'ok' in res:
                left = [r['s'] for mg in after['mgrs'] if mg['m'] == m for r in mg['regs']]
                if left:
                    # nothing was cleaned up for these servers: owned instances are still there
                    self.violate({'kind': 'remove_all_left_registered', 'form': form},
                                 {'mgr': m, 'servers': left, 'exit': how})
                for kk in regs:
                    if kk not in left:
                        self.remove_server_check(m, kk, before, after, res)
                    else:
                        i_ = self.ids[m]
                        fs_, ds_, ss_ = self.owned_sets(kk, after['stores'][kk], i_)
                        for cls, owned in (('f', fs_), ('d', ds_), ('s', ss_)):
                            for x in sorted(owned):
                                self.violate({'kind': 'remove_all_left_owned', 'form': form, 'cls': cls,
                                              'cause': 'not_cleaned_up'},
                                             {'mgr': m, 'id': i_, 'server': kk, 'instance': x, 'exit': how})
            else:
                # the failing server is the first one still registered
                left = [r['s'] for mg in after['mgrs'] if mg['m'] == m for r in mg['regs']]
                for kk in regs:
                    if kk not in left:
                        self.remove_server_check(m, kk, before, after, {'ok': None})
                if left:
                    self.remove_server_check(m, left[0], before, after, res)
            # servers the manager was not registered with must be untouched
            for kk in range(nsrv):
                if kk not in regs and before['stores'][kk] != after['stores'][kk]:
                    self.violate({'kind': 'unregistered_server_changed'}, {'mgr': m, 'server': kk})
        # ---- clause: referenced filters / destinations cannot be removed
        if o in ('removeFilter', 'removeDests') and k is not None and k < nsrv:
            cls = 'f' if o == 'removeFilter' else 'd'
            stb, sta = before['stores'][k], after['stores'][k]
            refd = {tuple(s[0:2]) for s in stb['s']} if cls == 'f' else {tuple(s[2:4]) for s in stb['s']}
            gone = {tup(x) for x in stb[cls]} - {tup(x) for x in sta[cls]}
            for x in sorted(gone & refd):
                self.violate({'kind': 'referenced_instance_removed', 'cls': cls, 'by': o, 'cause': 'unexplained'},
                             {'mgr': m, 'server': k, 'instance': x})
            if len(sta['s']) != len(stb['s']):
                self.violate({'kind': 'remove_changed_subscriptions', 'cls': cls}, {'mgr': m, 'server': k})
            targets = [op['p']] if o == 'removeFilter' else \
                ([op['sel']['one']] if 'one' in op['sel'] else op['sel']['many'])
            targets = [(common.from_cps(t[0]), t[1]) for t in targets]
            if 'ok' in res:
                for t in targets:
                    if t in {tup(x) for x in sta[cls]}:
                        self.violate({'kind': 'remove_reported_ok_but_present', 'cls': cls},
                                     {'mgr': m, 'server': k, 'instance': t})
            for x in sorted(gone - set(targets)):
                self.violate({'kind': 'remove_deleted_other_instance', 'cls': cls},
                             {'mgr': m, 'server': k, 'instance': x})
        # ---- clause: permanent subscriptions on owned filters / destinations are refused
        if o == 'addSubs' and not op['owned'] and k is not None and k < nsrv and i is not None:
            stb, sta = before['stores'][k], after['stores'][k]
            f = (common.from_cps(op['f'][0]), op['f'][1])
            newsub = {(tuple(s[0:2]), tuple(s[2:4])) for s in sta['s']} - \
                     {(tuple(s[0:2]), tuple(s[2:4])) for s in stb['s']}
            for (ff, hh) in sorted(newsub):
                for cls, end in (('f', ff), ('d', hh)):
                    if marker(cls, end[0]) == i and end in {tup(x) for x in stb[cls]}:
                        p = self.prov[k].get((cls,) + end)
                        cause = 'permanent_name_carries_marker' if p and p[0] == 'permanent' else 'unexplained'
                        # was it in the manager's list?  then the refusal itself is broken
                        self.violate({'kind': 'permanent_subscription_on_owned', 'end': cls, 'cause': cause},
                                     {'mgr': m, 'id': i, 'server': k, 'subscription': (ff, hh)})
        # ---- clause: referenced filters / destinations cannot be removed — by ANY operation (remove_server,
        #      remove_all_servers included): no subscription may be left pointing to a missing instance
        for kk in range(nsrv):
            stb, sta = before['stores'][kk], after['stores'][kk]
            fs, ds = {tup(x) for x in sta['f']}, {tup(x) for x in sta['d']}
            was = subkeys(stb)
            for (ff, hh) in sorted(subkeys(sta)):
                for cls, end, have in (('f', ff, fs), ('d', hh, ds)):
                    if end not in have and ((ff, hh) not in was or end in {tup(x) for x in stb[cls]}):
                        self.violate({'kind': 'referenced_instance_removed', 'cls': cls, 'by': o,
                                      'cause': self.explain(m, kk, 'unexplained')},
                                     {'mgr': m, 'server': kk, 'subscription': (ff, hh), 'missing': end})
        # ---- ops that must not change any server
        if o in ('getOwned', 'getAll') and before['stores'] != after['stores']:
            self.violate({'kind': 'query_changed_server'}, {'op': o})
        # ---- a failed single-instance operation leaves the server as it was (referenced / refused cases)
        if o in ('removeFilter',) and 'ok' not in res and before['stores'] != after['stores']:
            self.violate({'kind': 'failed_remove_changed_server', 'exc': res.get('exc'),
                          'cause': self.degraded_cause(m, k)}, {'op': op})
        # ---- an instance deleted by this manager that a DIFFERENT live manager object holds in its owned lists:
        #      that manager's view is disturbed from now on (cross-manager interference, see C18-KF2)
        for kk in range(nsrv):
            stb, sta = before['stores'][kk], after['stores'][kk]
            gone = {'f': {tup(x) for x in stb['f']} - {tup(x) for x in sta['f']},
                    'd': {tup(x) for x in stb['d']} - {tup(x) for x in sta['d']},
                    's': subkeys(stb) - subkeys(sta)}
            for mg in before['mgrs']:
                if mg['m'] == m:
                    continue
                for reg in mg['regs']:
                    if reg['s'] != kk:
                        continue
                    for cls, key in (('f', 'of'), ('d', 'od'), ('s', 'os')):
                        if reg[key] == 'KeyError':
                            continue
                        have = {(tuple(x[0:2]), tuple(x[2:4])) for x in reg[key]} if cls == 's' else \
                            {tup(x) for x in reg[key]}
                        if have & gone[cls]:
                            self.taint[(mg['m'], kk)] = 'sub_end_owned_by_other_manager'
        if o == 'removeServer' and 'ok' in res:
            self.taint.pop((m, k), None)
        # ---- forget what this op deleted
        for kk in range(nsrv):
            stb, sta = before['stores'][kk], after['stores'][kk]
            for cls in 'fd':
                for x in {tup(x) for x in stb[cls]} - {tup(x) for x in sta[cls]}:
                    self.prov[kk].pop((cls,) + x, None)
            for x in subkeys(stb) - subkeys(sta):
                self.prov[kk].pop(('s',) + x, None)
                self.subowner[kk].pop(x, None)
        # ---- clause: lists of owned instances equal the owned instances present in the server
        self.check_lists(after, o)


# --------------------------------------------------------------------------- generation

ID_POOL = ['abc', 'a.c', 'ab', 'abc.', 'a*', 'ab+', '.*', 'x|y', 'x', '(', ')', '[a]', 'a[', '\\', 'a\\', 'a$', '^a',
           'a?', 'a{2}', 'aa', '', ' ', 'a b', 'é', 'A', 'ABC', 'a-c', 'a&b', 'a~', '#', '\U0001F600', '{0}',
           '%s', 'a\tb', 'abc\n', '[^:]*', 'owned', 'a|', '|', '..', 'a+', '+', '\\d', '\\.', 'a\\.c', 'fred',
           'pywbemfilter', 'x]', '{', '}', '$', '^', '.', '*', '?', '-', 'a.', '.c', 'a..', 'abcd', 'ABc']
META = '.*+?()[]{}|^$\\-&~# '
SUB_ID_POOL = ['x', 'f1', 'd1', '', 'a.c', '.*', 'id 1', 'x:y', ':', 'a:', 'é', 'x\n', 'X', '[^:]*', 'f2', 'd2',
               'owned', '$', 'a|b']
PT_POOL = [None, None, None, 'permanent', 'transient', 'Permanent', 'TRANSIENT', 'bogus', '']
URL_POOL = ['http://h:1', 'HTTP://h:1', 'http://h:01', 'https://h:1', 'http://h:2', 'http://H:2', 'https://h2:5989',
            'http://[::1]:5000', 'http://[fe80::1%25eth0]:80', 'http://[fe80::1-eth0]:80', 'http://10.0.0.1:5000',
            'h:1', 'http://h', 'ftp://h:1', 'http://h:x', '', 'http://:5', 'https://my-host.example.com:65535']


def rand_id(rng):
    r = rng.random()
    if r < 0.6:
        return rng.choice(ID_POOL)
    if r < 0.9:
        n = rng.randint(0, 4)
        return ''.join(rng.choice('abcABx' + META) for _ in range(n))
    if r < 0.95:
        return rng.choice(['a:b', ':', 'abc:'])
    return ''.join(chr(rng.choice([rng.randint(33, 126), rng.randint(0xa1, 0x17f), rng.randint(0x4e00, 0x4e20)]))
                   for _ in range(rng.randint(1, 3)))


def id_family(rng, n):
    """n manager ids that are confusable: regex-metacharacter variants, prefixes, case variants of one base"""
    base = rand_id(rng)
    out = [base]
    while len(out) < n:
        r = rng.random()
        if r < 0.25 and base:
            j = rng.randrange(len(base))
            v = base[:j] + rng.choice('.*?+|\\') + base[j + 1:]
        elif r < 0.4 and base:
            v = base[:rng.randint(0, len(base))]
        elif r < 0.5:
            v = base + rng.choice(['', 'x', '.', ':x'.replace(':', ''), '*', '$'])
        elif r < 0.6:
            v = base.swapcase()
        elif r < 0.7:
            v = '.' * len(base)
        else:
            v = rand_id(rng)
        out.append(v)
    return out


def urltoken(urls, raw):
    from pywbem._cim_http import parse_url
    try:
        u = parse_url(raw, allow_defaults=False)[2]
    except ValueError:
        return None
    return urls.setdefault(u, len(urls))


def gen_static(rng, ids, urls, mode):
    """static content of one server: (filters, destinations, subscriptions) put into the repository directly"""
    fs, ds, ss = [], [], []
    names_f = ['STATIC:F1', 'DMTF:Indications:GlobalAlertIndicationFilter', 'pywbemfilter', 'pywbemfilter:',
               'pywbemfilter:owned:host:%s:x:y' % (ids[0].replace(':', '') if ids else 'a')]
    names_d = ['STATIC:D1', 'pywbemdestination:owned:host:%s:x' % (ids[0].replace(':', '') if ids else 'a')]
    for i in ids:
        if ':' in i:
            continue
        names_f += ['pywbemfilter:%s:st' % i, 'pywbemfilter:%s:a:b' % i, 'pywbemfilter:%s' % i,
                    'pywbemfilter:%sx:st' % i, 'Pywbemfilter:%s:st' % i, 'pywbemfilter:%s:' % i,
                    'xpywbemfilter:%s:st' % i]
        names_d += ['pywbemdestination:%s:st' % i, 'pywbemdestination:%s:a:b' % i, 'pywbemfilter:%s:st' % i]
    for _ in range(rng.choice([0, 0, 1, 2, 3])):
        n = rng.choice(names_f)
        sys = rng.choice([0, 0, 0, 1])
        if [n, sys] not in fs:
            fs.append([n, sys])
    for _ in range(rng.choice([0, 0, 1, 2])):
        n = rng.choice(names_d)
        sys = rng.choice([0, 0, 0, 1])
        if [n, sys] not in [d[:2] for d in ds]:
            tok = urltoken(urls, rng.choice(['http://static:1', 'http://h:1', 'https://h:1']))
            pt = rng.choice([2, 3, 2, None]) if mode == 'edge' else rng.choice([2, 3])
            ds.append([n, sys, tok, pt])
    if fs and ds and rng.random() < 0.5:
        f, d = rng.choice(fs), rng.choice(ds)
        a, b = marker('f', f[0]), marker('d', d[0])
        if a is None or b is None or a == b:       # ends marked for two different ids: only in the cross stream
            ss.append([f[0], f[1], d[0], d[1], None])
    return {'f': fs, 'd': ds, 's': ss}


class Gen:
    """draws the next op from the current REAL state (so that most ops address existing instances)"""

    def __init__(self, rng, mode, thorough):
        self.rng, self.mode = rng, mode
        self.nsrv = 2 if rng.random() < 0.25 else 1
        nm = rng.choice([1, 2, 2, 3])
        self.idfam = id_family(rng, nm)
        self.urls = {}
        self.static = [gen_static(rng, self.idfam, self.urls, mode) for _ in range(self.nsrv)]
        self.nops = rng.randint(8, 30 if thorough else 22)
        self.mgr_ids = []       # index -> id (successfully created)
        self.alive = []
        self.script = []
        self.defns = [rng.choice(['interop', 'interop', NS_WITH_CLASSES, NS_WITH_CLASSES, NS_NO_CLASSES])
                      for _ in range(2)]
        if mode == 'cross' and rng.random() < 0.6:
            self.directed_cross()

    def directed_cross(self):
        """scripted opening of a cross-manager history (the random generator continues afterwards): managers A and
        B on server 0; A owns 1-3 filters and 1-2 destinations (some subscribed); B puts a subscription of its own
        on one of A's filters or destinations; A's remove_server then fails half-way in the filter or in the
        destination loop, at the first or at a later element; B goes away; A retries."""
        rng, cps = self.rng, common.cps
        ids = []
        for x in self.idfam + ['m1', 'm2']:
            if ':' not in x and x not in ids:
                ids.append(x)
        a, b = ids[0], ids[1]
        self.idfam = [a, b] + [x for x in self.idfam if x not in (a, b)]
        self.nsrv = max(self.nsrv, 1)
        nf, nd = rng.choice([1, 2, 2, 3]), rng.choice([1, 1, 2])
        sc = [{'op': 'newMgr', 'id': cps(a)}, {'op': 'newMgr', 'id': cps(b)},
              {'op': 'addServer', 'm': 0, 's': 0}, {'op': 'addServer', 'm': 1, 's': 0}]
        urls = rng.sample(URL_POOL[:11], 4)

        def dest(m, did, raw):
            return {'op': 'addDest', 'm': m, 's': 0, 'rawurl': raw, 'url': urltoken(self.urls, raw), 'owned': True,
                    'destId': cps(did), 'name': None, 'pt': None}

        def filt(m, fid):
            return {'op': 'addFilter', 'm': m, 's': 0, 'owned': True, 'fid': cps(fid), 'name': None}
        fa = ['fa%d' % j for j in range(nf)]
        da = ['da%d' % j for j in range(nd)]
        sc += [filt(0, x) for x in fa] + [dest(0, x, urls[j]) for j, x in enumerate(da)]
        pf = lambda i, x: [cps(PREFIX['f'] + i + ':' + x), 0]     # noqa: E731
        pd = lambda i, x: [cps(PREFIX['d'] + i + ':' + x), 0]     # noqa: E731
        if rng.random() < 0.6:
            sc.append({'op': 'addSubs', 'm': 0, 's': 0, 'f': pf(a, rng.choice(fa)), 'sel': None, 'owned': True})
        sc += [filt(1, 'fb'), dest(1, 'db', urls[3])]
        owned = rng.random() < 0.7
        if rng.random() < 0.6:        # B's subscription on A's filter and B's destination
            sc.append({'op': 'addSubs', 'm': 1, 's': 0, 'f': pf(a, rng.choice(fa)),
                       'sel': {'one': pd(b, 'db')}, 'owned': owned})
        else:                          # B's filter, A's destination
            sc.append({'op': 'addSubs', 'm': 1, 's': 0, 'f': pf(b, 'fb'),
                       'sel': {'one': pd(a, rng.choice(da))}, 'owned': owned})
        sc.append({'op': 'removeServer', 'm': 0, 's': 0} if rng.random() < 0.7 else
                  {'op': 'removeAll', 'm': 0, 'exit': rng.choice([False, 'normal', 'ValueError'])})
        tail = rng.random()
        if tail < 0.6:
            sc += [{'op': 'removeServer', 'm': 1, 's': 0}, {'op': 'removeServer', 'm': 0, 's': 0}]
        elif tail < 0.8:
            sc += [{'op': 'getOwned', 'm': 0, 's': 0, 'which': rng.choice('dfs')},
                   {'op': 'removeServer', 'm': 0, 's': 0}]
        self.script = sc
        self.nops = max(self.nops, len(sc) + rng.randint(0, 6))

    def case(self, ops):
        return {'nsrv': self.nsrv, 'static': self.static, 'ops': ops, 'mode': self.mode,
                'urls': self.urls, 'defns': self.defns}

    def pick_path(self, snap, k, cls, i, own_bias=0.6):
        """a path of class cls in server k: preferably one this manager may touch in the current mode"""
        rng = self.rng
        allp = [tup(x) for x in snap['stores'][k][cls]]
        mine = [p for p in allp if marker(cls, p[0]) == i]
        free = [p for p in allp if marker(cls, p[0]) is None]
        foreign = [p for p in allp if marker(cls, p[0]) not in (None, i)]
        r = rng.random()
        if self.mode == 'cross' and foreign and r < 0.4:
            return rng.choice(foreign)
        if mine and r < own_bias:
            return rng.choice(mine)
        if free and r < 0.95:
            return rng.choice(free)
        if mine:
            return rng.choice(mine)
        if r > 0.97 or not allp:
            return (rng.choice(['nonexistent', PREFIX[cls] + i + ':ghost']), 0)
        cand = mine + free
        return rng.choice(cand) if cand else ('nonexistent', 0)

    def next_op(self, snap):
        rng = self.rng
        live = [m for m, a in enumerate(self.alive) if a]
        want_mgrs = 3 if self.mode == 'cross' else 1
        if not live or (len(self.mgr_ids) < 7 and rng.random() < (0.35 if len(live) < want_mgrs else 0.05)):
            # a new manager: an id of the family not in use by a live manager (restart = same id after drop)
            used = {self.mgr_ids[m] for m in live}
            cand = [i for i in self.idfam if i not in used] or [rand_id(rng)]
            i = rng.choice(cand)
            if i in used:
                i = i + 'z'
            return {'op': 'newMgr', 'id': common.cps(i)}
        m = rng.choice(live)
        i = self.mgr_ids[m]
        regs = [r['s'] for mg in snap['mgrs'] if mg['m'] == m for r in mg['regs']]
        if not regs or rng.random() < 0.05:
            s = 0 if (self.mode == 'cross' and rng.random() < 0.8) else rng.randrange(self.nsrv)
            return {'op': 'addServer', 'm': m, 's': s}
        s = rng.choice(regs)
        if rng.random() < 0.02:
            s = rng.choice([x for x in range(self.nsrv + 1) if x not in regs] or [s])
        st = snap['stores'][s] if s < self.nsrv else {'f': [], 'd': [], 's': []}
        # weights follow the state: create while there is little, subscribe when both kinds exist, remove what exists
        nf, nd, ns = len(st['f']), len(st['d']), len(st['s'])
        w = {
            'restart': 5 + (6 if self.mode in ('kf1', 'cross') and ns else 0),
            'removeServer': 4, 'removeAll': 5,
            'addDest': 16 if nd < 4 else 6,
            'addFilter': 16 if nf < 4 else 6,
            'addSubs': (26 if nf and nd else 2),
            'removeDests': 7 if nd else 1,
            'removeFilter': 7 if nf else 1,
            'removeSubs': 9 if ns else 1,
            'query': 5,
        }
        kinds = list(w)
        r = rng.choices(kinds, weights=[w[k] for k in kinds])[0]
        cps = common.cps
        if r == 'restart':
            # simulated client restart: the object is lost, a new manager with the same id registers again
            return {'op': 'dropMgr', 'm': m, 'restart': True}
        if r == 'removeServer':
            return {'op': 'removeServer', 'm': m, 's': s}
        if r == 'removeAll':
            # remove_all_servers(), or leaving the context manager: normally / through an exception of any type
            #  raised by application code inside the block (after whatever work has been done on 1-2 servers)
            how = rng.choice([False, 'normal', rng.choice(EXIT_EXCS), rng.choice(EXIT_EXCS)])
            return {'op': 'removeAll', 'm': m, 'exit': how}
        if r == 'addSubs':
            owned = rng.random() < 0.7
            if owned and self.mode not in ('kf1', 'cross') and s < self.nsrv and \
                    not any(marker(c, x[0]) == i for c in 'fd' for x in st[c]):
                r = rng.choice(['addFilter', 'addDest'])      # nothing of its own to subscribe with yet
        if r == 'addDest':
            return self.gen_add_dest(m, s, i)
        if r == 'addFilter':
            return self.gen_add_filter(m, s, i)
        if r == 'addSubs':
            f, ds = self.pick_sub_ends(snap, s, i, owned)
            rr = rng.random()
            if rr < 0.15 and owned:
                sel = None
            elif rr < 0.8 or len(ds) < 2:
                sel = {'one': self.enc(ds[0])}
            else:
                sel = {'many': [self.enc(d) for d in ds]}
            return {'op': 'addSubs', 'm': m, 's': s, 'f': self.enc(f), 'sel': sel, 'owned': owned}
        if r == 'removeDests':
            mine = self.owned_list(snap, m, s, 'od')
            if mine and rng.random() < 0.15:
                return {'op': 'removeDests', 'm': m, 's': s, 'each': True,
                        'sel': {'many': [self.enc(tup(x)) for x in mine]}}
            p = self.pick_removable(snap, s, 'd', i)
            if rng.random() < 0.75:
                sel = {'one': self.enc(p)}
            else:
                sel = {'many': [self.enc(self.pick_removable(snap, s, 'd', i)) for _ in range(rng.randint(0, 3))]}
            return {'op': 'removeDests', 'm': m, 's': s, 'sel': sel}
        if r == 'removeFilter':
            return {'op': 'removeFilter', 'm': m, 's': s, 'p': self.enc(self.pick_removable(snap, s, 'f', i))}
        if r == 'removeSubs':
            def one():
                x = self.pick_removable_sub(snap, s, i)
                return [self.enc(x[0]), self.enc(x[1])]
            mine = self.owned_list(snap, m, s, 'os')
            if mine and rng.random() < 0.15:
                return {'op': 'removeSubs', 'm': m, 's': s, 'each': True,
                        'sel': {'many': [[self.enc(tuple(x[0:2])), self.enc(tuple(x[2:4]))] for x in mine]}}
            if rng.random() < 0.75:
                sel = {'one': one()}
            else:
                sel = {'many': [one() for _ in range(rng.randint(0, 3))]}
            return {'op': 'removeSubs', 'm': m, 's': s, 'sel': sel}
        return {'op': rng.choice(['getOwned', 'getOwned', 'getAll']), 'm': m, 's': s, 'which': rng.choice('dfs'),
                'scribble': rng.choice([None, 'clear', 'pop', 'junk', 'reverse'])}

    @staticmethod
    def owned_list(snap, m, s, key):
        for mg in snap['mgrs']:
            if mg['m'] == m:
                for r in mg['regs']:
                    if r['s'] == s and r[key] != 'KeyError':
                        return r[key]
        return []

    def gen_add_dest(self, m, s, i):
        rng, cps = self.rng, common.cps
        owned = rng.random() < 0.7
        raw = rng.choice(URL_POOL[:11]) if rng.random() < 0.85 else rng.choice(URL_POOL)
        op = {'op': 'addDest', 'm': m, 's': s, 'rawurl': raw, 'url': urltoken(self.urls, raw), 'owned': owned,
              'destId': None, 'name': None, 'pt': None}
        pt = rng.choice(PT_POOL)
        op['pt'] = None if pt is None else cps(pt)
        if owned:
            op['destId'] = cps(rng.choice(SUB_ID_POOL))
        else:
            op['name'] = cps(self.perm_name('d', i))
        if rng.random() < 0.04:
            op[rng.choice(['destId', 'name'])] = rng.choice([None, cps('zz')])
        return op

    def gen_add_filter(self, m, s, i):
        rng, cps = self.rng, common.cps
        owned = rng.random() < 0.7
        op = {'op': 'addFilter', 'm': m, 's': s, 'owned': owned, 'fid': None, 'name': None}
        if owned:
            op['fid'] = cps(rng.choice(SUB_ID_POOL))
        else:
            op['name'] = cps(self.perm_name('f', i))
        if rng.random() < 0.04:
            op[rng.choice(['fid', 'name'])] = rng.choice([None, cps('zz')])
        return op

    def pick_sub_ends(self, snap, s, i, owned):
        """filter and 1..3 destinations for a new subscription.
        clean / edge streams: no end marked for another id; an owned subscription has at least one end marked for
        the manager itself.  kf1: owned subscriptions preferably between unmarked ends.  cross: ends marked for
        other ids preferred.  marker: like clean (the marker-named permanent instances count as 'mine').
        A few percent of the picks are nonexistent paths in every stream."""
        rng = self.rng
        if s >= self.nsrv:
            return ('nonexistent', 0), [('nonexistent', 0)]
        st = snap['stores'][s]
        part = {}
        for cls in 'fd':
            allp = [tup(x) for x in st[cls]]
            part[cls] = ([p for p in allp if marker(cls, p[0]) == i],
                         [p for p in allp if marker(cls, p[0]) is None],
                         [p for p in allp if marker(cls, p[0]) not in (None, i)])
        ghost = {cls: (rng.choice(['nonexistent', PREFIX[cls] + i + ':ghost']), 0) for cls in 'fd'}

        def pick(cls, pools):
            pool = [p for pl in pools for p in pl]
            return rng.choice(pool) if pool and rng.random() > 0.04 else ghost[cls]
        (mf, ff, xf), (md, fd, xd) = part['f'], part['d']
        n = rng.choice([1, 1, 1, 2, 3])
        if self.mode == 'cross' and (xf or xd) and rng.random() < 0.6:
            f = pick('f', [xf, xf, mf, ff]) if xf else pick('f', [mf, ff])
            ds = [pick('d', [xd, xd, md, fd]) if xd else pick('d', [md, fd]) for _ in range(n)]
            return f, ds
        if self.mode == 'kf1' and owned and ff and fd and rng.random() < 0.7:
            return pick('f', [ff]), [pick('d', [fd]) for _ in range(n)]
        if owned and self.mode not in ('kf1', 'cross'):
            # at least one own end per subscription
            if mf and (not md or rng.random() < 0.5):
                return pick('f', [mf]), [pick('d', [md, fd]) for _ in range(n)]
            if md:
                return pick('f', [mf, ff]), [pick('d', [md]) for _ in range(n)]
            return ghost['f'], [pick('d', [fd])]           # nothing of its own yet: will be refused (end missing)
        if not owned:
            # permanent: mostly unowned ends; sometimes an own end (must be refused)
            if rng.random() < 0.2:
                return pick('f', [mf, ff]), [pick('d', [md, fd]) for _ in range(n)]
            return pick('f', [ff]), [pick('d', [fd]) for _ in range(n)]
        return pick('f', [mf, ff]), [pick('d', [md, fd]) for _ in range(n)]

    @staticmethod
    def enc(p):
        return [common.cps(p[0]), p[1]]

    def perm_name(self, cls, i):
        """Name of a permanent instance.  Names that carry an ownership marker only in the 'marker' stream."""
        rng = self.rng
        plain = ['PERM:%s%d' % (cls, rng.randint(1, 3)), 'perm %s' % i, PREFIX[cls][:-1], PREFIX[cls] + i,
                 PREFIX[cls] + i + ':a:b', PREFIX[cls] + 'owned:host:' + i + ':x:y', 'x' + PREFIX[cls] + i + ':p',
                 PREFIX[cls].upper() + i + ':p', '']
        if self.mode == 'marker' and rng.random() < 0.5:
            other = rng.choice(self.idfam).replace(':', '')
            return PREFIX[cls] + rng.choice([i, i, other]) + ':' + rng.choice(['p', 'x', ''])
        n = rng.choice(plain)
        return n if marker(cls, n) is None else 'PERM:%s' % cls

    def pick_removable(self, snap, s, cls, i):
        rng = self.rng
        if s >= self.nsrv:
            return ('nonexistent', 0)
        allp = [tup(x) for x in snap['stores'][s][cls]]
        ok = [p for p in allp if marker(cls, p[0]) in (None, i)]     # never another manager's instance
        if ok and rng.random() < 0.93:
            return rng.choice(ok)
        return (rng.choice(['nonexistent', PREFIX[cls] + i + ':ghost']), 0)

    def pick_removable_sub(self, snap, s, i):
        rng = self.rng
        if s >= self.nsrv:
            return (('nonexistent', 0), ('nonexistent', 0))
        subs = [(tuple(x[0:2]), tuple(x[2:4])) for x in snap['stores'][s]['s']]
        # never another manager's subscription (assumption: no explicit removal of foreign instances); who owns a
        # subscription with unmarked ends is known from the history only (the oracle's record of real results)
        ok = [x for x in subs if marker('f', x[0][0]) in (None, i) and marker('d', x[1][0]) in (None, i)
              and self.orc.subowner[s].get(x) in (None, i)]
        if ok and rng.random() < 0.9:
            return rng.choice(ok)
        fs = [tup(x) for x in snap['stores'][s]['f']] or [('nonexistent', 0)]
        ds = [tup(x) for x in snap['stores'][s]['d']] or [('nonexistent', 0)]
        pair = (rng.choice(fs), rng.choice(ds))
        return pair if (pair not in subs or pair in ok) else (('nonexistent', 0), pair[1])


def model_op(op):
    """the part of a concrete op the model receives"""
    if op['op'] == 'removeAll' and op.get('exit'):
        how = op['exit']
        return {'op': 'exitCtx', 'm': op['m'], 'exc': None if how in (True, 'normal') else EXIT_EXCS.index(how)}
    return {k: v for k, v in op.items() if k not in ('rawurl', 'restart', 'exit', 'srcns', 'ql', 'each', 'scribble')}


def generate_and_run(seed_mode):
    """one case: generate ops against the live real state, execute, observe with the oracle"""
    seed, mode, thorough = seed_mode
    rng = random.Random(seed)
    g = Gen(rng, mode, thorough)
    real = Real(g.nsrv, g.static, g.urls, g.defns)
    snap = real.snapshot()
    ops, steps = [], []
    case = g.case(ops)
    orc = Oracle(case, snap)
    g.orc = orc
    pending_restart = None
    n = 0
    while n < g.nops:
        if pending_restart is not None:
            kind, i, servers = pending_restart
            if kind == 'new':
                op = {'op': 'newMgr', 'id': common.cps(i)}
                pending_restart = ('reg', len(real.mgrs), servers)
            else:
                if not servers:
                    pending_restart = None
                    continue
                op = {'op': 'addServer', 'm': i, 's': servers[0]}
                pending_restart = ('reg', i, servers[1:]) if servers[1:] else None
        elif g.script:
            op = g.script.pop(0)
        else:
            op = g.next_op(snap)
        if op['op'] == 'dropMgr' and op.get('restart'):
            m = op['m']
            servers = [r['s'] for mg in snap['mgrs'] if mg['m'] == m for r in mg['regs']]
            pending_restart = ('new', g.mgr_ids[m], servers)
        res = real.step(op)
        if op['op'] == 'newMgr' and 'ok' in res:
            g.mgr_ids.append(common.from_cps(op['id']))
            g.alive.append(True)
        if op['op'] == 'dropMgr':
            g.alive[op['m']] = False
        after = real.snapshot()
        orc.observe(op, res, snap, after)
        ops.append(op)
        steps.append({'res': res, 'snap': after})
        snap = after
        n += 1
    return case, steps, orc.violations, snap


def execute(case):
    """re-run a concrete case (replay)"""
    urls = dict(case.get('urls', {}))
    real = Real(case['nsrv'], case['static'], urls, case.get('defns'))
    snap = real.snapshot()
    orc = Oracle(case, snap)
    steps = []
    for op in case['ops']:
        if op['op'] == 'addDest':
            op = dict(op)
            op['url'] = urltoken(urls, op['rawurl'])
        res = real.step(op)
        after = real.snapshot()
        orc.observe(op, res, snap, after)
        steps.append({'res': res, 'snap': after})
        snap = after
    return steps, orc.violations


# --------------------------------------------------------------------------- regex stream

def re_cases(rng, n):
    out = []
    for _ in range(n):
        kind = rng.choice(['filt', 'dest'])
        fam = id_family(rng, 3)
        i = fam[0]
        pre = PREFIX['f' if kind == 'filt' else 'd']
        names = []
        for j in fam:
            for rest in ('x', '', 'a:b', 'x\n', '\n', 'x\ny', ':'):
                names.append(pre + j + ':' + rest)
            names.append(pre + j)
            names.append(pre + j + '\n')
        names += [pre, '', pre + ':', pre + i + 'x:y', 'x' + pre + i + ':y', pre.upper() + i + ':y',
                  PREFIX['d' if kind == 'filt' else 'f'] + i + ':y', pre + i + ':y\n\n']
        # strings the RAW pattern would accept: id with each metacharacter position replaced by a letter / removed
        for j in range(len(i)):
            names.append(pre + i[:j] + 'q' + i[j + 1:] + ':x')
            names.append(pre + i[:j] + i[j + 1:] + ':x')
            names.append(pre + i[:j] + i[j] * 2 + i[j + 1:] + ':x')
        out.append({'t': 're', 'kind': kind, 'id': common.cps(i), 'names': [common.cps(x) for x in names],
                    '_id': i, '_names': names, '_pre': pre})
    return out


def py_match(pattern, name):
    try:
        return pyre.match(pattern, name) is not None
    except pyre.error:
        return 'error'


# --------------------------------------------------------------------------- run

MODES = ['clean'] * 6 + ['edge', 'kf1', 'marker', 'cross']


def compare(run, case, steps, ans):
    msteps = ans.get('steps')
    if msteps is None or len(msteps) != len(steps):
        run.disagree(case, ans if msteps is None else len(msteps), len(steps), 'history length / driver rejected the case')
        return
    for n, (a, b) in enumerate(zip(msteps, steps)):
        if a.get('ghost') is False:
            run.disagree({'case': case, 'step': n}, 'shadow run with erased ghost owners prints something else', None,
                         'model: a step function reads the ghost owner field')
            return
        if a['res'] != b['res']:
            run.disagree({'case': case, 'step': n}, a['res'], b['res'], 'result of op %s' % case['ops'][n]['op'])
            return
        if a['snap'] != b['snap']:
            run.disagree({'case': case, 'step': n}, a['snap'], b['snap'],
                         'state after op %s' % case['ops'][n]['op'])
            return


def _register_module():
    """./check loads this file under a name that is not in sys.modules; the fork pool pickles workers by name"""
    import sys
    import types
    if __name__ not in sys.modules:
        m = types.ModuleType(__name__)
        m.__dict__.update(globals())
        sys.modules[__name__] = m


def do_cases(run, seeds):
    _register_module()
    server(0)          # built once in the parent: the fork pool inherits them (building concurrently in one
    server(1)          # tree races on the extracted schema files)
    results = common.pmap(generate_and_run, seeds, chunksize=4)
    reqs = []
    for case, steps, viols, _ in results:
        reqs.append({'t': 'hist', 'nsrv': case['nsrv'], 'static': case['static'],
                     'ops': [model_op(o) for o in case['ops']]})
    answers = common.run_driver(PROP, reqs) if reqs else []
    for (case, steps, viols, final), ans in zip(results, answers):
        created = any(st['snap']['stores'][k]['s'] for st in steps for k in range(case['nsrv']))
        run.case({'nsrv': case['nsrv'], 'static': case['static'], 'ops': case['ops']}, nontrivial=created)
        run.count('mode:' + case['mode'])
        run.count('servers:%d' % case['nsrv'])
        for dn in case.get('defns', [])[:case['nsrv']]:
            run.count('default_namespace:' + dn)
        for op, st in zip(case['ops'], steps):
            r = st['res']
            run.count('op:%s:%s' % (op['op'], 'ok' if 'ok' in r else r.get('exc', '?') + str(r.get('code', ''))))
            if op['op'] == 'removeAll':
                how = op.get('exit')
                run.count('cleanup:' + ('remove_all_servers' if not how else
                                        'with_block_normal_end' if how in (True, 'normal') else 'with_block_raises_' + how))
        ids = [common.from_cps(o['id']) for o in case['ops'] if o['op'] == 'newMgr']
        if any(c in i for i in ids for c in META.strip()):
            run.count('case:manager_id_with_regex_metachar')
        if len(set(ids)) < len(ids):
            run.count('case:restart_same_id')
        compare(run, case, steps, ans)
        for sig, obs in viols:
            run.violate(sig, case, obs)
            run.count('oracle:%s:%s' % (sig.get('kind'), sig.get('cause', '-')))


def _generated_current():
    """is lean/Pywbem/Generated/SubMgr.lean what the extractor reads from THIS repo?  (Every check run of any
    property rewrites all generated tables from its own repo; while builders work on private worktrees that do
    not carry each other's fixes, a concurrent run can rewrite the file between this check's extraction and its
    lake build.)"""
    import importlib.util
    path = os.path.join(common.VERIF, 'tools', 'extractors', 'submgr.py')
    spec = importlib.util.spec_from_file_location('ex_submgr_c18', path)
    mod = importlib.util.module_from_spec(spec)
    spec.loader.exec_module(mod)
    try:
        want = mod.emit(common.REPO).get('SubMgr.lean')
    except Exception:
        return True         # the extractor itself fails on this repo: nothing to retry, the verdict logic reports it
    try:
        with open(os.path.join(common.LEAN, 'Pywbem', 'Generated', 'SubMgr.lean')) as f:
            return f.read() == want
    except OSError:
        return False


def _stable_lean(run):
    """repeat extraction + build while another check run interfered with the generated table"""
    for _ in range(4):
        if _generated_current() and run.lean is not None and run.lean.build_ok:
            return
        if _generated_current() and run.lean is not None and not run.lean.build_ok and \
                'idEscaped' not in run.lean.build_log and 'Rejected' not in run.lean.build_log:
            return          # a genuine build failure
        run.notes.append('generated table was rewritten by a concurrent run; extraction + build repeated')
        run.lean = common.lean_check(PROP, thorough=run.thorough)


def oracle_only(run):
    """called when the Lean build failed: first rule out interference on the generated table"""
    _stable_lean(run)
    if run.lean.build_ok:
        globals()['run'](run)
        return
    _register_module()
    server(0)
    server(1)
    rng = run.rng
    seeds = [(rng.getrandbits(48), MODES[i % len(MODES)], run.thorough) for i in range(600)]
    for case, steps, viols, _ in common.pmap(generate_and_run, seeds, chunksize=4):
        run.case({'nsrv': case['nsrv'], 'static': case['static'], 'ops': case['ops']})
        for sig, obs in viols:
            run.violate(sig, case, obs)


def run(run):
    _stable_lean(run)
    if not run.lean.build_ok:
        return oracle_only(run)
    rng = run.rng
    n = 16000 if run.thorough else 1600
    run.rule = ('seeded random histories of 8..22 (thorough 30) manager calls on 1-2 mock WBEM servers (Interop namespace, '
                'the three subscription providers, the connection default namespace = Interop / another namespace with the subscription classes / one without any class, random static filters/destinations/subscriptions incl. names that look '
                'like markers) with 1-3 live manager objects whose ids come from one confusable family (regex '
                'metacharacters, prefixes, case variants, empty, non-ASCII), owned/permanent add_destination/add_filter/'
                'add_subscriptions (None / one / list of destinations), removals in any order, remove_server, '
                'remove_all_servers / leaving the context manager through the real `with` statement (normal end of the block, or an '
                'application exception of one of 10 classes incl. KeyboardInterrupt/SystemExit raised inside it), client restarts (object dropped, new manager with the same id '
                're-registers); op arguments are drawn from the live real state. Streams: clean (60%), edge, kf1, marker, '
                'cross (10% each). A case is non-trivial when a subscription existed at some point; distinct = distinct '
                '(static content, op list). Second stream: (id, Name) pairs against CPython re.')
    run.assumptions += [
        'listener URL normalisation (pywbem._cim_http.parse_url) is a parameter: the model receives the identity of the '
        'normalised URL computed by the real function',
        'the mock WBEM server (pywbem_mock providers + repository) stands for the WBEM server',
        'no manager is asked to remove explicitly an instance carrying the marker of ANOTHER manager id (that is an '
        'external modification of the server, not an action of the manager whose lists are checked)',
        'at most one live manager object per id at any time (a restart discards the old object first)',
        'CPython re / re.escape behave as modelled on the fragment (checked by the second K stream on every run)',
        'the ghost owner field of model subscriptions is never read by a step function: every history is also run '
        'from states with all ghost fields erased and must print the same (bounded evidence, no theorem)',
    ]
    seeds = [(rng.getrandbits(48), MODES[i % len(MODES)], run.thorough) for i in range(n)]
    do_cases(run, seeds)
    # ---- regex stream
    rc = re_cases(rng, 6000 if run.thorough else 600)
    answers = common.run_driver(PROP, [{k: v for k, v in c.items() if not k.startswith('_')} for c in rc])
    for c, a in zip(rc, answers):
        i, names, pre = c['_id'], c['_names'], c['_pre']
        run.case({'re': i, 'kind': c['kind']}, nontrivial=any(ch in META for ch in i))
        if common.from_cps(a['escape']) != pyre.escape(i):
            run.disagree({'id': i}, common.from_cps(a['escape']), pyre.escape(i), 're.escape')
        raw_pat = '^' + pre + i + ':[^:]*$'
        esc_pat = '^' + pre + pyre.escape(i) + ':[^:]*$'
        for nm, mraw, mesc, mspec in zip(names, a['raw'], a['esc'], a['spec']):
            pr, pe = py_match(raw_pat, nm), py_match(esc_pat, nm)
            if mesc is None or mesc != pe:
                run.disagree({'id': i, 'name': nm, 'pattern': esc_pat}, mesc, pe, 'escaped pattern match')
            if mraw is not None and mraw != pr:
                run.disagree({'id': i, 'name': nm, 'pattern': raw_pat}, mraw, pr, 'raw pattern match')
            if mraw is None:
                run.count('re:raw_outside_fragment')
            else:
                run.count('re:raw_in_fragment')
            # the spec (string split) and python's escaped pattern must agree: this is what the code relies on
            head = pre + i + ':'
            sp = nm.startswith(head) and ':' not in nm[len(head):]
            if mspec != sp:
                run.disagree({'id': i, 'name': nm}, mspec, sp, 'ownsSpecB vs the string split computed in Python')


def search(run):
    """proof or K broke and the oracle saw nothing: widen the oracle-only search on the real code"""
    _register_module()
    server(0)
    server(1)
    before = len(run.violations)
    rng = run.rng
    for rnd in range(6):
        seeds = [(rng.getrandbits(48), MODES[i % len(MODES)], True) for i in range(600)]
        results = common.pmap(generate_and_run, seeds, chunksize=4)
        for case, steps, viols, _ in results:
            for sig, obs in viols:
                run.violate(sig, case, obs)
        known = common.load_known_all()
        new = [v for v in run.violations[before:] if not any(common.matches(f, PROP, v['sig']) for f in known)]
        if new:
            return new
    return run.violations[before:]


def replay(payload):
    case = payload['case']
    if 'case' in case and 'ops' not in case:
        case = case['case']
    steps, viols = execute(case)
    known = common.load_known_all()
    unknown = [v for v in viols if not any(common.matches(f, PROP, v[0]) for f in known)]
    if unknown:
        want = payload.get('sig')
        hit = [v for v in unknown if v[0] == want] or unknown
        return False, 'property C18 FAILS on this history: %s\nobserved: %s' % (
            json.dumps(hit[0][0]), json.dumps(hit[0][1], default=str))
    if viols:
        ids = sorted({f['id'] for v in viols for f in known if common.matches(f, PROP, v[0])})
        return True, ('property C18 holds on this history except for the recorded known findings %s '
                      '(%d steps re-executed on the real code)' % (', '.join(ids), len(steps)))
    return True, 'property C18 holds on this history (%d steps re-executed on the real code)' % len(steps)
