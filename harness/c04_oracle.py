"""C04 on the real code: the same operation sequence through WBEMConnection + CIM-XML facade (harness/facade.py) and
directly on an identically built twin (FakedWBEMConnection or a scripted server).  Used by harness/c04.py.

An operation is a JSON-able dict {'op': <method name>, 'args': {keyword: spec}}; `spec` describes a Python value
(build_arg).  Everything random is drawn while *generating* specs, so a history can be replayed from its JSON."""
import copy
import json
import os
import random

import cimgen
import cimproto
import c01
import facade

MOF = '''
Qualifier Key : boolean = false, Scope(property, reference), Flavor(DisableOverride, ToSubclass);
Qualifier Association : boolean = false, Scope(association), Flavor(DisableOverride, ToSubclass);
Qualifier Description : string = null, Scope(any), Flavor(EnableOverride, ToSubclass, Translatable);
Qualifier EmbeddedInstance : string = null, Scope(property, method, parameter);
Qualifier In : boolean = true, Scope(parameter), Flavor(DisableOverride, ToSubclass);
Qualifier Out : boolean = false, Scope(parameter), Flavor(DisableOverride, ToSubclass);
Qualifier Static : boolean = false, Scope(property, method), Flavor(DisableOverride, ToSubclass);
class TST_E { string a; uint16 n; };
class TST_P {
    [Key, Description("the name")] string name;
    uint32 v; sint64 s64; real64 r; boolean b; datetime dt; char16 c;
    string sa[]; uint8 u8a[];
    [EmbeddedInstance("TST_E")] string emb;
    [Static] uint32 SEcho(
        [In] string s, [In] uint8 a[], [In] TST_P REF r, [In, EmbeddedInstance("TST_E")] string e, [In] boolean b,
        [In] datetime d, [In] real64 x, [In] sint64 i, [In] char16 c, [In] string sa[], [In] TST_P REF ra[],
        [In, EmbeddedInstance("TST_E")] string ea[],
        [In(false), Out] string os, [In(false), Out] uint8 oa[], [In(false), Out] TST_P REF orf,
        [In(false), Out, EmbeddedInstance("TST_E")] string oe, [In(false), Out] boolean ob,
        [In(false), Out] datetime od, [In(false), Out] real64 ox, [In(false), Out] sint64 oi,
        [In(false), Out] char16 oc, [In(false), Out] string osa[], [In(false), Out] TST_P REF ora[],
        [In(false), Out, EmbeddedInstance("TST_E")] string oea[]);
    uint32 IEcho(
        [In] string s, [In] uint8 a[], [In] TST_P REF r, [In, EmbeddedInstance("TST_E")] string e, [In] boolean b,
        [In] datetime d, [In] real64 x, [In] sint64 i, [In] char16 c, [In] string sa[], [In] TST_P REF ra[],
        [In, EmbeddedInstance("TST_E")] string ea[],
        [In(false), Out] string os, [In(false), Out] uint8 oa[], [In(false), Out] TST_P REF orf,
        [In(false), Out, EmbeddedInstance("TST_E")] string oe, [In(false), Out] boolean ob,
        [In(false), Out] datetime od, [In(false), Out] real64 ox, [In(false), Out] sint64 oi,
        [In(false), Out] char16 oc, [In(false), Out] string osa[], [In(false), Out] TST_P REF ora[],
        [In(false), Out, EmbeddedInstance("TST_E")] string oea[]);
    [Static] uint32 SOut([In] uint32 seed,
        [In(false), Out] boolean ob, [In(false), Out] boolean oba[], [In(false), Out] string os,
        [In(false), Out] string osa[], [In(false), Out] uint8 oa[], [In(false), Out] sint64 oi,
        [In(false), Out] sint64 oia[], [In(false), Out] real64 ox, [In(false), Out] real64 oxa[],
        [In(false), Out] real32 of32, [In(false), Out] real32 ofa[], [In(false), Out] datetime od,
        [In(false), Out] datetime oda[], [In(false), Out] char16 oc, [In(false), Out] char16 oca[],
        [In(false), Out] TST_P REF orf, [In(false), Out] TST_P REF ora[],
        [In(false), Out, EmbeddedInstance("TST_E")] string oe,
        [In(false), Out, EmbeddedInstance("TST_E")] string oea[], [In(false), Out] uint64 ou64a[]);
    [Static] boolean RBool([In] uint32 seed);
    [Static] string RStr([In] uint32 seed);
    [Static] datetime RDt([In] uint32 seed);
    [Static] real64 RReal([In] uint32 seed);
    [Static] real32 RReal32([In] uint32 seed);
    [Static] sint64 RInt([In] uint32 seed);
    [Static] uint8 RU8([In] uint32 seed);
    [Static] char16 RChar([In] uint32 seed);
    [Static, EmbeddedInstance("TST_E")] string REmb([In] uint32 seed);
};
class TST_Q : TST_P { [Description("extra \\"q\\" & <x>")] string extra; };
[Association] class TST_L { [Key] TST_P REF parent; [Key] TST_P REF child; string note; };
'''
NSS = ['root/a', 'root/b']
ECHO = {'s': 'os', 'a': 'oa', 'r': 'orf', 'e': 'oe', 'b': 'ob', 'd': 'od', 'x': 'ox', 'i': 'oi', 'c': 'oc', 'sa': 'osa',
        'ra': 'ora', 'ea': 'oea'}
OUT_TYPES = {'os': ('string', False, None), 'oa': ('uint8', True, None), 'orf': ('reference', False, None),
             'oe': ('string', False, 'instance'), 'ob': ('boolean', False, None), 'od': ('datetime', False, None),
             'ox': ('real64', False, None), 'oi': ('sint64', False, None), 'oc': ('char16', False, None),
             'osa': ('string', True, None), 'ora': ('reference', True, None),
             'oba': ('boolean', True, None), 'oia': ('sint64', True, None), 'oxa': ('real64', True, None),
             'of32': ('real32', False, None), 'ofa': ('real32', True, None), 'oda': ('datetime', True, None),
             'oca': ('char16', True, None), 'oea': ('string', True, 'instance'), 'ou64a': ('uint64', True, None)}
RET_TYPES = {'rbool': 'boolean', 'rstr': 'string', 'rdt': 'datetime', 'rreal': 'real64', 'rreal32': 'real32',
             'rint': 'sint64', 'ru8': 'uint8', 'rchar': 'char16', 'remb': 'einst'}


def gen_value(r, ty, eo=None):
    """one non-NULL value of a CIM type for method results, drawn from the seeded generator `r`"""
    import pywbem
    if eo == 'instance' or ty == 'einst':
        return pywbem.CIMInstance('TST_E', properties={'a': r.choice(['x', 'in & <out>', '']),
                                                       'n': pywbem.Uint16(r.choice([0, 7, 65535]))})
    if ty == 'boolean':
        return r.random() < 0.5
    if ty == 'string':
        return r.choice(['', 'a', ' b&<>"\' ', 'TRUE', 'false', 'é😀', 'tab\tnl\n'])
    if ty == 'char16':
        return pywbem.Char16(r.choice(['a', '<', 'é', ' ']))
    if ty == 'datetime':
        return pywbem.CIMDateTime(r.choice(['20140924193040.654321+120', '00000010010203.000004:000',
                                            '20000229000000.000***-300']))
    if ty == 'real64':
        return pywbem.Real64(r.choice([0.0, 0.1, 1e16, -2.5e-300, float('inf'), 3.0]))
    if ty == 'real32':
        return pywbem.Real32(r.choice([0.0, 0.5, -1.25, 3.0e10]))
    if ty == 'reference':
        return pywbem.CIMInstanceName('TST_P', keybindings={'name': r.choice(['p0', 'a&b', ''])},
                                      namespace=r.choice(['root/a', 'root/b']), host=r.choice([None, 'h.example']))
    lim = cimgen.INT_LIMITS[ty]
    return getattr(pywbem, ty.capitalize())(r.choice([lim[0], lim[1], 0, 1]))


def gen_outs(seed):
    """output parameters of SOut for a seed: every type as scalar and array, NULL scalars, NULL items, empty arrays,
    FALSE booleans"""
    import pywbem
    r = random.Random(seed)
    outs = []
    for name in ('ob', 'oba', 'os', 'osa', 'oa', 'oi', 'oia', 'ox', 'oxa', 'of32', 'ofa', 'od', 'oda', 'oc', 'oca',
                 'orf', 'ora', 'oe', 'oea', 'ou64a'):
        if r.random() < 0.45:
            continue
        t, arr, eo = OUT_TYPES[name]
        if arr:
            x = r.random()
            if x < 0.1:
                v = None
            elif x < 0.25:
                v = []
            else:
                v = [None if (r.random() < 0.2 and t != 'reference' and eo is None) else gen_value(r, t, eo)
                     for _ in range(r.choice([1, 2, 3]))]
        else:
            v = None if r.random() < 0.1 else gen_value(r, t, eo)
        outs.append(pywbem.CIMParameter(name, t, value=v, is_array=arr, embedded_object=eo))
    return outs


def _echo_provider_class():
    import pywbem
    import pywbem_mock

    class EchoProvider(pywbem_mock.MethodProvider):
        provider_classnames = 'TST_P'

        def InvokeMethod(self, methodname, localobject, params):
            mn = methodname.lower()
            seed = int(params['seed'].value) if 'seed' in params and params['seed'].value is not None else 0
            if mn == 'sout':
                return pywbem.Uint32(seed % 7), gen_outs(seed)
            if mn in RET_TYPES:
                r = random.Random(seed)
                if r.random() < 0.1:
                    return None, []
                return gen_value(r, RET_TYPES[mn]), []
            if mn not in ('secho', 'iecho'):
                raise pywbem.CIMError(pywbem.CIM_ERR_METHOD_NOT_AVAILABLE)
            outs = []
            for pn, p in params.items():
                on = ECHO.get(pn.lower())
                if on:
                    t, arr, eo = OUT_TYPES[on]
                    outs.append(pywbem.CIMParameter(on, t, value=p.value, is_array=arr, embedded_object=eo))
            if 's' in params and params['s'].value == 'fail':
                raise pywbem.CIMError(pywbem.CIM_ERR_FAILED, 'asked to fail & <so>')
            rv = pywbem.Uint32(len(params)) if methodname.lower() == 'secho' else None
            return rv, outs
    return EchoProvider


def build(sizes, rng_seed):
    """deterministic repository: two calls with the same arguments give equal repositories"""
    import pywbem
    import mockutil
    r = random.Random(rng_seed)
    conn = mockutil.new_conn(MOF, NSS)
    for ns in NSS:
        insts = []
        for i in range(sizes[ns]):
            cls = 'TST_Q' if i % 3 == 2 else 'TST_P'
            props = {'name': 'p%d' % i, 'v': pywbem.Uint32(r.choice([0, 1, 2**32 - 1, i])),
                     's64': pywbem.Sint64(r.choice([-2**63, 2**63 - 1, -i])),
                     'r': pywbem.Real64(r.choice([0.1, 1e16, -2.5e-300, float('inf'), i / 3.0])),
                     'b': r.random() < 0.5,
                     'dt': pywbem.CIMDateTime(r.choice(['20140924193040.654321+120', '00000010010203.000004:000',
                                                        '20000229000000.000***-300'])),
                     'c': pywbem.Char16(r.choice(['a', '<', '&', 'é'])),
                     'sa': r.choice([None, [], ['a', None, ' b&<>"\' \n'], ['x' * 3]]),
                     'u8a': r.choice([None, [pywbem.Uint8(0), pywbem.Uint8(255)], [None]]),
                     'emb': r.choice([None, pywbem.CIMInstance('TST_E', properties={'a': 'in & <out>', 'n': pywbem.Uint16(7)})])}
            if cls == 'TST_Q':
                props['extra'] = r.choice([None, '', ' lead', 'tab\tnl\n', ']]>'])
            typed = {'sa': ('string', True), 'u8a': ('uint8', True), 'emb': ('string', False), 'extra': ('string', False)}
            plist = []
            for pn, pv in props.items():
                if pn in typed:
                    if pv is None and rng_seed % 2 == 0:
                        continue           # leave the property out
                    t, arr = typed[pn]
                    eo = 'instance' if pn == 'emb' else None
                    plist.append(pywbem.CIMProperty(pn, pv, type=t, is_array=arr, embedded_object=eo))
                else:
                    plist.append(pywbem.CIMProperty(pn, pv))
            inst = pywbem.CIMInstance(cls, properties=plist)
            inst.path = pywbem.CIMInstanceName(cls, keybindings={'name': 'p%d' % i}, namespace=ns)
            insts.append(inst)
        conn.add_cimobjects(insts, namespace=ns)
        for i in range(1, sizes[ns]):
            a = pywbem.CIMInstance('TST_L', properties={'parent': insts[0].path, 'child': insts[i].path,
                                                        'note': 'n%d' % i})
            a.path = pywbem.CIMInstanceName('TST_L', keybindings={'parent': insts[0].path, 'child': insts[i].path},
                                            namespace=ns)
            conn.add_cimobjects([a], namespace=ns)
    conn.register_provider(_echo_provider_class()(conn.cimrepository), namespaces=NSS)
    conn.c04_outtypes = OUT_TYPES
    return conn


class Scripted:
    """a server whose operations answer with a prepared result whatever they are asked (C04 quantifies over ANY server
    behaviour); same seam as FakedWBEMConnection"""

    def __init__(self, script, host='scripted:5988'):
        self.host = host
        self.script = script          # callable(methodname) -> result list | None | CIMError instance
        self.calls = []

    def _imethodcall(self, methodname, namespace, **params):
        import pywbem
        self.calls.append((methodname, namespace, params))
        r = self.script(methodname)
        if isinstance(r, pywbem.CIMError):
            raise r
        return copy.deepcopy(r)


def scripted_direct(script, default_namespace):
    """the reference path for a scripted server: a FakedWBEMConnection (which inherits every operation method of
    WBEMConnection and replaces only the _imethodcall seam) whose seam is the script"""
    import pywbem_mock
    conn = pywbem_mock.FakedWBEMConnection(default_namespace='root/cimv2')
    conn.default_namespace = default_namespace
    s = Scripted(script, host=conn.host)
    conn._imethodcall = s._imethodcall
    return conn, s


# ----------------------------------------------------------------------------- argument specs

def build_arg(spec, env):
    import pywbem
    t = spec['t']
    if t == 'none':
        return None
    if t in ('bool', 'int', 'str'):
        return spec['v']
    if t == 'strs':
        return list(spec['v'])
    if t == 'tuple':
        return tuple(spec['v'])
    if t == 'other':
        return {'float': 2.5, 'dict': {}, 'bytes_like': object()}.get(spec['v'], 2.5)
    if t == 'iname':
        kb = {'name': spec['key']} if spec.get('key') is not None else {}
        return pywbem.CIMInstanceName(spec['cls'], keybindings=kb, namespace=spec.get('ns'), host=spec.get('host'))
    if t == 'lname':     # path of an association instance
        def end(k):
            return pywbem.CIMInstanceName('TST_Q' if k % 3 == 2 else 'TST_P', keybindings={'name': 'p%d' % k},
                                          namespace=spec['ens'])
        return pywbem.CIMInstanceName('TST_L', keybindings={'parent': end(0), 'child': end(spec['k'])},
                                      namespace=spec.get('ns'), host=spec.get('host'))
    if t == 'cname':
        return pywbem.CIMClassName(spec['cls'], namespace=spec.get('ns'), host=spec.get('host'))
    if t == 'gen':       # type-directed random object, reproducible from its seed
        g = cimgen.Gen(random.Random(spec['seed']), allow_cr=False)
        k = spec['k']
        if k == 'inst':
            return g.instance(with_path=spec.get('with_path'))
        if k == 'iname':
            return g.instancename(with_ns=spec.get('with_ns'))
        if k == 'cname':
            return g.classname()
        if k == 'cls':
            return g.klass()
        if k == 'qdecl':
            q = g.qualdecl()
            # 'any': False makes the server-side parser reject the request (known finding C04-KF2, kept as a dedicated
            # probe); in the main streams it would only make the twins diverge for the rest of the history
            for sk in [sk for sk in q.scopes if sk.lower() == 'any' and not q.scopes[sk]]:
                del q.scopes[sk]
            return q
        if k == 'str':
            return g.string(20)
        if k == 'name':
            return g.name()
        if k == 'strs':
            return [g.name() if g.r.random() < 0.9 else None for _ in range(g.r.choice([0, 1, 2, 5]))]
        raise ValueError(k)
    if t == 'newinst':
        props = {'name': spec['name']}
        if spec.get('v') is not None:
            props['v'] = pywbem.Uint32(spec['v'])
        if spec.get('text') is not None:
            props['extra'] = spec['text']
        if spec.get('bad'):
            props['nosuchprop'] = 'x'
        i = pywbem.CIMInstance(spec['cls'], properties=props)
        if spec.get('pathns', 0) != 0:
            i.path = pywbem.CIMInstanceName(spec['cls'], keybindings={'name': spec['name']}, namespace=spec['pathns'])
        return i
    if t == 'modinst':
        p = None
        if spec.get('path', True):
            p = pywbem.CIMInstanceName(spec['cls'], keybindings={'name': spec['key']}, namespace=spec.get('ns'),
                                       host=spec.get('host'))
        return pywbem.CIMInstance(spec['cls'], properties={'name': spec['key'], 'v': pywbem.Uint32(spec['v'])}, path=p)
    if t == 'newcls':
        fl = spec.get('flavors', True)
        kq = pywbem.CIMQualifier('Key', True, overridable=False, tosubclass=True, toinstance=False, translatable=False,
                                 propagated=False) if fl else pywbem.CIMQualifier('Key', True)
        dq = pywbem.CIMQualifier('Description', spec.get('desc', 'd'), overridable=True, tosubclass=True, toinstance=False,
                                 translatable=True, propagated=False)
        props = {'name': pywbem.CIMProperty('name', None, type='string', qualifiers={'Key': kq},
                                            class_origin=spec['name'], propagated=False),
                 spec.get('prop', 'z'): pywbem.CIMProperty(spec.get('prop', 'z'), None, type=spec.get('ptype', 'uint8'),
                                                           class_origin=spec['name'], propagated=False)}
        if spec.get('super'):
            del props['name']
        c = pywbem.CIMClass(spec['name'], superclass=spec.get('super'), properties=props,
                            qualifiers={'Description': dq} if spec.get('clsqual') else {})
        if spec.get('path'):
            c.path = pywbem.CIMClassName(spec['name'], namespace='root/b', host='h')
        return c
    if t == 'qdecl':
        sc = {k: True for k in spec.get('scopes', ['property'])}
        if spec.get('any_false'):
            sc['any'] = False
        return pywbem.CIMQualifierDeclaration(spec['name'], spec.get('type', 'string'), value=spec.get('value'),
                                              is_array=spec.get('is_array', False), scopes=sc,
                                              overridable=spec.get('overridable', True), tosubclass=True, toinstance=False,
                                              translatable=spec.get('translatable', False))
    if t == 'ctx':
        c = env['ctx'].get(spec['i'])
        if c is None:
            return ('no-such-context-%d' % spec['i'], spec.get('ns', 'root/a')) if spec.get('bogus') else None
        if 'ns' in spec:
            return (c[0], spec['ns'])
        return c
    if t == 'mparams':   # Params list for InvokeMethod: list of (name, value-spec) / CIMParameter specs
        out = []
        for name, vs, as_param in spec['v']:
            v = build_mval(vs)
            if as_param:
                ty, arr, eo = vs['ptype']
                out.append(pywbem.CIMParameter(name, ty, value=v, is_array=arr, embedded_object=eo))
            else:
                out.append((name, v))
        return out
    if t == 'mval':
        return build_mval(spec['v'])
    raise ValueError(t)


def build_mval(vs):
    """value of an extrinsic method parameter"""
    import pywbem
    k = vs['k']
    if k == 'none':
        return None
    if k == 'str':
        return vs['v']
    if k == 'bool':
        return vs['v']
    if k == 'int':
        return getattr(pywbem, vs['ty'].capitalize())(vs['v'])
    if k == 'real':
        return pywbem.Real64(vs['v'])
    if k == 'dt':
        return pywbem.CIMDateTime(vs['v'])
    if k == 'char16':
        return pywbem.Char16(vs['v'])
    if k == 'ref':
        return pywbem.CIMInstanceName('TST_P', keybindings={'name': vs['v']}, namespace=vs.get('ns'), host=vs.get('host'))
    if k == 'einst':
        return pywbem.CIMInstance('TST_E', properties={'a': vs['v'], 'n': pywbem.Uint16(3)})
    if k == 'arr':
        return [build_mval(x) for x in vs['v']]
    raise ValueError(k)


def arg_json(v, T):
    """Python argument value -> the Arg JSON of the Lean driver"""
    import pywbem
    if v is None:
        return {'t': 'none'}
    if isinstance(v, bool):
        return {'t': 'bool', 'v': v}
    if isinstance(v, int):
        return {'t': 'int', 'v': str(v)}
    if isinstance(v, str):
        return {'t': 'str', 'v': cimproto.cps(v)}
    if isinstance(v, (list, tuple)) and all(x is None or isinstance(x, str) for x in v):
        return {'t': 'strs', 'v': [cimproto.ocps(x) for x in v]}
    if isinstance(v, (pywbem.CIMInstanceName, pywbem.CIMClassName)):
        return {'t': 'path', 'v': cimproto.path_to_json(v, T)}
    if isinstance(v, pywbem.CIMInstance):
        return {'t': 'inst', 'v': cimproto.inst_to_json(v, T)}
    if isinstance(v, pywbem.CIMClass):
        return {'t': 'cls', 'v': cimproto.cls_to_json(v, T)}
    if isinstance(v, pywbem.CIMQualifierDeclaration):
        return {'t': 'qdecl', 'v': cimproto.qdecl_to_json(v, T)}
    return {'t': 'other'}


def pval_json(v, T, canon=False):
    """typed parameter value as a server passes it to the operation -> PVal JSON"""
    if isinstance(v, bool):
        return {'b': v}
    if isinstance(v, int):
        return {'i': str(v)}
    if isinstance(v, str):
        return {'s': cimproto.cps(v)}
    if isinstance(v, (list, tuple)):
        return {'l': [cimproto.ocps(x) for x in v]}
    j = cimproto.obj_to_json(v, T)
    if canon:
        j = c01.canon(c01.with_defaults(j))
    return {'o': j}


def ritem_json(o, T):
    import pywbem
    if isinstance(o, tuple) and len(o) == 3 and o[0] == 'OBJECTPATH':
        x = o[2]
        if isinstance(x, pywbem.CIMInstance):
            return {'k': 'opInst', 'v': cimproto.inst_to_json(x, T)}
        if isinstance(x, (pywbem.CIMInstanceName, pywbem.CIMClassName)):
            return {'k': 'opPath', 'v': cimproto.path_to_json(x, T)}
        return {'k': 'opCls', 'p': cimproto.path_to_json(x[0], T), 'c': cimproto.cls_to_json(x[1], T)}
    if isinstance(o, pywbem.CIMInstance):
        return {'k': 'inst', 'v': cimproto.inst_to_json(o, T)}
    if isinstance(o, (pywbem.CIMInstanceName, pywbem.CIMClassName)):
        return {'k': 'path', 'v': cimproto.path_to_json(o, T)}
    if isinstance(o, pywbem.CIMClass):
        return {'k': 'cls', 'v': cimproto.cls_to_json(o, T)}
    if isinstance(o, pywbem.CIMQualifierDeclaration):
        return {'k': 'qdecl', 'v': cimproto.qdecl_to_json(o, T)}
    raise TypeError('ritem_json: %r' % (type(o),))


def result_json(rec, T):
    """what the seam answered (facade log record) -> Result JSON of the Lean driver; None when not expressible"""
    if 'error' in rec:
        return {'err': rec['error'][0], 'desc': cimproto.cps(rec['error'][1] or '')}
    if 'result' not in rec:
        return None
    items = []
    for item in (rec['result'] or []):
        if item[0] == 'IRETURNVALUE':
            items.append({'iret': [ritem_json(o, T) for o in (item[2] or [])]})
        elif item[0] == 'EndOfSequence':
            items.append({'eos': cimproto.cps(str(item[2]))})
        elif item[0] == 'EnumerationContext':
            items.append({'ctx': cimproto.ocps(item[2])})
        else:
            return None
    return {'items': items}


def cobj_json(x, T):
    if isinstance(x, tuple):
        return {'pair': [cimproto.path_to_json(x[0], T), cimproto.cls_to_json(x[1], T)]}
    return {'obj': cimproto.obj_to_json(x, T)}


def cval_json(opname, r, T):
    """return value of an operation method -> CVal JSON of the Lean driver"""
    if r is None:
        return {'none': True}
    if opname == 'EnumerateClassNames':
        return {'names': [cimproto.cps(x) for x in r]}
    if hasattr(r, 'eos'):
        objs = r.paths if hasattr(r, 'paths') else r.instances
        ctx = None if r.context is None else [cimproto.ocps(r.context[0]), cimproto.cps(r.context[1])]
        return {'pull': [cobj_json(x, T) for x in objs], 'eos': bool(r.eos), 'ctx': ctx}
    if isinstance(r, list):
        return {'list': [cobj_json(x, T) for x in r]}
    return {'one': cobj_json(r, T)}


# ----------------------------------------------------------------------------- canonical outcomes (oracle)

def canon_result(x):
    """canonical JSON of an operation result (objects through DSP0201 defaults; hosts dropped from object paths because
    the mock omits the host in several results where a CIM-XML server has to send one; enumeration context ids replaced
    by a placeholder: the two twins draw different uuids)"""
    if x is None or isinstance(x, (bool, int, str, float)):
        return x
    if hasattr(x, 'eos'):
        objs = x.paths if hasattr(x, 'paths') else x.instances
        return {'pull': canon_result(list(objs)), 'eos': bool(x.eos),
                'ctx': None if x.context is None else ['<ctx>' if x.context[0] else x.context[0], x.context[1]]}
    if isinstance(x, (list, tuple)):
        return [canon_result(y) for y in x]
    if hasattr(x, 'items') and not hasattr(x, 'tocimxml'):
        return {k.lower(): canon_result(v) for k, v in x.items()}
    if not hasattr(x, 'tocimxml'):       # an atomic CIM value (return value / output parameter of a method)
        return c01._atom_defaults(cimproto.atom_to_json(x, cimproto.Tables()))
    j = c01.canon(c01.with_defaults(cimproto.obj_to_json(x, cimproto.Tables())))
    return _drop_hosts(j)


def _drop_hosts(j):
    if isinstance(j, dict):
        j = {k: _drop_hosts(v) for k, v in j.items()}
        if 'host' in j and 'ns' in j and 'cls' in j:
            j['host'] = None
        return j
    if isinstance(j, list):
        return [_drop_hosts(x) for x in j]
    return j


def outcome(fn):
    import pywbem
    try:
        r = fn()
    except pywbem.CIMError as e:
        return {'exc': 'CIMError', 'code': e.status_code}, None
    except pywbem.Error as e:
        return {'exc': type(e).__name__}, None
    except Exception as e:  # noqa
        return {'exc': type(e).__name__, 'local': True}, None
    return {'ok': canon_result(r)}, r


def canon_seen(op, namespace, params):
    """what a server-side operation was called with, canonical (objects through DSP0201 defaults, context ids replaced)"""
    out = []
    for k, v in params:
        if k.lower() == 'enumerationcontext':
            out.append([k.lower(), '<ctx>'])
        elif hasattr(v, 'value') and hasattr(v, 'embedded_object') and hasattr(v, 'is_array'):
            out.append([k.lower(), {'ty': v.type, 'arr': bool(v.is_array), 'eo': v.embedded_object,
                                    'v': _drop_hosts(canon_result(v.value)) if not isinstance(v.value, (list,)) else
                                    [_drop_hosts(canon_result(x)) for x in v.value]}])
        else:
            out.append([k.lower(), pval_json(v, cimproto.Tables(), canon=True)])
    return {'op': op, 'ns': namespace, 'params': sorted(out, key=lambda p: p[0])}


# ----------------------------------------------------------------------------- running histories

def call_op(conn, op, env):
    kw = {k: build_arg(v, env) for k, v in op['args'].items()}
    if op['op'] == 'InvokeMethod':
        extra = {k: build_mval(v) for k, v in op.get('kwparams', {}).items()}
        return conn.InvokeMethod(kw.get('MethodName'), kw.get('ObjectName'), kw.get('Params'), **extra), kw
    return getattr(conn, op['op'])(**kw), kw


def spy_calls(fake, log):
    """record what the server side of a *direct* call sees (operation, namespace, non-None parameters in call order)"""
    orig_i, orig_m = fake._imethodcall, fake._methodcall

    def spy_i(methodname, namespace, **params):
        p = [(k, copy.deepcopy(v)) for k, v in params.items()
             if v is not None and k not in ('has_out_params', 'has_return_value')]
        log.append(('IMETHODCALL', methodname, namespace, p))
        return orig_i(methodname, namespace, **params)

    def spy_m(methodname, objectname, Params=None, **params):
        log.append(('METHODCALL', methodname, copy.deepcopy(objectname), copy.deepcopy(Params), copy.deepcopy(params)))
        return orig_m(methodname, objectname, Params, **params)
    fake._imethodcall = spy_i
    fake._methodcall = spy_m


class Step:
    """everything observed for one operation of a history"""
    __slots__ = ('op', 'kw', 'wire', 'wire_raw', 'direct', 'direct_raw', 'exchanges', 'direct_seen', 'host')


def run_history(sizes, seed, ops, default_namespace='root/a'):
    A = build(sizes, seed)
    B = build(sizes, seed)
    B.default_namespace = default_namespace
    client, ad = facade.make_client(A, default_namespace=default_namespace)
    direct_log = []
    spy_calls(B, direct_log)
    return _run(ops, client, ad, B, direct_log)


def repo_state(fake):
    """canonical content of a mock repository (instances with values, class names, qualifier names per namespace)"""
    out = {}
    for ns in sorted(fake.namespaces):
        insts = []
        try:
            classes = sorted(fake.EnumerateClassNames(namespace=ns, DeepInheritance=True), key=str.lower)
        except Exception:  # noqa
            classes = []
        for cn in classes:
            try:
                for i in fake.EnumerateInstances(cn, namespace=ns, DeepInheritance=False):
                    insts.append(json.dumps(canon_result(i), sort_keys=True))
            except Exception:  # noqa
                pass
        try:
            quals = sorted(q.name.lower() for q in fake.EnumerateQualifiers(namespace=ns))
        except Exception:  # noqa
            quals = []
        out[ns] = {'classes': [c.lower() for c in classes], 'instances': sorted(insts), 'qualifiers': quals,
                   'contexts': len(fake._mainprovider.enumeration_contexts)}
    return out


def run_http_history(sizes, seed, ops, default_namespace, fault, content_type=None, creds=None, logging_on=False):
    """the history through a REAL loopback HTTP server in front of the facade (whole client stack incl. urllib3
    retry logic), with lost replies as given by `fault` = {request index: 'drop' | 'truncate'}.
    Returns (steps, requests seen per step, repository states (server, twin))"""
    A = build(sizes, seed)
    B = build(sizes, seed)
    B.default_namespace = default_namespace
    srv = facade.HttpFacade(A, fault=fault, content_type=content_type, auth=creds)
    try:
        client = srv.client(default_namespace=default_namespace, creds=creds)
        if logging_on:
            # "wire = direct" must also hold with HTTP/API logging switched on for the connection (the log recorder
            # sees the request headers and masks the password in ITS copy)
            import pywbem
            import tempfile
            logdir = tempfile.mkdtemp(prefix='c04log')
            pywbem.configure_logger('all', log_dest='file', log_filename=os.path.join(logdir, 'pywbem.log'),
                                    detail_level='all', connection=client)
        direct_log = []
        orig_i, orig_m = B._imethodcall, B._methodcall
        spy_calls(B, direct_log)
        steps = _run(ops, client, srv, B, direct_log)
        B._imethodcall, B._methodcall = orig_i, orig_m
        states = (repo_state(A), repo_state(B))
    finally:
        srv.close()
        if logging_on:
            import logging
            import shutil
            for name in ('pywbem.api', 'pywbem.http'):
                lg = logging.getLogger(name)
                for h in list(lg.handlers):
                    lg.removeHandler(h)
                    h.close()
            shutil.rmtree(logdir, ignore_errors=True)
    return steps, states


def run_scripted(ops, scripts, default_namespace='root/a'):
    """scripts[i] = result of every seam call made by op i (a list / None / ('err', code, desc))"""
    import pywbem
    cur = {'i': 0}

    def script(methodname):
        r = scripts[cur['i']]
        if isinstance(r, tuple) and r and r[0] == 'err':
            return pywbem.CIMError(r[1], r[2])
        return r
    srv = Scripted(script)
    client, ad = facade.make_client(srv, default_namespace=default_namespace)
    B, bs = scripted_direct(script, default_namespace)
    direct_log = []
    orig = B._imethodcall

    def spy(methodname, namespace, **params):
        p = [(k, copy.deepcopy(v)) for k, v in params.items()
             if v is not None and k not in ('has_out_params', 'has_return_value')]
        direct_log.append(('IMETHODCALL', methodname, namespace, p))
        return orig(methodname, namespace, **params)
    B._imethodcall = spy
    return _run(ops, client, ad, B, direct_log, cur)


def _run(ops, client, ad, B, direct_log, cur=None):
    envW, envD = {'ctx': {}}, {'ctx': {}}
    steps = []
    for i, op in enumerate(ops):
        if cur is not None:
            cur['i'] = i
        n0, m0 = len(ad.log), len(direct_log)
        st = Step()
        st.op = op
        box = {}

        def go_w():
            r, kw = call_op(client, op, envW)
            box['kw'] = kw
            return r

        def go_d():
            r, kw = call_op(B, op, envD)
            return r
        try:
            box['kw'] = {k: build_arg(v, envW) for k, v in op['args'].items()}
        except Exception:  # noqa
            box['kw'] = {}
        st.wire, st.wire_raw = outcome(go_w)
        st.direct, st.direct_raw = outcome(go_d)
        st.kw = box['kw']
        for env, raw in ((envW, st.wire_raw), (envD, st.direct_raw)):
            if raw is not None and hasattr(raw, 'eos'):
                env['ctx'][i] = raw.context
        st.exchanges = ad.log[n0:]
        st.host = client.host
        st.direct_seen = direct_log[m0:]
        steps.append(st)
    return steps
