"""C04 oracle on the real code: the same operation sequence through WBEMConnection + CIM-XML facade (harness/facade.py)
versus directly on an identically built FakedWBEMConnection.  Used by harness/c04.py."""
import copy
import json
import cimproto
import c01
import facade

MOF = '''
Qualifier Key : boolean = false, Scope(property, reference), Flavor(DisableOverride, ToSubclass);
Qualifier Association : boolean = false, Scope(association), Flavor(DisableOverride, ToSubclass);
Qualifier Description : string = null, Scope(any), Flavor(EnableOverride, ToSubclass, Translatable);
Qualifier EmbeddedInstance : string = null, Scope(property, method, parameter);
class TST_E { string a; uint16 n; };
class TST_P {
    [Key, Description("the name")] string name;
    uint32 v; sint64 s64; real64 r; boolean b; datetime dt; char16 c;
    string sa[]; uint8 u8a[];
    [EmbeddedInstance("TST_E")] string emb;
};
class TST_Q : TST_P { [Description("extra \\"q\\" & <x>")] string extra; };
[Association] class TST_L { [Key] TST_P REF parent; [Key] TST_P REF child; string note; };
'''
NSS = ['root/a', 'root/b']


def build(sizes, rng_seed):
    """deterministic repository: two calls with the same arguments give equal repositories"""
    import random
    import pywbem
    import mockutil
    r = random.Random(rng_seed)
    conn = mockutil.new_conn(MOF, NSS)
    for ns in NSS:
        insts = []
        for i in range(sizes[ns]):
            cls = 'TST_Q' if i % 3 == 2 else 'TST_P'
            props = {'name': 'p%d' % i, 'v': pywbem.Uint32(r.choice([0, 1, 2**32 - 1, i])),
                     's64': pywbem.Sint64(r.choice([-2**63, 2**63 - 1, -i])),
                     'r': pywbem.Real64(r.choice([0.1, 1e16, -2.5e-300, float('inf'), i / 3.0])),
                     'b': r.random() < 0.5,
                     'dt': pywbem.CIMDateTime(r.choice(['20140924193040.654321+120', '00000010010203.000004:000',
                                                        '20000229000000.000***-300'])),
                     'c': pywbem.Char16(r.choice(['a', '<', '&', 'é'])),
                     'sa': r.choice([None, [], ['a', None, ' b&<>"\' \n'], ['x' * 3]]),
                     'u8a': r.choice([None, [pywbem.Uint8(0), pywbem.Uint8(255)], [None]]),
                     'emb': r.choice([None, pywbem.CIMInstance('TST_E', properties={'a': 'in & <out>', 'n': pywbem.Uint16(7)})])}
            if cls == 'TST_Q':
                props['extra'] = r.choice([None, '', ' lead', 'tab\tnl\n', ']]>'])
            typed = {'sa': ('string', True), 'u8a': ('uint8', True), 'emb': ('string', False), 'extra': ('string', False)}
            plist = []
            for pn, pv in props.items():
                if pn in typed:
                    if pv is None and rng_seed % 2 == 0:
                        continue           # leave the property out
                    t, arr = typed[pn]
                    eo = 'instance' if pn == 'emb' else None
                    plist.append(pywbem.CIMProperty(pn, pv, type=t, is_array=arr, embedded_object=eo))
                else:
                    plist.append(pywbem.CIMProperty(pn, pv))
            inst = pywbem.CIMInstance(cls, properties=plist)
            inst.path = pywbem.CIMInstanceName(cls, keybindings={'name': 'p%d' % i}, namespace=ns)
            insts.append(inst)
        conn.add_cimobjects(insts, namespace=ns)
        for i in range(1, sizes[ns]):
            a = pywbem.CIMInstance('TST_L', properties={'parent': insts[0].path, 'child': insts[i].path,
                                                        'note': 'n%d' % i})
            a.path = pywbem.CIMInstanceName('TST_L', keybindings={'parent': insts[0].path, 'child': insts[i].path},
                                            namespace=ns)
            conn.add_cimobjects([a], namespace=ns)
    return conn


def canon_result(x):
    """canonical JSON of an operation result (objects through DSP0201 defaults; hosts dropped from object paths
    because the mock omits the host in several results where a CIM-XML server has to send one)"""
    import pywbem
    if x is None or isinstance(x, (bool, int, str, float)):
        return x
    if isinstance(x, (list, tuple)):
        return [canon_result(y) for y in x]
    j = c01.canon(c01.with_defaults(cimproto.obj_to_json(x, cimproto.Tables())))
    return _drop_hosts(j)


def _drop_hosts(j):
    if isinstance(j, dict):
        j = {k: _drop_hosts(v) for k, v in j.items()}
        if 'host' in j and 'ns' in j and 'cls' in j:
            j['host'] = None
        return j
    if isinstance(j, list):
        return [_drop_hosts(x) for x in j]
    return j


def outcome(fn):
    import pywbem
    try:
        return {'ok': canon_result(fn())}
    except pywbem.CIMError as e:
        return {'exc': 'CIMError', 'code': e.status_code}
    except pywbem.Error as e:
        return {'exc': type(e).__name__}
    except Exception as e:  # noqa
        return {'exc': type(e).__name__, 'leak': True}


def gen_ops(rng, sizes, n):
    """operation list as JSON-able dicts; names in random case; existing / missing / foreign targets"""
    ops = []
    created = 0

    def cname():
        c = rng.choice(['TST_P', 'TST_P', 'TST_Q', 'TST_L', 'TST_E', 'TST_Nope'])
        return rng.choice([c, c, c.lower(), c.upper()])

    def ns():
        return rng.choice([None, None, 'root/a', 'root/b', 'ROOT/A', 'root/nope'])

    def iname():
        n_ = rng.choice(['root/a', 'root/a', 'root/b', None])
        sz = sizes[n_ or 'root/a']
        i = rng.choice(list(range(max(sz, 1))) + [99])
        cls = 'TST_Q' if i % 3 == 2 else 'TST_P'
        return {'cls': rng.choice([cls, cls.lower()]), 'key': 'p%d' % i, 'ns': n_}

    def flags(names):
        return {k: rng.choice([None, None, True, False]) for k in names}

    def plist():
        return rng.choice([None, None, [], ['name'], ['NAME', 'v'], ['nope'], ['r', 'dt', 'sa']])

    for _ in range(n):
        k = rng.choice(['GetInstance', 'GetInstance', 'EnumerateInstances', 'EnumerateInstanceNames', 'Associators',
                        'AssociatorNames', 'References', 'ReferenceNames', 'GetClass', 'EnumerateClasses',
                        'EnumerateClassNames', 'EnumerateQualifiers', 'GetQualifier', 'CreateInstance', 'ModifyInstance',
                        'DeleteInstance', 'OpenEnumerateInstances', 'OpenEnumerateInstancePaths', 'ExecQuery',
                        'ClassAssociators', 'ClassReferenceNames', 'DeleteQualifier', 'CreateClass', 'DeleteClass'])
        if k == 'GetInstance':
            ops.append({'op': k, 'iname': iname(), 'kw': dict(flags(['LocalOnly', 'IncludeQualifiers', 'IncludeClassOrigin']),
                                                               PropertyList=plist())})
        elif k in ('EnumerateInstances',):
            ops.append({'op': k, 'cls': cname(), 'ns': ns(),
                        'kw': dict(flags(['LocalOnly', 'DeepInheritance', 'IncludeQualifiers', 'IncludeClassOrigin']),
                                   PropertyList=plist())})
        elif k == 'EnumerateInstanceNames':
            ops.append({'op': k, 'cls': cname(), 'ns': ns(), 'kw': {}})
        elif k in ('Associators', 'References'):
            kw = dict(flags(['IncludeQualifiers', 'IncludeClassOrigin']), PropertyList=plist(),
                      ResultClass=rng.choice([None, None, 'TST_P', 'tst_q', 'TST_L', 'Nope']),
                      Role=rng.choice([None, None, 'parent', 'CHILD', 'nope']))
            if k == 'Associators':
                kw.update(AssocClass=rng.choice([None, None, 'TST_L', 'tst_l', 'TST_P']),
                          ResultRole=rng.choice([None, None, 'child', 'Parent']))
            ops.append({'op': k, 'iname': iname(), 'kw': kw})
        elif k in ('AssociatorNames', 'ReferenceNames'):
            kw = dict(ResultClass=rng.choice([None, None, 'TST_P', 'TST_L']), Role=rng.choice([None, 'parent', 'child']))
            if k == 'AssociatorNames':
                kw.update(AssocClass=rng.choice([None, 'TST_L']), ResultRole=rng.choice([None, 'child']))
            ops.append({'op': k, 'iname': iname(), 'kw': kw})
        elif k in ('ClassAssociators', 'ClassReferenceNames'):
            real = 'Associators' if k == 'ClassAssociators' else 'ReferenceNames'
            ops.append({'op': real, 'clsobj': cname(), 'ns': ns(), 'kw': {}})
        elif k == 'GetClass':
            ops.append({'op': k, 'cls': cname(), 'ns': ns(),
                        'kw': dict(flags(['LocalOnly', 'IncludeQualifiers', 'IncludeClassOrigin']), PropertyList=plist())})
        elif k == 'EnumerateClasses':
            ops.append({'op': k, 'cls': rng.choice([None, None, 'TST_P', 'tst_p', 'Nope']), 'ns': ns(),
                        'kw': flags(['DeepInheritance', 'LocalOnly', 'IncludeQualifiers', 'IncludeClassOrigin'])})
        elif k == 'EnumerateClassNames':
            ops.append({'op': k, 'cls': rng.choice([None, None, 'TST_P', 'Nope']), 'ns': ns(),
                        'kw': flags(['DeepInheritance'])})
        elif k == 'EnumerateQualifiers':
            ops.append({'op': k, 'ns': ns(), 'kw': {}})
        elif k in ('GetQualifier', 'DeleteQualifier'):
            ops.append({'op': k, 'q': rng.choice(['Key', 'key', 'Description', 'Nope', 'EmbeddedInstance']), 'ns': ns(), 'kw': {}})
        elif k == 'CreateInstance':
            created += 1
            ops.append({'op': k, 'new': {'cls': rng.choice(['TST_P', 'TST_Q', 'TST_Nope', 'tst_p']),
                                         'name': rng.choice(['c%d' % created, 'p0', 'c1']),
                                         'v': rng.choice([None, 5]), 'bad': rng.random() < 0.1,
                                         'text': rng.choice([None, 'a&b<c>', ' x ', 'é😀', 'tab\t'])}, 'ns': ns()})
        elif k == 'ModifyInstance':
            ops.append({'op': k, 'iname': iname(), 'v': rng.choice([1, 2, 3]), 'kw': dict(PropertyList=rng.choice([None, ['v'], ['name'], []]))})
        elif k == 'DeleteInstance':
            ops.append({'op': k, 'iname': iname(), 'kw': {}})
        elif k in ('OpenEnumerateInstances', 'OpenEnumerateInstancePaths'):
            ops.append({'op': k, 'cls': cname(), 'ns': ns(), 'kw': dict(MaxObjectCount=rng.choice([None, 0, 1, 2, 100]))})
        elif k == 'ExecQuery':
            ops.append({'op': k, 'ns': ns(), 'kw': {}})
        elif k == 'CreateClass':
            ops.append({'op': k, 'name': rng.choice(['TST_New', 'TST_P', 'TST_Sub']), 'super': rng.choice([None, 'TST_P', 'Nope']), 'ns': ns()})
        elif k == 'DeleteClass':
            ops.append({'op': k, 'cls': rng.choice(['TST_New', 'TST_Sub', 'TST_E', 'Nope']), 'ns': ns(), 'kw': {}})
    return ops


def apply(conn, op):
    """run one generated op on a connection (WBEMConnection+facade or FakedWBEMConnection)"""
    import pywbem
    k = op['op']
    kw = {a: b for a, b in (op.get('kw') or {}).items()}

    def mk_iname(d):
        return pywbem.CIMInstanceName(d['cls'], keybindings={'name': d['key']}, namespace=d['ns'])
    if 'iname' in op and k not in ('ModifyInstance',):
        return getattr(conn, k)(mk_iname(op['iname']), **kw)
    if 'clsobj' in op:
        return getattr(conn, k)(pywbem.CIMClassName(op['clsobj'], namespace=op['ns']), **kw)
    if k in ('EnumerateInstances', 'EnumerateInstanceNames', 'GetClass', 'OpenEnumerateInstances',
             'OpenEnumerateInstancePaths', 'DeleteClass'):
        r = getattr(conn, k)(op['cls'], namespace=op['ns'], **kw)
        if k.startswith('Open'):
            objs = r.instances if k == 'OpenEnumerateInstances' else r.paths
            out = [list(objs), bool(r.eos), r.context is not None]
            if r.context is not None:
                conn.CloseEnumeration(r.context)
            return out
        return r
    if k in ('EnumerateClasses', 'EnumerateClassNames'):
        return getattr(conn, k)(namespace=op['ns'], ClassName=op['cls'], **kw)
    if k == 'EnumerateQualifiers':
        return conn.EnumerateQualifiers(namespace=op['ns'])
    if k in ('GetQualifier', 'DeleteQualifier'):
        return getattr(conn, k)(op['q'], namespace=op['ns'])
    if k == 'CreateInstance':
        n = op['new']
        props = {'name': n['name']}
        if n['v'] is not None:
            props['v'] = pywbem.Uint32(n['v'])
        if n['text'] is not None and n['cls'].lower() == 'tst_q':
            props['extra'] = n['text']
        if n['bad']:
            props['nosuchprop'] = 'x'
        return conn.CreateInstance(pywbem.CIMInstance(n['cls'], properties=props), namespace=op['ns'])
    if k == 'ModifyInstance':
        p = mk_iname(op['iname'])
        if p.namespace is None:
            p.namespace = conn.default_namespace
        mi = pywbem.CIMInstance(p.classname, properties={'name': op['iname']['key'], 'v': pywbem.Uint32(op['v'])}, path=p)
        return conn.ModifyInstance(mi, **kw)
    if k == 'ExecQuery':
        return conn.ExecQuery('WQL', 'select * from TST_P', namespace=op['ns'])
    if k == 'CreateClass':
        c = pywbem.CIMClass(op['name'], superclass=op['super'],
                            properties={'name': pywbem.CIMProperty('name', None, type='string',
                                                                    qualifiers={'Key': pywbem.CIMQualifier('Key', True)}),
                                        'z': pywbem.CIMProperty('z', None, type='uint8')})
        return conn.CreateClass(c, namespace=op['ns'])
    raise ValueError(k)


def spy_calls(fake, log):
    """record what the server side of a *direct* call sees (operation, namespace, non-None parameters)"""
    orig = fake._imethodcall

    def spy(methodname, namespace, **params):
        p = {k: v for k, v in params.items() if v is not None and k not in ('has_out_params', 'has_return_value')}
        log.append(('imethod', methodname, namespace, facade._canon_params(copy.deepcopy(p))))
        return orig(methodname, namespace, **params)
    fake._imethodcall = spy


def run_history(sizes, seed, ops, default_namespace='root/a'):
    """returns list of (op, via_wire, direct, seen_wire, seen_direct)"""
    A = build(sizes, seed)
    B = build(sizes, seed)
    A.default_namespace = default_namespace
    B.default_namespace = default_namespace
    seen = facade.Seen()
    client, ad = facade.make_client(A, default_namespace=default_namespace, seen=seen)
    direct_log = []
    spy_calls(B, direct_log)
    out = []
    for op in ops:
        n0, m0 = len(seen.calls), len(direct_log)
        w = outcome(lambda: apply(client, op))
        d = outcome(lambda: apply(B, op))
        out.append((op, w, d, seen.calls[n0:], direct_log[m0:]))
    return out
