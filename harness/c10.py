"""C10 — the mock server's instance store is a faithful keyed map with CIM status codes.

K: seeded histories of CreateInstance / ModifyInstance / DeleteInstance / GetInstance / EnumerateInstances /
   EnumerateInstanceNames run (a) through the real FakedWBEMConnection, with client-side mutation of every object
   passed in or handed out after each call, and (b) through the Lean model Model/Store.lean (native driver);
   outputs, status codes and the final contents of the repository are diffed.
   Since the extension round the histories are histories of public CALLS (arguments of wrong Python types, namespaces
   with slashes / through the object, CIMClassName, PropertyList forms, retrieval options, property attributes): the
   model side is Model/StoreClient.lean `runCalls`.  Two further comparisons: the per-call object-sharing counts from
   real id()s against Model/StoreAlias.lean, and the subclass lists of random class stores against
   Model/StoreSubclass.lean (`subclass_walk`).
Oracle: an independent reference map (this file, class RefMap) from (namespace, creation class, keybindings) –
   names case-folded, keybindings as a set – to property values with the documented status-code table, evaluated
   against the REAL outputs only; `call_to_op` re-states the argument handling (a bad argument must be refused with
   TypeError / ValueError and change nothing); an identity walk demands that no mutable object is reachable from both
   the repository and the client (`shared_object`).
"""
import copy
import json
import random

import common

PROP = 'C10'

NS_INVALID, PARAM, CLS_INVALID, NOT_FOUND, EXISTS = 3, 4, 5, 6, 11
DOCUMENTED = (NS_INVALID, PARAM, CLS_INVALID, NOT_FOUND, EXISTS)

QUALS = '''
Qualifier Key : boolean = false, Scope(property, reference), Flavor(DisableOverride, ToSubclass);
Qualifier Association : boolean = false, Scope(association), Flavor(DisableOverride, ToSubclass);
Qualifier Description : string = null, Scope(any), Flavor(EnableOverride, ToSubclass, Translatable);
Qualifier EmbeddedInstance : string = null, Scope(property, method, parameter);
Qualifier EmbeddedObject : boolean = false, Scope(property, method, parameter), Flavor(DisableOverride, ToSubclass);
'''

INT_RANGE = {'uint8': (0, 255), 'sint8': (-128, 127), 'uint16': (0, 65535), 'sint16': (-32768, 32767),
             'uint32': (0, 2 ** 32 - 1), 'sint32': (-2 ** 31, 2 ** 31 - 1), 'uint64': (0, 2 ** 64 - 1),
             'sint64': (-2 ** 63, 2 ** 63 - 1)}
KEY_TYPES = ['string', 'string', 'uint32', 'uint8', 'sint64', 'boolean', 'datetime', 'char16', 'uint64', 'sint16']
ALL_TYPES = ['string', 'char16', 'boolean', 'datetime', 'real32', 'real64'] + sorted(INT_RANGE)
DATETIMES = ['20200229120000.000000+000', '19991231235959.999999-300', '00000012003000.000000:000',
             '20200229120000.000001+000', '99999999235959.999999:000']
STRINGS = ['', 'a', 'A', 'abc', 'ABC', 'x y', 'café', 'k€', '1', 'true', 'a"b', 'p:q.r=s,t']
CHARS = ['a', 'A', 'z', '0', 'é']
REALS = [0.0, 1.5, -2.25, 1e10, 3.0]


# --------------------------------------------------------------------------------------------- schemas

def fixed_schemas():
    """hand-written schemas: (mof, class descriptions are derived from the repository itself)"""
    s1 = QUALS + '''
class TST_P { [Key] string name; uint32 v; string arr[]; };
class TST_Q : TST_P { string extra = "dflt"; };
class TST_R : TST_Q { uint16 deep[]; boolean flag = true; };
class tst_s : TST_R { string level4; };
class TST_T : TST_S { sint16 level5 = -5; };
[Association] class TST_L { [Key] TST_P REF parent; [Key] TST_P REF child; uint8 w; };
class TST_E { [Key] uint32 id = 7; [Key] boolean kb; uint16 d = 3; boolean b; datetime t; real32 r; sint64 big[];
              [EmbeddedInstance("TST_Q")] string ei; [EmbeddedObject] string eo; [EmbeddedInstance("TST_P")] string eia[]; };
'''
    s2 = QUALS + '''
class Mx_Base { [Key] string CreationClassName; [Key] string Name; [Key] uint16 Kind; string Caption; char16 c; };
class mx_mid : Mx_Base { datetime Installed; real64 Load = 0.5; };
class MX_LEAF : mx_mid { uint8 Flags[] ; string Caption2 = "x"; };
class Mx_Other { [Key] datetime When; [Key] char16 Tag; sint8 delta; };
[Association] class Mx_Dep { [Key] Mx_Base REF Antecedent; [Key] Mx_Base REF Dependent; uint32 weight = 1; };
[Association] class Mx_Opt { [Key] Mx_Base REF A; [Key] Mx_Other REF B; Mx_Base REF Extra; string note; };
'''
    return [s1, s2]


def random_schema(rng, idx):
    """MOF text of a random schema: 1-2 class trees of depth <= 5, keys and non-keys of all types, 0-2 associations"""
    pre = 'G%d_' % idx
    lines = [QUALS]
    roots = []
    n_roots = rng.choice([1, 2, 2])
    cnt = [0]

    def pname():
        cnt[0] += 1
        base = rng.choice(['Prop', 'val', 'ITEM', 'x', 'Name', 'id'])
        return '%s%d' % (base, cnt[0])

    def decl(key=False):
        t = rng.choice(KEY_TYPES if key else ALL_TYPES)
        arr = (not key) and rng.random() < 0.25
        d = ''
        if not arr and rng.random() < 0.3:
            v = gen_raw(rng, t)
            d = ' = ' + mof_literal(t, v)
        return '%s%s %s%s%s;' % ('[Key] ' if key else '', t, pname(), '[]' if arr else '', d)

    for r in range(n_roots):
        cname = pre + rng.choice(['Root', 'BASE', 'thing']) + str(r)
        body = [decl(True) for _ in range(rng.choice([1, 1, 2, 3]))] + [decl() for _ in range(rng.randint(0, 4))]
        if roots and rng.random() < 0.6:
            body.append('[EmbeddedInstance("%s")] string Emb%d%s;' % (rng.choice(roots), r, rng.choice(['', '[]'])))
        if rng.random() < 0.3:
            body.append('[EmbeddedObject] string EmbObj%d;' % r)
        lines.append('class %s { %s };' % (cname, ' '.join(body)))
        roots.append(cname)
        parents = [cname]
        for depth in (2, 3, 4, 5):
            nxt = []
            for p in parents:
                for k in range(rng.choice([0, 1, 1, 2] if depth <= 3 else [0, 0, 1, 1])):
                    sub = '%s_d%d%s%d' % (p, depth, rng.choice(['a', 'B']), k)
                    body = [decl() for _ in range(rng.randint(0, 2))]
                    lines.append('class %s : %s { %s };' % (sub, p, ' '.join(body)))
                    nxt.append(sub)
            parents = nxt
    for a in range(rng.choice([0, 1, 1, 2])):
        l, r_ = rng.choice(roots), rng.choice(roots)
        extra = ''
        if rng.random() < 0.3:
            extra += ' %s REF Opt%d;' % (rng.choice(roots), a)
        extra += ''.join(' ' + decl() for _ in range(rng.randint(0, 2)))
        lines.append('[Association] class %sAssoc%d { [Key] %s REF Left; [Key] %s REF Right;%s };' % (pre, a, l, r_, extra))
    return '\n'.join(lines) + '\n'


def mof_literal(t, v):
    if t in ('string', 'datetime'):
        return json.dumps(v, ensure_ascii=True).replace('\\u00e9', 'e').replace('\\u20ac', 'E')
    if t == 'char16':
        return "'%s'" % (v if v.isascii() and v.isalnum() else 'q')
    if t == 'boolean':
        return 'true' if v else 'false'
    return repr(v)


def gen_raw(rng, t):
    """raw python value of CIM type t (never None)"""
    if t == 'string':
        return rng.choice(STRINGS)
    if t == 'char16':
        return rng.choice(CHARS)
    if t == 'boolean':
        return rng.random() < 0.5
    if t == 'datetime':
        return rng.choice(DATETIMES)
    if t in ('real32', 'real64'):
        return rng.choice(REALS)
    lo, hi = INT_RANGE.get(t, (0, 255))
    return rng.choice([lo, hi, 0, 1, 1, 2, 7, max(lo, -3), min(hi, 100)])


def to_py(t, raw):
    """raw (JSON-able) value + CIM type name -> pywbem value"""
    import pywbem
    if raw is None:
        return None
    if isinstance(raw, list):
        return [to_py(t, x) for x in raw]
    if isinstance(raw, dict) and 'emb' in raw:
        if raw['emb'] == 'cls':
            return pywbem.CIMClass(raw['cls'])
        return pywbem.CIMInstance(raw['cls'], properties=[
            pywbem.CIMProperty(n, to_py(pt, v), type=pt) for n, pt, v in raw['props']])
    if t == 'string':
        return raw
    if t == 'char16':
        return pywbem.Char16(raw)
    if t == 'boolean':
        return bool(raw)
    if t == 'datetime':
        return pywbem.CIMDateTime(raw)
    if t == 'pyint':
        return int(raw)
    if t == 'reference':
        return path_to_py(raw)
    if t in ('real32', 'real64'):
        return {'real32': pywbem.Real32, 'real64': pywbem.Real64}[t](raw)
    return getattr(pywbem, t.capitalize())(raw)


def path_to_py(ps):
    import pywbem
    kb = [(k, to_py(t, v)) for (k, t, v) in ps['keys']]
    p = pywbem.CIMInstanceName(ps['cls'], keybindings=kb, namespace=ps.get('ns'), host=ps.get('host'))
    return p


def inst_to_py(ispec):
    import pywbem
    props = []
    for p in ispec['props']:
        kw = {}
        if p.get('co') is not None:
            kw['class_origin'] = p['co']
        if p.get('pg') is not None:
            kw['propagated'] = p['pg']
        if p.get('q'):
            kw['qualifiers'] = [pywbem.CIMQualifier('Description', 'q of ' + p['n'])]
        props.append(pywbem.CIMProperty(p['n'], to_py(p['t'], p['v']), type=p['t'], is_array=p['a'], **kw))
    quals = [pywbem.CIMQualifier('Description', 'instance qualifier')] if ispec.get('q') else None
    return pywbem.CIMInstance(ispec['cls'], properties=props, qualifiers=quals)


# --------------------------------------------------------------------------------------------- canonical JSON

class Unsupported(Exception):
    pass


def emb_text(v):
    """canonical text of an embedded object (opaque for the model; equality of texts = equality of objects)"""
    import pywbem
    if isinstance(v, pywbem.CIMClass):
        return 'class ' + v.classname
    return json.dumps([v.classname, sorted([k.lower(), p.type, bool(p.is_array), repr(p.value)]
                                           for k, p in v.properties.items())])


def enc_scalar(v):
    import pywbem
    if isinstance(v, (pywbem.CIMInstance, pywbem.CIMClass)):
        return {'o': [common.cps('emb'), common.cps(emb_text(v))]}
    if isinstance(v, bool):
        return {'b': v}
    if isinstance(v, pywbem.CIMDateTime):
        return {'o': [common.cps('datetime'), common.cps(str(v))]}
    if isinstance(v, (pywbem.Real32, pywbem.Real64, float)):
        return {'o': [common.cps('real'), common.cps(repr(float(v)))]}
    if isinstance(v, int):
        return {'i': str(int(v))}
    if isinstance(v, str):
        return {'s': common.cps(v)}
    raise Unsupported(type(v).__name__)


def enc_kv(v, depth=0):
    import pywbem
    if isinstance(v, pywbem.CIMInstanceName):
        if depth:
            raise Unsupported('nested reference')
        return {'r': enc_path(v, 1)}
    return enc_scalar(v)


def enc_path(p, depth=0):
    return {'c': common.cps(p.classname), 'n': None if p.namespace is None else common.cps(p.namespace),
            'h': None if p.host is None else common.cps(p.host),
            'k': [[common.cps(k), enc_kv(v, depth)] for k, v in p.keybindings.items()]}


def enc_val(v):
    import pywbem
    if v is None:
        return None
    if isinstance(v, (pywbem.CIMInstance, pywbem.CIMClass)):
        return {'e': [isinstance(v, pywbem.CIMClass), common.cps(v.classname), common.cps(emb_text(v))]}
    if isinstance(v, list):
        return {'a': [None if x is None else enc_scalar(x) for x in v]}
    return enc_kv(v)


def enc_prop(p):
    return {'n': common.cps(p.name), 't': common.cps(p.type), 'a': bool(p.is_array), 'v': enc_val(p.value),
            'co': None if p.class_origin is None else common.cps(p.class_origin), 'q': bool(p.qualifiers),
            'pg': p.propagated}


def enc_props(props):
    """NocaseDict of CIMProperty -> list sorted by lower-cased name; dict key and .name must agree modulo case"""
    out = []
    for k, p in props.items():
        if k.lower() != p.name.lower():
            raise Unsupported('property dict key %r holds property named %r' % (k, p.name))
        out.append(enc_prop(p))
    return sort_props(out)


def sort_props(l):
    return sorted(l, key=lambda p: ([c + 32 if 65 <= c <= 90 else c for c in p['n']], p['n']))


def enc_inst(i):
    return {'c': common.cps(i.classname), 'p': enc_props(i.properties), 'q': bool(i.qualifiers)}


def enc_rinst(i):
    return {'c': common.cps(i.classname), 'path': None if i.path is None else enc_path(i.path),
            'p': enc_props(i.properties), 'q': bool(i.qualifiers)}


def enc_class(c):
    props = []
    for p in c.properties.values():
        props.append({'n': common.cps(p.name), 't': common.cps(p.type), 'a': bool(p.is_array),
                      'key': 'key' in p.qualifiers, 'd': enc_val(p.value),
                      'ei': common.cps(p.qualifiers['EmbeddedInstance'].value)
                      if 'EmbeddedInstance' in p.qualifiers and p.qualifiers['EmbeddedInstance'].value is not None else None,
                      'eo': 'EmbeddedObject' in p.qualifiers, 'pg': bool(p.propagated)})
    return {'name': common.cps(c.classname), 'super': None if c.superclass is None else common.cps(c.superclass),
            'assoc': bool(c.qualifiers.get('Association', False)), 'props': props}


def canon_model_out(o):
    """model answer -> same shape as the canonicalised real outcome (properties sorted)"""
    if 'ok' not in o or o['ok'] is None:
        return o
    ok = o['ok']
    if 'inst' in ok:
        return {'ok': {'inst': dict(ok['inst'], p=sort_props(ok['inst']['p']))}}
    if 'insts' in ok:
        return {'ok': {'insts': [dict(i, p=sort_props(i['p'])) for i in ok['insts']]}}
    return o


# --------------------------------------------------------------------------------------------- repositories

_CLASSINFO = {}


def class_info(mof):
    """generator-side description of the classes of a schema, read from a scratch repository:
    name -> {'name','super','assoc','props':[{'n','t','a','key','refcls','dflt'}], 'ancestors':[...]} (definition order)"""
    if mof not in _CLASSINFO:
        import mockutil
        quals, classes = mockutil.compiled_objects(mof)
        import pywbem_mock
        c = pywbem_mock.FakedWBEMConnection(default_namespace='root/x')
        c.add_cimobjects(quals, namespace='root/x')
        c.add_cimobjects(classes, namespace='root/x')
        store = c.cimrepository.get_class_store('root/x')
        info = {}
        for k in store.iter_values(copy=False):
            info[k.classname] = {
                'name': k.classname, 'super': k.superclass, 'assoc': bool(k.qualifiers.get('Association', False)),
                'props': [{'n': p.name, 't': p.type, 'a': bool(p.is_array), 'key': 'key' in p.qualifiers,
                           'refcls': p.reference_class,
                           'ei': p.qualifiers['EmbeddedInstance'].value if 'EmbeddedInstance' in p.qualifiers else None,
                           'eo': 'EmbeddedObject' in p.qualifiers} for p in k.properties.values()]}
        for n, d in info.items():
            lowmap = {k.lower(): v for k, v in info.items()}
            anc, s = [], d['super']
            while s is not None:
                # the superclass attribute keeps the spelling of the subclass declaration: resolve it to the class
                anc.append(lowmap[s.lower()]['name'])
                s = lowmap[s.lower()]['super']
            d['ancestors'] = anc
        _CLASSINFO[mof] = info
    return _CLASSINFO[mof]


def build_conn(schema):
    """schema = {'mof', 'nss': [{'name', 'drop': [classnames]}], 'default'} -> FakedWBEMConnection"""
    import mockutil
    import pywbem_mock
    conn = pywbem_mock.FakedWBEMConnection(default_namespace=schema['default'])
    for nsd in schema['nss']:
        ns = nsd['name']
        if ns not in conn.namespaces:
            conn.add_namespace(ns)
        quals, classes = mockutil.compiled_objects(schema['mof'])
        conn.add_cimobjects(quals, namespace=ns)
        conn.add_cimobjects([c for c in classes if c.classname not in nsd['drop']], namespace=ns)
    return conn


def model_nss(conn):
    out = []
    for ns in conn.namespaces:
        store = conn.cimrepository.get_class_store(ns)
        out.append({'name': common.cps(ns), 'classes': [enc_class(c) for c in store.iter_values(copy=False)]})
    return out


def dump_state(conn):
    out = []
    for ns in conn.namespaces:
        store = conn.cimrepository.get_instance_store(ns)
        items = []
        for k, v in store._data.items():       # noqa: the dict itself: keys and stored objects
            items.append({'key': enc_path(k), 'path': None if v.path is None else enc_path(v.path), 'inst': enc_inst(v)})
        out.append({'name': common.cps(ns), 'insts': items})
    return out


def _lowc(cpsl):
    return None if cpsl is None else [c + 32 if 65 <= c <= 90 else c for c in cpsl]


def loose_kv(v):
    if v is not None and 'r' in v:
        return {'r': loose_path(v['r'])}
    if v is not None and 'b' in v:
        return {'i': '1' if v['b'] else '0'}
    return v


def loose_path(p):
    if p is None:
        return None
    return {'c': _lowc(p['c']), 'n': _lowc(p['n']), 'h': _lowc(p['h']),
            'k': sorted(([_lowc(k), loose_kv(v)] for k, v in p['k']), key=json.dumps)}


def loose_props(ps):
    return sorted(({'n': _lowc(p['n']), 't': p['t'], 'a': p['a'],
                    'v': loose_kv(p['v']) if p['v'] is not None and 'a' not in p['v'] else p['v'],
                    'co': p.get('co'), 'q': p.get('q'), 'pg': p.get('pg')} for p in ps), key=json.dumps)


def loose_out(o):
    """outcome modulo what the property does not constrain: lexical case of names, order of keybindings,
    order of the enumerated objects"""
    if 'ok' not in o or o['ok'] is None:
        return o
    ok = o['ok']
    if 'path' in ok:
        return {'ok': {'path': loose_path(ok['path'])}}
    li = lambda i: {'c': _lowc(i['c']), 'path': loose_path(i['path']), 'p': loose_props(i['p']), 'q': i.get('q')}
    if 'inst' in ok:
        return {'ok': {'inst': li(ok['inst'])}}
    if 'insts' in ok:
        return {'ok': {'insts': sorted((li(i) for i in ok['insts']), key=json.dumps)}}
    return {'ok': {'paths': sorted((loose_path(p) for p in ok['paths']), key=json.dumps)}}


def loose_state(st):
    return [{'name': _lowc(e['name']),
             'insts': sorted(({'key': loose_path(s['key']), 'path': loose_path(s['path']),
                               'inst': {'c': _lowc(s['inst']['c']), 'p': loose_props(s['inst']['p']),
                                        'q': s['inst'].get('q')}} for s in e['insts']),
                             key=json.dumps)} for e in st]


def canon_model_state(st):
    return [{'name': e['name'], 'insts': [{'key': s['key'], 'path': s['path'],
                                           'inst': dict(s['inst'], p=sort_props(s['inst']['p']))} for s in e['insts']]}
            for e in st]


# --------------------------------------------------------------------------------------------- history generator

def recase(rng, s):
    if s is None:
        return None
    m = rng.random()
    if m < 0.3:
        return s.upper()
    if m < 0.6:
        return s.lower()
    return ''.join(c.upper() if rng.random() < 0.5 else c.lower() for c in s)


FAULT_STATS = {}


class Gen:
    """generates one history (list of JSON-able op specs) for a schema; independent of any execution"""

    def __init__(self, rng, schema, thorough):
        self.rng, self.schema, self.thorough = rng, schema, thorough
        self.info = class_info(schema['mof'])
        self.names = list(self.info)
        self.nss = [n['name'] for n in schema['nss']]
        self.dirty = False
        self.fault_rate = 0.2
        self.calm = False
        self.count_fault = None
        self.pool = []       # instance descriptors that were (tried to be) created: {'ns','cls','keys':[(n,t,v)],'props'}

    def ns_variant(self, ns):
        r = self.rng.random()
        if self.calm:
            r *= 0.9
        if r < 0.70:
            return ns
        if r < 0.88:
            return recase(self.rng, ns)
        if r < 0.94:
            return 'root/doesnotexist'
        return self.rng.choice(self.nss)

    def opt_ns(self, ns):
        """namespace argument: None stands for the default namespace"""
        if ns.lower() == self.schema['default'].lower() and self.rng.random() < 0.4:
            return None
        return self.ns_variant(ns)

    def cls_variant(self, name):
        r = self.rng.random()
        if self.calm:
            r *= 0.88
        if r < 0.65:
            return name
        if r < 0.85:
            return recase(self.rng, name)
        if r < 0.92:
            return 'No_Such_Class'
        return self.rng.choice(self.names)

    def value(self, p, ns):
        """raw value for property declaration p (may be None)"""
        rng = self.rng
        if p['t'] == 'reference':
            return self.ref_value(p, ns)
        if rng.random() < 0.08:
            return None
        if p.get('ei') or p.get('eo'):
            one = lambda: self.emb_value(p)
            return [one() for _ in range(rng.randint(0, 2))] if p['a'] else one()
        if p['t'] == 'string' and not p['a'] and not p.get('key') and rng.random() < 0.02:
            self.dirty = True
            return self.emb_value(p)            # embedded object in a plain string property
        if p['a']:
            return [None if rng.random() < 0.1 else gen_raw(rng, p['t']) for _ in range(rng.randint(0, 3))]
        return gen_raw(rng, p['t'])

    def emb_value(self, p):
        """raw embedded object for a property declared with EmbeddedInstance(cls) / EmbeddedObject"""
        rng = self.rng
        plain = [n for n in self.names if not self.info[n]['assoc']]
        decl = p.get('ei')
        r = rng.random()
        if p.get('eo') and r < 0.25:
            return {'emb': 'cls', 'cls': rng.choice(self.names + ['Unknown_Class'])}
        if decl and r < 0.75:
            fam = [n for n in plain if n.lower() == decl.lower() or
                   decl.lower() in [a.lower() for a in self.info[n]['ancestors']]]
            cn = rng.choice(fam) if fam else decl
            cn = recase(rng, cn) if rng.random() < 0.2 else cn
        elif r < 0.92:
            cn = rng.choice(plain)
            if decl:
                self.dirty = True
        else:
            cn = 'Unknown_Class'
            if decl:
                self.dirty = True
        c = self.info.get(cn)
        props = []
        if c:
            for q in c['props']:
                if q['t'] != 'reference' and not q['a'] and not q.get('ei') and not q.get('eo') and rng.random() < 0.5:
                    props.append([q['n'], q['t'], gen_raw(rng, q['t'])])
        return {'emb': 'inst', 'cls': cn, 'props': props}

    def ref_value(self, p, ns):
        """path spec for a reference property: mostly an existing instance of a suitable class"""
        rng = self.rng
        r = rng.random()
        cands = [d for d in self.pool if not self.info[d['cls']]['assoc']]
        same = [d for d in cands if d['ns'].lower() == ns.lower()]
        if r < 0.03:
            self.dirty = True
            return None
        if cands and r < 0.97:
            d = rng.choice(same if same and rng.random() < 0.6 else cands)
            ps = self.path_of(d)
        else:
            self.dirty = True
            root = p.get('refcls') or rng.choice(self.names)
            root = root if root in self.info else rng.choice(self.names)
            ps = {'cls': root, 'ns': ns, 'host': None,
                  'keys': [[q['n'], q['t'], gen_raw(rng, q['t'])] for q in self.info[root]['props']
                           if q['key'] and q['t'] != 'reference']}
        r2 = rng.random()
        if r2 < 0.12:
            ps['ns'] = recase(rng, ps['ns'])
        elif r2 < 0.19:
            self.dirty = True
            r3 = rng.random()
            if r3 < 0.2:
                ps['ns'] = None
            elif r3 < 0.4:
                ps['host'] = 'srv1:5989'
            elif r3 < 0.6:
                ps['ns'] = 'root/doesnotexist'
            elif r3 < 0.85 and ps['keys']:
                ps['keys'][0][2] = gen_raw(rng, ps['keys'][0][1])
            else:
                ps['keys'] = []
        return ps

    def path_of(self, d):
        return {'cls': d['cls'], 'ns': d['ns'], 'host': None, 'keys': [list(k) for k in d['keys']]}

    def path_variant(self, ps):
        """existing / recased / reordered / damaged variants of a path"""
        rng = self.rng
        ps = copy.deepcopy(ps)
        n = rng.choice([0, 0, 0, 1, 1, 2, 3])
        damaging = rng.random() < 0.3          # otherwise only variants that must not change the outcome
        for _ in range(n):
            r = rng.random()
            if not damaging:
                r = rng.choice([0.1, 0.2, 0.35, 0.57, 0.62, 0.92, 0.97, 0.5])
                if r == 0.5:
                    ps['ns'] = recase(rng, ps['ns']) if ps['ns'] else ps['ns']
                    continue
            if r < 0.16:
                ps['cls'] = recase(rng, ps['cls'])
            elif r < 0.30:
                ps['keys'] = [[recase(rng, k), t, v] for k, t, v in ps['keys']]
            elif r < 0.42:
                rng.shuffle(ps['keys'])
            elif r < 0.54:
                ps['ns'] = self.ns_variant(ps['ns']) if ps['ns'] else ps['ns']
            elif r < 0.60 and ps['ns'] and ps['ns'].lower() == self.schema['default'].lower():
                ps['ns'] = None
            elif r < 0.66:
                ps['host'] = 'Host-9'
            elif r < 0.74 and ps['keys']:
                i = rng.randrange(len(ps['keys']))
                k, t, v = ps['keys'][i]
                if t == 'reference':
                    if v is not None and v['keys']:
                        v = copy.deepcopy(v)
                        v['keys'][0][2] = gen_raw(rng, v['keys'][0][1])
                else:
                    v = gen_raw(rng, t)
                ps['keys'][i] = [k, t, v]
            elif r < 0.79 and ps['keys']:
                ps['keys'].pop(rng.randrange(len(ps['keys'])))
            elif r < 0.83:
                ps['keys'].append(['Extra', 'string', 'x'])
            elif r < 0.90:
                # same keys under a related or unrelated class name
                c = self.info.get(ps['cls'])
                rel = (c['ancestors'] if c else []) + [n_ for n_, d in self.info.items() if c and ps['cls'] in d['ancestors']]
                ps['cls'] = rng.choice(rel) if rel and rng.random() < 0.7 else self.cls_variant(ps['cls'])
            elif r < 0.95 and ps['keys']:
                # numeric keys as plain python ints / bools as ints
                ps['keys'] = [[k, ('pyint' if t in INT_RANGE else t), v] for k, t, v in ps['keys']]
            else:
                for kk in ps['keys']:
                    if kk[1] == 'reference' and kk[2] is not None:
                        kk[2] = dict(kk[2], ns=recase(rng, kk[2].get('ns')))
        return ps

    def some_path(self):
        rng = self.rng
        if self.pool and rng.random() < 0.92:
            return self.path_variant(self.path_of(rng.choice(self.pool)))
        cn = rng.choice(self.names)
        ns = rng.choice(self.nss)
        keys = [[q['n'], q['t'], gen_raw(rng, q['t']) if q['t'] != 'reference' else self.ref_value(q, ns)]
                for q in self.info[cn]['props'] if q['key']]
        return {'cls': self.cls_variant(cn), 'ns': self.ns_variant(ns), 'host': None,
                'keys': [k for k in keys if k[2] is not None]}

    def proplist(self, cinfo):
        rng = self.rng
        r = rng.random()
        if r < 0.45:
            return None
        names = [p['n'] for p in cinfo['props']] if cinfo else ['x']
        k = rng.randint(0, len(names))
        pl = [recase(rng, n) if rng.random() < 0.3 else n for n in rng.sample(names, k)]
        if rng.random() < 0.12:
            pl.append('NoSuchProp')
        if pl and rng.random() < 0.1:
            pl.append(pl[0])
        return pl

    def fault(self, props, prob, keynames=()):
        """with probability prob: one wrong type / wrong arrayness / undeclared property.  In four of ten cases the
        mistyped property carries the value NULL with an explicit (wrong) type or arrayness: the type-related
        attributes must be checked whatever the value is (a NULL key would be refused anyway, so non-key properties
        are preferred for that variant)."""
        rng = self.rng
        if rng.random() >= prob:
            return
        self.dirty = True
        cands = [p for p in props if p['t'] != 'reference' and not isinstance(p['v'], dict)
                 and not (isinstance(p['v'], list) and any(isinstance(x, dict) for x in p['v']))]
        null = rng.random() < 0.4
        if null:
            keys = [k.lower() for k in keynames]
            nonkey = [p for p in cands if p['n'].lower() not in keys]
            cands = nonkey or cands
        r = rng.random()
        if r < 0.4 and cands:
            p = rng.choice(cands)
            nt = rng.choice([t for t in ALL_TYPES if t != p['t']])
            p['t'] = nt
            p['v'] = None if null else (gen_raw(rng, nt) if not p['a'] else [gen_raw(rng, nt)])
            self.count_fault = 'wrong_type_null' if null else 'wrong_type'
            FAULT_STATS[self.count_fault] = FAULT_STATS.get(self.count_fault, 0) + 1
        elif r < 0.7 and cands:
            p = rng.choice(cands)
            p['a'] = not p['a']
            p['v'] = None if null else ([gen_raw(rng, p['t'])] if p['a'] else gen_raw(rng, p['t']))
            self.count_fault = 'wrong_arrayness_null' if null else 'wrong_arrayness'
            FAULT_STATS[self.count_fault] = FAULT_STATS.get(self.count_fault, 0) + 1
        else:
            props.append({'n': 'Undeclared', 't': 'string', 'a': False, 'v': None if null else 'u'})
            self.count_fault = 'undeclared_null' if null else 'undeclared'
            FAULT_STATS[self.count_fault] = FAULT_STATS.get(self.count_fault, 0) + 1

    def op_create(self, force_cls=None, force_ns=None):
        rng = self.rng
        cn = force_cls or rng.choice(self.names)
        if force_cls is None and self.info[cn]['assoc'] and rng.random() < 0.85 and \
                len([d for d in self.pool if not self.info[d['cls']]['assoc']]) < 2:
            cn = rng.choice([n for n in self.names if not self.info[n]['assoc']])
        c = self.info[cn]
        ns = force_ns or rng.choice(self.nss)
        props, keys = [], []
        dup = None
        self.dirty = False
        if self.pool and rng.random() < 0.15:
            dup = rng.choice(self.pool)
            cn, c, ns = dup['cls'], self.info[dup['cls']], dup['ns']
        for p in c['props']:
            if p['key']:
                if dup is not None:
                    kv = [k for k in dup['keys'] if k[0] == p['n']]
                    v = copy.deepcopy(kv[0][2]) if kv else self.value(p, ns)
                else:
                    v = self.value(p, ns)
                    for _ in range(3):
                        if v is None and rng.random() < 0.9:
                            v = self.value(p, ns)
                if rng.random() < 0.02:
                    self.dirty = True
                    continue                           # missing key
                props.append({'n': p['n'], 't': p['t'], 'a': p['a'], 'v': v})
                keys.append([p['n'], p['t'], v])
            elif rng.random() < 0.7:
                props.append({'n': p['n'], 't': p['t'], 'a': p['a'], 'v': self.value(p, ns)})
        # case variants (harmless) and, for about one instance in five, one fault
        for p in props:
            if rng.random() < 0.15:
                p['n'] = recase(rng, p['n'])
        self.fault(props, self.fault_rate, [k[0] for k in keys])
        rng.shuffle(props) if rng.random() < 0.3 else None
        icls = self.cls_variant(cn)
        nsarg = self.opt_ns(ns)
        if icls.lower() != cn.lower() or (nsarg is not None and nsarg.lower() != ns.lower()) or \
                cn in [x for n_ in self.schema['nss'] if n_['name'].lower() == ns.lower() for x in n_['drop']]:
            self.dirty = True
        ispec = {'cls': icls, 'props': props}
        if all(k[2] is not None for k in keys) and (not self.dirty or rng.random() < 0.25):
            self.pool.append({'ns': ns, 'cls': cn, 'keys': keys})
            # an association whose ends name other namespaces also lives there: address those copies too
            for p in props:
                if p['t'] == 'reference' and isinstance(p['v'], dict) and p['v'].get('ns') and \
                        p['v']['ns'].lower() != ns.lower() and p['v']['ns'].lower() in [n.lower() for n in self.nss]:
                    self.pool.append({'ns': p['v']['ns'], 'cls': cn, 'keys': keys})
        return {'op': 'create', 'ns': nsarg, 'inst': ispec}

    def op_modify(self):
        rng = self.rng
        ps = self.some_path()
        cn = ps['cls'] if ps['cls'] in self.info else next((n for n in self.names if n.lower() == ps['cls'].lower()), None)
        c = self.info.get(cn)
        props = []
        base_ns = ps['ns'] or self.schema['default']
        if c:
            for p in c['props']:
                r = rng.random()
                if p['key']:
                    if r < 0.35:
                        kv = [k for k in ps['keys'] if k[0].lower() == p['n'].lower()]
                        v = copy.deepcopy(kv[0][2]) if kv and rng.random() < 0.85 else self.value(p, base_ns)
                        t = p['t']
                        props.append({'n': p['n'], 't': t, 'a': p['a'], 'v': v})
                elif r < 0.5:
                    props.append({'n': p['n'], 't': p['t'], 'a': p['a'], 'v': self.value(p, base_ns)})
        for p in props:
            if rng.random() < 0.15:
                p['n'] = recase(rng, p['n'])
        self.fault(props, 0.12, [p_['n'] for p_ in (c['props'] if c else []) if p_['key']])
        icls = ps['cls']
        r = rng.random()
        if r < 0.15:
            icls = recase(rng, icls)
        elif r < 0.20:
            icls = self.cls_variant(icls)
        return {'op': 'modify', 'path': ps, 'inst': {'cls': icls, 'props': props}, 'pl': self.proplist(c)}

    def op_any(self):
        rng = self.rng
        r = rng.random()
        if r < 0.30 or not self.pool:
            return self.op_create()
        if r < 0.48:
            return self.op_modify()
        if r < 0.58:
            return {'op': 'delete', 'path': self.some_path()}
        if r < 0.74:
            ps = self.some_path()
            return {'op': 'get', 'path': ps, 'pl': self.proplist(self.info.get(ps['cls']))}
        cn = rng.choice(self.names)
        ns = rng.choice(self.nss)
        if r < 0.88:
            return {'op': 'enum', 'ns': self.opt_ns(ns), 'cls': self.cls_variant(cn),
                    'di': rng.choice([None, None, True, False]), 'pl': self.proplist(self.info[cn])}
        return {'op': 'names', 'ns': self.opt_ns(ns), 'cls': self.cls_variant(cn)}

    def history(self):
        n = self.rng.randint(4, 25)
        return [self.decorate(self.op_any()) for _ in range(n)]

    def slashes(self, ns):
        rng = self.rng
        if ns is None or rng.random() >= 0.1:
            return ns
        return rng.choice(['/', '//', '']) + ns + rng.choice(['/', '///', ''])

    def opt(self):
        r = self.rng.random()
        return None if r < 0.5 else True if r < 0.74 else False if r < 0.985 else 'other'

    def decorate(self, op):
        """client-side variation that must not change the request: namespace with slashes or taken from the object,
        class name as CIMClassName, PropertyList as string / tuple, the retrieval options, attributes of the
        properties (class origin, qualifiers, propagated); and, rarely, arguments of a wrong Python type"""
        rng = self.rng
        kind = op['op']
        if kind in ('create', 'modify'):
            for p in op['inst']['props']:
                if rng.random() < 0.15:
                    p['co'] = rng.choice(self.names + ['Some_Other_Class', ''])
                if rng.random() < 0.10:
                    p['q'] = True
                if rng.random() < 0.15:
                    p['pg'] = rng.random() < 0.5
            if rng.random() < 0.10:
                op['inst']['q'] = True
        if kind in ('create', 'enum', 'names'):
            op['ns'] = self.slashes(op['ns'])
        if kind == 'create' and rng.random() < 0.1:
            op['ipathns'] = True
        if kind in ('enum', 'names'):
            op['clsform'] = rng.choice(['str'] * 7 + ['cn', 'cn_ns', 'cn_ns'])
        if kind in ('modify', 'get', 'enum'):
            r = rng.random()
            pl = op.get('pl')
            op['plform'] = ('str' if pl is not None and len(pl) == 1 and r < 0.5 else 'tuple' if r < 0.2 else
                            'baditem' if r > 0.985 and pl is not None else 'other' if r > 0.975 and r <= 0.985 else 'list')
        if kind == 'modify':
            op['iq'] = self.opt()
        if kind in ('get', 'enum'):
            for k in ('lo', 'iq', 'ico'):
                op[k] = self.opt()
            if kind == 'enum' and rng.random() < 0.01:
                op['di'] = 'other'
        if rng.random() < 0.025:
            op['badarg'] = rng.choice({'create': ['inst', 'ns'], 'modify': ['inst', 'nopath', 'nopath'],
                                       'delete': ['name_none', 'name_str', 'name_cls'],
                                       'get': ['name_none', 'name_str', 'name_cls'],
                                       'enum': ['cls', 'ns'], 'names': ['cls', 'ns']}[kind])
        return op

    def multins_history(self):
        """directed stream: association instances whose ends lie in other namespaces, then operations on every copy"""
        rng = self.rng
        assocs = [n for n in self.names if self.info[n]['assoc']]
        plain = [n for n in self.names if not self.info[n]['assoc']]
        if len(self.nss) < 2 or not assocs or not plain:
            return self.history()
        ops = []
        self.fault_rate = 0.05
        self.calm = True
        for _ in range(rng.randint(2, 5)):                       # end points in at least two namespaces
            ops.append(self.op_create(force_cls=rng.choice(plain), force_ns=rng.choice(self.nss[:2] if rng.random() < 0.8 else self.nss)))
        for _ in range(rng.randint(1, 3)):
            ops.append(self.op_create(force_cls=rng.choice(assocs), force_ns=rng.choice(self.nss)))
        whole = self.pool
        for _ in range(rng.randint(5, 14)):
            r = rng.random()
            only_assoc = [d for d in whole if self.info[d['cls']]['assoc']]
            self.pool = only_assoc if only_assoc and 0.12 <= r < 0.75 else whole
            if r < 0.12:
                ops.append(self.op_create(force_cls=rng.choice(assocs), force_ns=rng.choice(self.nss)))
            elif r < 0.40:
                ops.append(self.op_modify())
            elif r < 0.60:
                ops.append({'op': 'delete', 'path': self.some_path()})
            elif r < 0.80:
                ps = self.some_path()
                ops.append({'op': 'get', 'path': ps, 'pl': self.proplist(self.info.get(ps['cls']))})
            else:
                ops.append({'op': rng.choice(['names', 'enum', 'names']), 'ns': self.opt_ns(rng.choice(self.nss)),
                            'cls': self.cls_variant(rng.choice(assocs)), 'di': None, 'pl': None})
                if ops[-1]['op'] == 'names':
                    del ops[-1]['di'], ops[-1]['pl']
            self.pool = whole
        return [self.decorate(o) for o in ops]


def gen_schema(rng, mofs):
    mof = rng.choice(mofs)
    info = class_info(mof)
    names = ['root/a', 'Root/B', 'test/C3']
    k = rng.choice([1, 2, 2, 3])
    nss = []
    for i in range(k):
        drop = []
        if i > 0 and rng.random() < 0.4:
            # drop one class that nothing else (in this namespace) depends on
            leaves = [n for n, d in info.items()
                      if not any(n in e['ancestors'] for e in info.values())
                      and not any(p.get('refcls') and p['refcls'].lower() == n.lower() for e in info.values() for p in e['props'])]
            if leaves:
                drop = [rng.choice(leaves)]
        nss.append({'name': names[i], 'drop': drop})
    return {'mof': mof, 'nss': nss, 'default': nss[0]['name']}


# --------------------------------------------------------------------------------------------- execution on the real code

def mutate_path(rng, p):
    """client-side damage of a CIMInstanceName (in place, including nested reference values)"""
    import pywbem
    for k in list(p.keybindings.keys()):
        v = p.keybindings[k]
        if isinstance(v, pywbem.CIMInstanceName):
            mutate_path(rng, v)
        else:
            p.keybindings[k] = 'mutated'
    p.keybindings['Injected'] = 'zz'
    p.classname = 'Mutated_' + p.classname
    p.namespace = 'mutated/ns'
    p.host = 'mutated-host'


def mutate_inst(rng, i):
    import pywbem
    for name in list(i.properties.keys()):
        pr = i.properties[name]
        v = pr.value
        if isinstance(v, list):
            v.append('mut')               # in place: the list object itself
        elif isinstance(v, pywbem.CIMInstanceName):
            mutate_path(rng, v)
        elif isinstance(v, pywbem.CIMInstance):
            v.classname = 'Mutated_' + v.classname
            v.properties['Injected'] = pywbem.CIMProperty('Injected', 'zz')
        pr.value = None
        pr.name = 'M' + pr.name
    i.properties['Injected'] = pywbem.CIMProperty('Injected', 'zz')
    i.classname = 'Mutated_' + i.classname
    if i.path is not None:
        mutate_path(rng, i.path)


OTHER = {'other': True}


# ------------------------------------------------------------------ identities of the mutable objects (isolation)

def _objs_of_path(p, out):
    """every mutable Python object a CIMInstanceName consists of"""
    import pywbem
    out.append(p)
    out.append(p.keybindings)
    for v in p.keybindings.values():
        if isinstance(v, pywbem.CIMInstanceName):
            _objs_of_path(v, out)


def _objs_of_value(v, out):
    import pywbem
    if isinstance(v, list):
        out.append(v)
        for x in v:
            _objs_of_value(x, out)
    elif isinstance(v, pywbem.CIMInstanceName):
        _objs_of_path(v, out)
    elif isinstance(v, pywbem.CIMInstance):
        _objs_of_inst(v, out)


def _objs_of_inst(i, out):
    out.append(i)
    out.append(i.properties)
    out.append(i.qualifiers)
    out.extend(i.qualifiers.values())
    for pr in i.properties.values():
        out.append(pr)
        out.append(pr.qualifiers)
        out.extend(pr.qualifiers.values())
        _objs_of_value(pr.value, out)
    if i.path is not None:
        _objs_of_path(i.path, out)


def objs_of(o):
    import pywbem
    out = []
    if isinstance(o, pywbem.CIMInstance):
        _objs_of_inst(o, out)
    elif isinstance(o, pywbem.CIMInstanceName):
        _objs_of_path(o, out)
    return out


def store_objs(conn):
    out = []
    for ns in conn.namespaces:
        for k, v in conn.cimrepository.get_instance_store(ns)._data.items():   # noqa
            _objs_of_path(k, out)
            _objs_of_inst(v, out)
    return out


def nodes_of(o):
    """the nodes of Model/StoreAlias.lean: (python object standing for the node) in the order of InstO.nodes / PathO.nodes"""
    import pywbem
    if isinstance(o, pywbem.CIMInstanceName):
        return [o] + [v for v in o.keybindings.values() if isinstance(v, pywbem.CIMInstanceName)]
    out = [o]
    for pr in o.properties.values():
        out.append(pr)
        if isinstance(pr.value, (list, pywbem.CIMInstanceName, pywbem.CIMInstance)):
            out.append(pr.value)
    if o.path is not None:
        out += nodes_of(o.path)
    return out


def shape_of(o, num):
    """model shape of a client object; num: id(obj) -> client node number"""
    import pywbem

    def n(x):
        return num.setdefault(id(x), len(num))
    if isinstance(o, pywbem.CIMInstanceName):
        return {'id': n(o), 'kids': [n(v) for v in o.keybindings.values() if isinstance(v, pywbem.CIMInstanceName)]}
    return {'id': n(o),
            'props': [{'id': n(pr), 'vals': [n(pr.value)] if isinstance(pr.value, (list, pywbem.CIMInstanceName, pywbem.CIMInstance)) else []}
                      for pr in o.properties.values()],
            'path': None if o.path is None else shape_of(o.path, num)}


def arg_ns(ns, other=False):
    """namespace argument -> (python value, call JSON)"""
    if other:
        return 5, OTHER
    return ns, (None if ns is None else common.cps(ns))


def arg_bool(v):
    if v == 'other':
        return 'yes', OTHER
    return v, v


def arg_pl(pl, form):
    """PropertyList -> (python value, call JSON); form: list / tuple / str (one name) / baditem / other"""
    if form == 'other':
        return 5, OTHER
    if pl is None:
        return None, None
    if form == 'baditem':
        return list(pl) + [5], {'baditem': True}
    if form == 'str' and len(pl) == 1:
        return pl[0], {'s': common.cps(pl[0])}
    if form == 'tuple':
        return tuple(pl), [common.cps(x) for x in pl]
    return list(pl), [common.cps(x) for x in pl]


def execute(schema, ops, mutate=True):
    """run the op specs on a fresh real repository -> (model request, canonical real outcomes, final state)"""
    import pywbem
    conn = build_conn(schema)
    rng = random.Random(0)
    calls, outs = [], []
    held, client_ids, iso, num = [], set(), None, {}     # objects the client holds (kept alive), their identities
    alias_ops, alias_real, model_entries = [], [], 0
    for op in ops:
        kind = op['op']
        bad = op.get('badarg')
        given = []
        kw = {}
        pl = None
        if kind in ('create', 'modify'):
            inst = inst_to_py(op['inst'])
            ij = enc_inst_req(inst)
            ipath = None
            if kind == 'modify':
                path = path_to_py(op['path'])
                if bad != 'nopath':
                    inst.path = path       # assigned after construction: no key propagation into the path
                    ipath = enc_path(path)
                    given.append(path)
                iqv, iqj = arg_bool(op.get('iq'))
                pl, plj = arg_pl(op['pl'], op.get('plform', 'list'))
                call = {'call': 'modify', 'inst': ij, 'ipath': ipath, 'iq': iqj, 'pl': plj}
                kw = {'PropertyList': pl}
                if op.get('iq') is not None:
                    kw['IncludeQualifiers'] = iqv
            else:
                nsv, nsj = arg_ns(op['ns'], bad == 'ns')
                if op.get('ipathns') and op['ns'] is not None and bad is None:
                    inst.path = pywbem.CIMInstanceName(inst.classname, namespace=op['ns'])
                    ipath = enc_path(inst.path)
                    nsv, nsj = None, None
                call = {'call': 'create', 'inst': ij, 'ipath': ipath, 'ns': nsj}
                kw = {'namespace': nsv}
            given.append(inst)
            target = inst
            if bad == 'inst':
                target = rng.choice(['not an instance', None, 5])
                call['inst'] = OTHER
                call['ipath'] = None
        elif kind in ('delete', 'get'):
            path = path_to_py(op['path'])
            given.append(path)
            target = path
            call = {'call': kind, 'name': enc_path(path)}
            if bad in ('name_none', 'name_str', 'name_cls'):
                target = {'name_none': None, 'name_str': 'TST_P.k=1', 'name_cls': pywbem.CIMClassName('TST_P')}[bad]
                call['name'] = OTHER
            if kind == 'get':
                pl, plj = arg_pl(op['pl'], op.get('plform', 'list'))
                call['pl'] = plj
                kw = {'PropertyList': pl}
                for k_, a_ in (('lo', 'LocalOnly'), ('iq', 'IncludeQualifiers'), ('ico', 'IncludeClassOrigin')):
                    v_, j_ = arg_bool(op.get(k_))
                    call[k_] = j_
                    if op.get(k_) is not None:
                        kw[a_] = v_
        else:
            nsv, nsj = arg_ns(op['ns'], bad == 'ns')
            form = op.get('clsform', 'str')
            if bad == 'cls':
                target, clsj = rng.choice([None, 5]), OTHER
            elif form == 'cn':
                target, clsj = pywbem.CIMClassName(op['cls']), {'cn': common.cps(op['cls']), 'ns': None}
            elif form == 'cn_ns' and op['ns'] is not None and bad is None:
                target = pywbem.CIMClassName(op['cls'], namespace=op['ns'])
                clsj = {'cn': common.cps(op['cls']), 'ns': None if target.namespace is None else common.cps(target.namespace)}
                nsv, nsj = None, None
            else:
                target, clsj = op['cls'], common.cps(op['cls'])
            call = {'call': kind, 'cls': clsj, 'ns': nsj}
            kw = {'namespace': nsv}
            if kind == 'enum':
                pl, plj = arg_pl(op['pl'], op.get('plform', 'list'))
                call['pl'] = plj
                kw['PropertyList'] = pl
                for k_, a_ in (('lo', 'LocalOnly'), ('di', 'DeepInheritance'), ('iq', 'IncludeQualifiers'),
                               ('ico', 'IncludeClassOrigin')):
                    v_, j_ = arg_bool(op.get(k_))
                    call[k_] = j_
                    if op.get(k_) is not None:
                        kw[a_] = v_
        calls.append(call)
        handed = []
        try:
            if kind == 'create':
                res = conn.CreateInstance(target, **kw)
                out = {'ok': {'path': enc_path(res)}}
                handed = [res]
            elif kind == 'modify':
                conn.ModifyInstance(target, **kw)
                out = {'ok': None}
            elif kind == 'delete':
                conn.DeleteInstance(target)
                out = {'ok': None}
            elif kind == 'get':
                res = conn.GetInstance(target, **kw)
                out = {'ok': {'inst': enc_rinst(res)}}
                handed = [res]
            elif kind == 'enum':
                res = conn.EnumerateInstances(target, **kw)
                out = {'ok': {'insts': [enc_rinst(i) for i in res]}}
                handed = list(res)
            else:
                res = conn.EnumerateInstanceNames(target, **kw)
                out = {'ok': {'paths': [enc_path(p) for p in res]}}
                handed = list(res)
        except Exception as e:  # noqa
            out = common.exc_json(e)
        outs.append(out)
        # ---- isolation by identity: nothing the repository holds is an object the client holds
        input_nodes = [x for o in given for x in nodes_of(o)] if 'ok' in out else []
        handed_nodes = [x for o in handed for x in nodes_of(o)]
        for o in given + handed:
            for x in objs_of(o):
                held.append(x)
                client_ids.add(id(x))
        if iso is None:
            shared = [type(x).__name__ for x in store_objs(conn) if id(x) in client_ids]
            if shared:
                iso = {'index': len(outs) - 1, 'op': kind, 'shared': sorted(set(shared))}
        # ---- the same operation for the alias model (successful operations only)
        if 'ok' in out:
            a = None
            if kind == 'create':
                a = {'a': 'create', 'x': shape_of(given[-1], num), 'keys': []}
                model_entries += 1
            elif kind == 'modify' and model_entries:
                a = {'a': 'modify', 'x': shape_of(given[-1], num), 'idx': 0, 'others': 0}
            elif kind == 'delete' and model_entries:
                a = {'a': 'delete', 'idx': 0}
                model_entries -= 1
            elif kind == 'get' and model_entries:
                a = {'a': 'get', 'name': shape_of(given[0], num), 'idx': 0}
            elif kind == 'enum' and model_entries and handed:
                a = {'a': 'enumInsts', 'idxs': [0] * len(handed)}
            elif kind == 'names' and model_entries and handed:
                a = {'a': 'enumNames', 'idxs': [0] * len(handed)}
            if a is not None:
                inp = set(id(x) for x in input_nodes)
                earlier = alias_real[-1]['_seen'] if alias_real else set()
                alias_ops.append(a)
                alias_real.append({'sharedWithInput': sum(1 for x in handed_nodes if id(x) in inp),
                                   'sharedWithEarlier': sum(1 for x in handed_nodes if id(x) in earlier),
                                   '_seen': earlier | set(id(x) for x in handed_nodes)})
        if mutate:
            for o in given + handed:
                if isinstance(o, pywbem.CIMInstance):
                    mutate_inst(rng, o)
                elif isinstance(o, pywbem.CIMInstanceName):
                    mutate_path(rng, o)
            if isinstance(pl, list):
                pl.append('mutated')
    req = {'dflt': common.cps(conn.default_namespace), 'nss': model_nss(conn), 'calls': calls}
    req['ops'] = [call_to_op(c) for c in calls]      # for the oracle only (the driver reads "calls")
    req['iso'] = iso
    req['alias'] = {'ops': alias_ops, 'real': [{k: v for k, v in r_.items() if not k.startswith('_')} for r_ in alias_real]}
    return req, outs, dump_state(conn)


def _strip(cpsl):
    s_ = common.from_cps(cpsl).strip('/')
    return common.cps(s_)


def call_to_op(call):
    """independent re-statement of the client-side argument handling (WBEMConnection methods before _imethodcall):
    the request in the form RefMap.expect reads, or ('exc', name) for the documented TypeError / ValueError"""
    def is_other(x):
        return isinstance(x, dict) and x.get('other')

    def ns_of(x):
        if is_other(x):
            raise TypeError
        return None if x is None else _strip(x)

    def bool_of(x):
        if is_other(x):
            raise TypeError
        return x

    def pl_of(x):
        if x is None:
            return None
        if isinstance(x, dict):
            if x.get('other') or x.get('baditem'):
                raise TypeError
            return [x['s']]
        return list(x)

    def cls_of(x):
        if is_other(x):
            raise TypeError
        return x['cn'] if isinstance(x, dict) else x

    kind = call['call']
    try:
        if kind == 'create':
            ns = call['ns']
            if ns is None and not is_other(call['inst']) and call['ipath'] is not None and call['ipath']['n'] is not None:
                ns = call['ipath']['n']
            ns = ns_of(ns)
            if is_other(call['inst']):
                raise TypeError
            return {'op': 'create', 'ns': ns, 'inst': call['inst']}
        if kind == 'modify':
            if is_other(call['inst']):
                raise TypeError
            if call['ipath'] is None:
                raise ValueError
            bool_of(call['iq'])
            return {'op': 'modify', 'path': call['ipath'], 'inst': call['inst'], 'pl': pl_of(call['pl'])}
        if kind in ('delete', 'get'):
            if is_other(call['name']):
                raise TypeError
            if kind == 'delete':
                return {'op': 'delete', 'path': call['name']}
            for k in ('lo', 'iq', 'ico'):
                bool_of(call[k])
            return {'op': 'get', 'path': call['name'], 'pl': pl_of(call['pl'])}
        ns = call['ns']
        if ns is None and isinstance(call['cls'], dict) and not is_other(call['cls']) and call['cls']['ns'] is not None:
            ns = call['cls']['ns']
        ns = ns_of(ns)
        cls = cls_of(call['cls'])
        if kind == 'names':
            return {'op': 'names', 'ns': ns, 'cls': cls}
        for k in ('lo', 'di', 'iq', 'ico'):
            bool_of(call[k])
        return {'op': 'enum', 'ns': ns, 'cls': cls, 'di': call['di'], 'pl': pl_of(call['pl'])}
    except TypeError:
        return ('exc', 'TypeError')
    except ValueError:
        return ('exc', 'ValueError')


def enc_inst_req(inst):
    """request instance: properties in dict order (the model keeps the order; results are compared sorted)"""
    return {'c': common.cps(inst.classname), 'p': [enc_prop(p) for p in inst.properties.values()],
            'q': bool(inst.qualifiers)}


# --------------------------------------------------------------------------------------------- the oracle: reference map

def low(cpsl):
    return tuple(c + 32 if 65 <= c <= 90 else c for c in cpsl)


def nscalar(v):
    if 'b' in v:
        return ('i', '1' if v['b'] else '0')
    if 'i' in v:
        return ('i', v['i'])
    if 's' in v:
        return ('s', tuple(v['s']))
    return ('o', tuple(v['o'][0]), tuple(v['o'][1]))


def nkv(v):
    if 'r' in v:
        return ('r', npath(v['r']))
    return nscalar(v)


def npath(p, ns=None, keep_host=True):
    n = p['n'] if ns is None else ns
    return (low(p['c']), None if n is None else low(n), (None if p['h'] is None else low(p['h'])) if keep_host else None,
            frozenset((low(k), nkv(v)) for k, v in p['k']))


def mkkey(p, ns):
    """key of the reference map: (class, namespace, no host, keybindings as a set), all names lower-cased"""
    return (low(p['c']), ns, None, frozenset((low(k), nkv(v)) for k, v in p['k']))


def nval(v):
    if v is None:
        return None
    if 'e' in v:
        return ('e', v['e'][0], tuple(v['e'][1]), tuple(v['e'][2]))
    if 'a' in v:
        return ('a', tuple(None if x is None else nscalar(x) for x in v['a']))
    return nkv(v)


def nprops(props, pl=None):
    """properties as a map: lower name -> (name as stored, type, arrayness, normalised value)"""
    d = {}
    for p in props:
        if pl is None or low(p['n']) in pl:
            d[low(p['n'])] = (tuple(p['t']), p['a'], nval(p['v']), p.get('pg'))
    return d


REFT = tuple(common.cps('reference'))


class RefMap:
    """the reference map of the property: (namespace, creation class, keybindings) -> properties"""

    def __init__(self, req):
        self.dflt = low(req['dflt'])
        self.classes = {}
        for e in req['nss']:
            self.classes[low(e['name'])] = {low(c['name']): c for c in e['classes']}
        self.map = {ns: {} for ns in self.classes}       # ns -> {key: props(dict lower name -> prop json)}

    def eff(self, ns):
        return self.dflt if ns is None else low(ns)

    def decl(self, c, name):
        for d in c['props']:
            if low(d['n']) == low(name):
                return d
        return None

    def descends(self, ns, cname, target):
        seen = 0
        while cname is not None and seen < 50:
            if cname == target:
                return True
            c = self.classes[ns].get(cname)
            cname = None if c is None or c['super'] is None else low(c['super'])
            seen += 1
        return False

    def is_subclass(self, ns, k, sup):
        """None when a class is not in the repository of the namespace"""
        for _ in range(60):
            kc = self.classes[ns].get(k)
            if kc is None:
                return None
            if k == sup:
                return True
            if kc['super'] is None:
                return False if sup in self.classes[ns] else None
            k = low(kc['super'])
        return None

    def valid(self, c, p, ns):
        d = self.decl(c, p['n'])
        if d is None or d['t'] != p['t'] or d['a'] != p['a']:
            return False
        v = p['v']
        if v is not None and 'e' in v:
            if v['e'][0]:
                return bool(d.get('eo'))
            if d.get('ei') is not None:
                return self.is_subclass(ns, low(v['e'][1]), low(d['ei'])) is True
            return bool(d.get('eo'))
        return True

    def endpoint_ok(self, v):
        if v is None:
            return True
        if 'r' not in v:
            return False
        p = v['r']
        if p['h']:
            return False
        if p['n'] is None:
            return False
        ns = low(p['n'])
        return ns in self.map and mkkey(p, ns) in self.map[ns]

    def targets(self, c, props, ns):
        out = []
        if c['assoc']:
            for p in props:
                if tuple(p['t']) == REFT and p['v'] is not None and 'r' in p['v']:
                    n = p['v']['r']['n']
                    if n is not None and n and low(n) != ns and low(n) not in out:
                        out.append(low(n))
        return out + [ns]

    @staticmethod
    def key(cname, ns, kbs):
        return (cname, ns, None, frozenset(kbs))

    def expect(self, op):
        """expected outcome of op on the current map: ('err', code) or ('ok', payload); updates the map"""
        kind = op['op']
        if kind == 'create':
            ns = self.eff(op['ns'])
            if ns not in self.classes:
                return ('err', NS_INVALID)
            inst = op['inst']
            c = self.classes[ns].get(low(inst['c']))
            if c is None:
                return ('err', CLS_INVALID)
            if not all(self.valid(c, p, ns) for p in inst['p']):
                return ('err', PARAM)
            if c['assoc'] and not all(self.endpoint_ok(p['v']) for p in inst['p'] if tuple(p['t']) == REFT):
                return ('err', PARAM)
            tg = self.targets(c, inst['p'], ns)
            if not all(t in self.classes and low(inst['c']) in self.classes[t] for t in tg):
                return ('err', CLS_INVALID)
            byname = {low(p['n']): p for p in inst['p']}
            kbs = []
            for d in c['props']:
                if d['key']:
                    p = byname.get(low(d['n']))
                    if p is None or p['v'] is None:
                        return ('err', PARAM)
                    kbs.append((low(d['n']), nval(p['v'])))
            if any(self.key(low(c['name']), t, kbs) in self.map[t] for t in tg):
                return ('err', EXISTS)
            for t in tg:
                self.map[t][self.key(low(c['name']), t, kbs)] = {'cls': inst['c'], 'props': nprops(inst['p'])}
            return ('ok', ('path', self.key(low(c['name']), ns, kbs)))
        if kind in ('modify', 'delete', 'get'):
            path = op['path']
            ns = self.eff(path['n'])
            if kind == 'modify' and low(op['inst']['c']) != low(path['c']):
                return ('err', PARAM)
            if ns not in self.classes:
                return ('err', NS_INVALID)
            cname = low(op['inst']['c']) if kind == 'modify' else low(path['c'])
            c = self.classes[ns].get(cname)
            if c is None:
                return ('err', CLS_INVALID)
            k = mkkey(path, ns)
            old = self.map[ns].get(k)
            if old is None:
                return ('err', NOT_FOUND)
            if kind == 'get':
                pl = None if op['pl'] is None else set(low(x) for x in op['pl'])
                return ('ok', ('inst', low(old['cls']), k, {n: v for n, v in old['props'].items() if pl is None or n in pl}))
            if kind == 'delete':
                for t in self.targets_of_stored(c, old, ns):
                    self.map.get(t, {}).pop((k[0], t, None, k[3]), None)
                return ('ok', None)
            # modify
            pl = op['pl']
            if pl is not None and any(self.decl(c, pn) is None for pn in pl):
                return ('err', PARAM)
            for p in op['inst']['p']:
                if not self.valid(c, p, ns):
                    return ('err', PARAM)
                d = self.decl(c, p['n'])
                if d['key'] and (low(p['n']) not in old['props'] or old['props'][low(p['n'])][2] != nval(p['v'])):
                    return ('err', PARAM)
            supplied = {low(p['n']): p for p in op['inst']['p']}
            new = {}
            if pl is None:
                for n, p in supplied.items():
                    new[n] = (tuple(p['t']), p['a'], nval(p['v']), p.get('pg'), p['v'])
            else:
                for pn in pl:
                    n = low(pn)
                    if n in supplied:
                        p = supplied[n]
                        new[n] = (tuple(p['t']), p['a'], nval(p['v']), p.get('pg'), p['v'])
                    else:
                        d = self.decl(c, pn)
                        if d['key'] and (n not in old['props'] or old['props'][n][2] != nval(d['d'])):
                            return ('err', PARAM)
                        new[n] = (tuple(d['t']), d['a'], nval(d['d']), None, d['d'])
            if c['assoc']:
                for n, (t, a, nv, pg, raw) in new.items():
                    if t == REFT:
                        if raw is None:
                            return ('err', PARAM)
                        if (n not in old['props'] or old['props'][n][2] != nv) and not self.endpoint_ok(raw):
                            return ('err', PARAM)
            merged = dict(old['props'])
            for n, (t, a, nv, pg, raw) in new.items():
                merged[n] = (t, a, nv, pg)
            tg = self.targets_of_props(c, merged, ns)
            if not all(t in self.classes and low(old['cls']) in self.classes[t] for t in tg):
                return ('err', CLS_INVALID)
            if not all((k[0], t, None, k[3]) in self.map[t] for t in tg):
                return ('err', NOT_FOUND)
            for t in tg:
                self.map[t][(k[0], t, None, k[3])] = {'cls': old['cls'], 'props': merged}
            return ('ok', None)
        # enumerations
        ns = self.eff(op['ns'])
        if ns not in self.classes:
            return ('err', NS_INVALID)
        c = self.classes[ns].get(low(op['cls']))
        if c is None:
            return ('err', CLS_INVALID)
        sel = [(k, v) for k, v in self.map[ns].items() if self.descends(ns, k[0], low(op['cls']))]
        if kind == 'names':
            return ('ok', ('paths', frozenset(k for k, v in sel)))
        pl = None if op['pl'] is None else set(low(x) for x in op['pl'])
        di = True if op['di'] is None else op['di']
        if not di:
            own = set(low(d['n']) for d in c['props'])
            pl = own if pl is None else (own & pl)
        return ('ok', ('insts', frozenset((k, low(v['cls']), frozenset((n, x) for n, x in v['props'].items() if pl is None or n in pl))
                                          for k, v in sel)))

    def targets_of_props(self, c, props, ns):
        out = []
        if c['assoc']:
            for n, (t, a, nv, pg) in props.items():
                if t == REFT and nv is not None and nv[0] == 'r':
                    rn = nv[1][1]
                    if rn is not None and rn and rn != ns and rn not in out:
                        out.append(rn)
        return out + [ns]

    def targets_of_stored(self, c, old, ns):
        return self.targets_of_props(c, old['props'], ns)


def observed(out, op, req_dflt):
    """real outcome -> comparable with RefMap.expect"""
    if 'exc' in out:
        if out['exc'] == 'CIMError':
            return ('err', out.get('code'))
        return ('leak', out['exc'])
    ok = out['ok']
    if ok is None:
        return ('ok', None)
    if 'path' in ok:
        return ('ok', ('path', npath(ok['path'], keep_host=True)))
    if 'inst' in ok:
        i = ok['inst']
        if i.get('q') or any(p.get('q') or p.get('co') is not None for p in i['p']):
            return ('ok', ('instance-with-qualifiers-or-class-origin',))
        return ('ok', ('inst', low(i['c']), npath(i['path']), nprops(i['p'])))
    if 'insts' in ok:
        s = []
        for i in ok['insts']:
            if i.get('q') or any(p.get('q') or p.get('co') is not None for p in i['p']):
                return ('ok', ('instance-with-qualifiers-or-class-origin',))
            s.append((npath(i['path']), low(i['c']), frozenset(nprops(i['p']).items())))
        if len(set(s)) != len(s):
            return ('ok', ('duplicates',))
        return ('ok', ('insts', frozenset(s)))
    s = [npath(p) for p in ok['paths']]
    if len(set(s)) != len(s):
        return ('ok', ('duplicates',))
    return ('ok', ('paths', frozenset(s)))


def op_features(op, req):
    """classification of the input class for violation signatures"""
    f = []
    if op['op'] in ('create', 'modify'):
        if any(tuple(p['t']) == REFT for p in op['inst']['p']):
            f.append('refs')
        if op['op'] == 'modify' and op['pl'] is not None:
            f.append('propertylist')
    return '+'.join(f) or 'plain'


def oracle(run, req, outs, case, final_state=None):
    """evaluate the property on the real outputs: every outcome equals the reference map's"""
    ref = RefMap(req)
    before = len(run.violations)
    for idx, (op, out) in enumerate(zip(req['ops'], outs)):
        if isinstance(op, tuple):
            # the client refuses the arguments before sending anything: documented TypeError / ValueError
            exp = ('leak', op[1])
            op = {'op': req['calls'][idx]['call'], 'inst': {'p': []}, 'pl': None}
        else:
            exp = ref.expect(op)
        obs = observed(out, op, req['dflt'])
        if obs == exp:
            continue
        if exp[0] == 'leak':
            sig = {'kind': 'bad_argument_not_refused', 'op': op['op'], 'expected': exp[1],
                   'got': obs[1] if obs[0] != 'ok' else 'ok', 'input': 'bad_argument'}
        elif obs[0] == 'leak':
            sig = {'kind': 'undocumented_exception', 'op': op['op'], 'exc': obs[1], 'expected': str(exp[1]) if exp[0] == 'err' else 'ok',
                   'input': op_features(op, req)}
        elif obs[0] == 'err' and exp[0] == 'err':
            sig = {'kind': 'wrong_status', 'op': op['op'], 'expected': exp[1], 'got': obs[1], 'input': op_features(op, req)}
        elif obs[0] == 'err':
            sig = {'kind': 'rejected', 'op': op['op'], 'got': obs[1], 'input': op_features(op, req)}
        elif exp[0] == 'err':
            sig = {'kind': 'accepted', 'op': op['op'], 'expected': exp[1], 'input': op_features(op, req)}
        else:
            sig = {'kind': 'wrong_result', 'op': op['op'], 'input': op_features(op, req)}
        run.violate(sig, case, {'index': idx, 'expected': repr(exp)[:600], 'observed': repr(obs)[:600], 'real': out})
        break       # later outcomes depend on the diverged state
    if req.get('iso') and len(run.violations) == before:
        run.violate({'kind': 'shared_object', 'op': req['iso']['op']}, case, req['iso'])
    if final_state is not None and len(run.violations) == before:
        # the repository itself: every stored object sits under its own path, in its own namespace
        for e in final_state:
            for s in e['insts']:
                if s['path'] is None or npath(s['path']) != npath(s['key']) or low(s['key']['n'] or []) != low(e['name']):
                    run.violate({'kind': 'stored_path_inconsistent'}, case, {'namespace': e['name'], 'stored': s})
                    return


# --------------------------------------------------------------------------------------------- run / search / replay

def _work(item):
    schema, ops = item
    try:
        req, outs, state = execute(schema, ops)
        return (schema, ops, req, outs, state, None)
    except Unsupported as e:
        return (schema, ops, None, None, None, 'unsupported: %s' % e)


def _register_module():
    """./check loads this file under a name that is not in sys.modules; the fork pool pickles workers by name"""
    import sys
    import types
    if __name__ not in sys.modules:
        m = types.ModuleType(__name__)
        m.__dict__.update(globals())
        sys.modules[__name__] = m


def make_cases(rng, n, thorough):
    _register_module()
    mofs = fixed_schemas() + [random_schema(rng, i) for i in range(12 if thorough else 5)]
    items = []
    for i in range(n):
        schema = gen_schema(rng, mofs)
        g = Gen(rng, schema, thorough)
        items.append((schema, g.multins_history() if i % 5 == 4 else g.history()))
    return items


def run(run):
    rng = run.rng
    n = 30000 if run.thorough else 3000
    run.rule = ('seeded histories of 4..25 instance operations over 2 fixed + 5 (thorough: 12) random schemas (1-3 namespaces, '
                'class trees of depth <= 5, keys of 10 types, non-keys of all types incl. arrays, associations with '
                'reference keys, optional classes missing in a namespace); arguments: existing / deleted / duplicate / '
                'recased / reordered / damaged paths, partial instances, PropertyList subsets with undeclared and duplicate '
                'names, wrong types and arrayness (also on properties whose value is NULL), undeclared properties, NULL / dangling / cross-namespace / host-carrying '
                'reference ends; every object passed in or handed out is mutated in place after the call. '
                'non-trivial = at least one successful write and one later successful read; distinct = distinct (schema, ops) JSON')
    run.assumptions += [
        'names are ASCII: str.lower()/casefold() on non-ASCII CIM names is outside the model (values may be any text)',
        'Python dict lookup of CIMInstanceName keys = lookup by the normal form of the path (hash consistent with __eq__: C05)',
        'class resolution (inherited properties, Key/Association qualifier propagation) is taken from the real repository (C12)',
        'copy.deepcopy returns an object sharing no mutable part with the original ("all nodes fresh" in Model/StoreAlias.lean); '
        'the alias model (isolation theorem) is tied to the code by per-call sharing counts from real id()s and the identity walk',
        'the fuel-bounded downward subclass walk of Model/StoreSubclass.lean stands for the unbounded recursion of '
        '_get_subclass_names (equal on acyclic class stores; compared as exact lists on every run)']
    FAULT_STATS.clear()
    items = make_cases(rng, n, run.thorough)
    for k_, v_ in sorted(FAULT_STATS.items()):
        run.count('injected_fault:' + k_, v_)
    results = common.pmap(_work, items, chunksize=16)
    reqs, keep = [], []
    for res in results:
        if res[5] is not None:
            run.count('skipped:' + res[5][:40])
            continue
        reqs.append(res[2])
        keep.append(res)
    answers = common.run_driver(PROP, [{k_: r_[k_] for k_ in ('dflt', 'nss', 'calls')} for r_ in reqs]) if reqs else []
    alias_answers = common.run_driver(PROP, [{'alias': r_['alias']['ops']} for r_ in reqs]) if reqs else []
    for (schema, ops, req, outs, state, _), ans, aans in zip(keep, answers, alias_answers):
        case = {'schema': schema, 'ops': ops}
        # copy discipline: sharing among the objects the client sees, model (Model/StoreAlias.lean) vs real identities
        steps = aans.get('steps')
        if steps is None or len(steps) != len(req['alias']['real']):
            run.disagree(case, aans, req['alias']['real'], 'alias model: malformed answer')
        else:
            for k_, (m_, r_) in enumerate(zip(steps, req['alias']['real'])):
                run.count('alias_ops')
                if not m_['storeDisjoint'] or m_['sharedWithInput'] != r_['sharedWithInput'] or \
                        m_['sharedWithEarlier'] != r_['sharedWithEarlier']:
                    run.disagree(case, {'step': k_, 'model': m_, 'op': req['alias']['ops'][k_]}, r_,
                                 'object sharing between client-held objects (alias model)')
                    break
        wrote = any('ok' in o and op['op'] in ('create', 'modify', 'delete') for o, op in zip(outs, ops))
        read = any('ok' in o and o['ok'] and op['op'] in ('get', 'enum', 'names') and
                   (o['ok'].get('inst') or o['ok'].get('insts') or o['ok'].get('paths')) for o, op in zip(outs, ops))
        run.case(case, nontrivial=wrote and read)
        for o, op in zip(outs, ops):
            run.count('%s:%s' % (op['op'], 'ok' if 'ok' in o else (o['exc'] + str(o.get('code', '')))))
        run.count('namespaces:%d' % len(schema['nss']))
        seen = {}
        for e in state:
            for s_ in e['insts']:
                seen.setdefault(json.dumps([s_['key']['c'], s_['key']['k']]), set()).add(tuple(e['name']))
        if any(len(v) > 1 for v in seen.values()):
            run.count('history_ending_with_multi_namespace_instance')
        if 'outs' not in ans:
            run.disagree(case, ans, outs, 'driver rejected the request')
        else:
            mouts = [canon_model_out(o) for o in ans['outs']]
            mstate = canon_model_state(ans['state'])
            if mouts != outs or mstate != state:
                # exact (case- and order-preserving) comparison failed: is it more than case / order?
                lm, lr = [loose_out(o) for o in mouts], [loose_out(o) for o in outs]
                if lm != lr:
                    i = next((k for k in range(len(outs)) if k >= len(lm) or lm[k] != lr[k]), None)
                    run.disagree(case, {'index': i, 'out': mouts[i] if i is not None and i < len(mouts) else None},
                                 {'index': i, 'out': outs[i] if i is not None else None}, 'outcome of operation %s' % i)
                elif loose_state(mstate) != loose_state(state):
                    run.disagree(case, mstate, state, 'final repository contents')
                else:
                    run.count('K:differs_from_model_only_in_case_or_order')
                    if not any(n.startswith('model and code differ only') for n in run.notes):
                        run.notes.append('model and code differ only in lexical case of names / order of keybindings or of '
                                         'enumerated objects on some histories (not constrained by the property; the model '
                                         'should be re-synchronised)')
            if not ans.get('specAgrees'):
                run.count('model_vs_spec_disagree')
                run.disagree(case, 'Spec run differs from Model run (refinement theorem instance fails)', None, 'model vs spec')
        oracle(run, req, outs, case, state)
    class_lists = {}
    for res in keep:
        for nsd in res[2]['nss']:
            pairs = tuple((''.join(map(chr, c['name'])), None if c['super'] is None else ''.join(map(chr, c['super'])))
                          for c in nsd['classes'])
            class_lists[pairs] = True
    subclass_walk(run, list(class_lists))
    probe_incoherent_schema(run)


PROBE_QUALS = '''
Qualifier Key : boolean = false, Scope(property, reference), Flavor(DisableOverride, ToSubclass);
Qualifier Association : boolean = false, Scope(association), Flavor(DisableOverride, ToSubclass);
'''


def probe_incoherent_schema(run):
    """directed probe outside the generated schemas: the association class is declared with an additional key property
    in the second namespace (an incoherent schema, excluded by hypothesis SchemaCoherent of C10_refines_spec; Lean
    witness C10_refines_spec_fails_for_incoherent_schema).  The copy of a multi-namespace association instance stored
    there lacks that key property; modifying it must still answer with a CIM status."""
    import pywbem
    import pywbem_mock
    c = pywbem_mock.FakedWBEMConnection(default_namespace='A')
    c.add_namespace('B')
    c.compile_mof_string(PROBE_QUALS + 'class P { [Key] string n; }; [Association] class L { [Key] P REF a; };',
                         namespace='A')
    c.compile_mof_string(PROBE_QUALS + 'class P { [Key] string n; }; '
                         '[Association] class L { [Key] P REF a; [Key] string k; };', namespace='B')
    outs = []
    try:
        pe = c.CreateInstance(pywbem.CIMInstance('P', {'n': 'x'}), namespace='B')
        c.CreateInstance(pywbem.CIMInstance('L', {'a': pe}), namespace='A')
        m = pywbem.CIMInstance('L', {'k': 'v'})
        m.path = pywbem.CIMInstanceName('L', {'a': pe}, namespace='B')
        try:
            c.ModifyInstance(m)
            outs.append({'ok': None})
        except Exception as e:  # noqa
            outs.append(common.exc_json(e))
    except Exception as e:  # noqa
        outs.append(dict(common.exc_json(e), setup=True))
    out = outs[-1]
    run.count('probe:incoherent_schema:%s' % (out.get('exc', 'ok') + str(out.get('code', ''))))
    if 'exc' in out and out['exc'] != 'CIMError':
        run.violate({'kind': 'undocumented_exception', 'op': 'modify', 'exc': out['exc'], 'input': 'incoherent_schema'},
                    {'probe': 'incoherent_schema'}, out)
    return out


def random_forest(rng, thorough):
    """a class store given directly as (name, superclass name) pairs: up to 14 classes, chains up to 9 deep, names in
    mixed case, superclass references recased, some references dangling; no cycles (Python would not terminate)"""
    n = rng.randint(1, 14 if thorough else 10)
    names, out = [], []
    for i in range(n):
        nm = recase(rng, rng.choice(['Cls', 'x', 'TST_Node', 'a_b']) + str(i))
        r = rng.random()
        if names and r < 0.75:
            # prefer the most recent classes: deep chains
            sup = recase(rng, names[-1] if rng.random() < 0.5 else rng.choice(names))
        elif r < 0.82:
            sup = 'Nowhere%d' % rng.randint(0, 2)
        else:
            sup = None
        names.append(nm)
        out.append((nm, sup))
    rng.shuffle(out)
    return out


def subclass_walk(run, class_lists):
    """K for Model/StoreSubclass.lean: `subclassNames` (exact list) and `inEnumDown` against MainProvider.
    _get_subclass_names / _get_subclass_list_for_enums of the real code, and against the upward walk `descends`
    the rest of the model uses (the run-time instance of theorem C10_subclass_walk_down_is_up)"""
    import pywbem
    import pywbem_mock
    from pywbem_mock._inmemoryrepository import InMemoryObjectStore
    from pywbem._vendor.nocaselist import NocaseList
    mp = pywbem_mock.FakedWBEMConnection()._mainprovider
    rng = run.rng
    stores = [list(cl) for cl in class_lists]
    stores += [random_forest(rng, run.thorough) for _ in range(3000 if run.thorough else 400)]
    reqs, reals = [], []
    for pairs in stores:
        st = InMemoryObjectStore(pywbem.CIMClass)
        for nm, sup in pairs:
            st.create(nm, pywbem.CIMClass(nm, superclass=sup))
        order = [(c.classname, c.superclass) for c in st.iter_values(copy=False)]
        targets = [nm for nm, _ in order] + [recase(rng, nm) for nm, _ in order[:3]] + ['NoSuchClass']
        real = []
        for t in targets:
            subs = mp._get_subclass_names(t, st, True)
            if st.object_exists(t):
                lst = mp._get_subclass_list_for_enums(t, 'ns', st)
            else:
                lst = NocaseList(subs + [t])
            real.append({'subs': [common.cps(x) for x in subs], 'sel': [nm in lst for nm, _ in order]})
        reqs.append({'subclasses': {'classes': [{'name': common.cps(nm), 'super': None if sup is None else common.cps(sup),
                                                 'assoc': False, 'props': []} for nm, sup in order],
                                    'targets': [common.cps(t) for t in targets]}})
        reals.append((order, targets, real))
    answers = common.run_driver(PROP, reqs) if reqs else []
    for (order, targets, real), ans in zip(reals, answers):
        run.count('subclass_walk:stores')
        case = {'subclass_store': order}
        if 'subs' not in ans:
            run.disagree(case, ans, None, 'subclass walk: driver rejected the request')
            continue
        for k_, t in enumerate(targets):
            run.count('subclass_walk:targets')
            if real[k_]['subs']:
                run.count('subclass_walk:targets_with_subclasses')
            if len(real[k_]['subs']) > 1 + sum(1 for _, sup in order if sup and sup.lower() == t.lower()):
                run.count('subclass_walk:targets_with_indirect_subclasses')
            m = {'subs': ans['subs'][k_], 'sel': ans['down'][k_]}
            if m != real[k_]:
                run.disagree(dict(case, target=t), m, real[k_], 'subclass list of a class (downward walk, Model/StoreSubclass.lean)')
                break
            if ans['up'][k_] != ans['down'][k_]:
                run.disagree(dict(case, target=t), {'up': ans['up'][k_]}, {'down': ans['down'][k_]},
                             'upward and downward subclass walk of the model differ (instance of C10_subclass_walk_down_is_up fails)')
                break


def search(run):
    """K or a proof obligation broke and the oracle saw nothing: widen the oracle-only search on the real code"""
    before = len(run.violations)
    # first: the disagreeing cases themselves, shrunk
    for d in run.disagreements[:5]:
        case = d['case']
        if isinstance(case, dict) and 'ops' in case:
            _oracle_case(run, case['schema'], case['ops'])
            if len(run.violations) > before:
                return run.violations[before:]
    items = make_cases(run.rng, 4000, True)
    for res in common.pmap(_work, items, chunksize=16):
        if res[5] is None:
            oracle(run, res[2], res[3], {'schema': res[0], 'ops': res[1]}, res[4])
            if len(run.violations) > before:
                break
    return run.violations[before:]


def oracle_only(run):
    items = make_cases(run.rng, 2000 if run.thorough else 300, run.thorough)
    for res in common.pmap(_work, items, chunksize=16):
        if res[5] is None:
            run.case({'schema': res[0], 'ops': res[1]}, nontrivial=True)
            oracle(run, res[2], res[3], {'schema': res[0], 'ops': res[1]}, res[4])


def _oracle_case(run, schema, ops):
    req, outs, state = execute(schema, ops)
    oracle(run, req, outs, {'schema': schema, 'ops': ops}, state)
    return req, outs, state


def replay(payload):
    case = payload['case']
    r = common.Run(PROP, 'quick', 0)
    if case.get('probe') == 'incoherent_schema':
        out = probe_incoherent_schema(r)
        if r.violations:
            return False, 'property C10 FAILS on the incoherent-schema probe: ' + json.dumps(r.violations[0]['sig'])
        return True, 'property C10 holds on the incoherent-schema probe: ' + json.dumps(out)
    req, outs, state = _oracle_case(r, case['schema'], case['ops'])
    if r.violations:
        v = r.violations[0]
        return False, 'property C10 FAILS on this history: ' + json.dumps(v['sig']) + '\n' + \
            json.dumps(v['observed'], default=str)[:1500]
    return True, 'property C10 holds on this history (%d operations; outcomes equal the reference map)' % len(outs)
