"""C14 — pull enumeration sessions: correspondence K (Lean model Model/Pull.lean vs the real
FakedWBEMConnection) + the property oracle on the real code."""
import json
import common

PROP = 'C14'

MOF = '''
Qualifier Key : boolean = false, Scope(property, reference), Flavor(DisableOverride, ToSubclass);
Qualifier Association : boolean = false, Scope(association), Flavor(DisableOverride, ToSubclass);
class TST_P { [Key] string name; uint32 v; };
class TST_Q : TST_P { string extra; };
[Association] class TST_L { [Key] TST_P REF parent; [Key] TST_P REF child; };
[Association] class TST_M : TST_L { uint32 w; };
'''

NSS = ['root/a', 'root/b']

# the 7 Open operations: (method, pull kind of the model, traditional operation, needs source instance)
OPENS = [
    ('OpenEnumerateInstances', 'withPath', 'EnumerateInstances', False),
    ('OpenEnumerateInstancePaths', 'paths', 'EnumerateInstanceNames', False),
    ('OpenReferenceInstances', 'withPath', 'References', True),
    ('OpenReferenceInstancePaths', 'paths', 'ReferenceNames', True),
    ('OpenAssociatorInstances', 'withPath', 'Associators', True),
    ('OpenAssociatorInstancePaths', 'paths', 'AssociatorNames', True),
]
PULLS = {'withPath': 'PullInstancesWithPath', 'paths': 'PullInstancePaths', 'insts': 'PullInstances'}


def build_conn(n_per_ns, rng):
    import pywbem, pywbem_mock
    import mockutil
    conn = mockutil.new_conn(MOF, NSS)
    for ns in NSS:
        n = n_per_ns[ns]
        insts = []
        for i in range(n):
            cls = 'TST_Q' if i % 3 == 2 else 'TST_P'
            inst = pywbem.CIMInstance(cls, properties={'name': 'p%d' % i, 'v': pywbem.Uint32(i)})
            inst.path = pywbem.CIMInstanceName(cls, keybindings={'name': 'p%d' % i}, namespace=ns)
            insts.append(inst)
        conn.add_cimobjects(insts, namespace=ns)
        # star of associations around p0 so that References/Associators of p0 have at least n-1 results; every
        # 4th is of the subclass TST_M, and every 5th neighbour also links back with p0 in the OTHER role, so that
        # Role / ResultRole / AssocClass / ResultClass filters select proper, different subsets
        assocs = []
        for i in range(1, n):
            ends = [(insts[0].path, insts[i].path)]
            if i % 5 == 1:
                ends.append((insts[i].path, insts[0].path))
            for (pa, ch) in ends:
                cn = 'TST_M' if i % 4 == 0 else 'TST_L'
                a = pywbem.CIMInstance(cn, properties={'parent': pa, 'child': ch})
                if cn == 'TST_M':
                    a['w'] = pywbem.Uint32(i)
                a.path = pywbem.CIMInstanceName(cn, keybindings={'parent': pa, 'child': ch}, namespace=ns)
                assocs.append(a)
        conn.add_cimobjects(assocs, namespace=ns)
    return conn


def obj_key(o):
    """identity of a delivered object: its path without host and, for instances, the content (class, property
    names/types/values) -- so 'exactly the result of the traditional operation' is compared on content too"""
    import pywbem
    p = o.path if isinstance(o, pywbem.CIMInstance) else o
    q = p.copy()
    q.host = None
    k = q.to_wbem_uri(format='canonical')
    if isinstance(o, pywbem.CIMInstance):
        props = sorted((n.lower(), pr.type, pr.is_array, repr(pr.value)) for n, pr in o.properties.items())
        k += '|' + o.classname.lower() + '|' + repr(props)
    return k


# filter arguments common to an Open operation and its traditional counterpart
FILTER_ARGS = {
    'OpenEnumerateInstances': ['DeepInheritance', 'PropertyList'],
    'OpenEnumerateInstancePaths': [],
    'OpenReferenceInstances': ['ResultClass', 'Role', 'PropertyList'],
    'OpenReferenceInstancePaths': ['ResultClass', 'Role'],
    'OpenAssociatorInstances': ['AssocClass', 'ResultClass', 'Role', 'ResultRole', 'PropertyList'],
    'OpenAssociatorInstancePaths': ['AssocClass', 'ResultClass', 'Role', 'ResultRole'],
}
ARG_VALUES = {
    'DeepInheritance': [True, False],
    # documented argument forms: list, tuple, or a single property name as a string
    'PropertyList': [['name'], ['v'], ['NAME', 'extra'], [], ['parent'], ['child', 'w'], 'name', 'extra', 'child',
                     ('v',), ('parent', 'w')],
    'Role': ['parent', 'child', 'PARENT', 'nosuchrole'],
    'ResultRole': ['parent', 'child', 'Child', 'nosuchrole'],
    'AssocClass': ['TST_L', 'TST_M', 'tst_l'],
    'ResultClass': None,   # depends on the operation, see gen_args
}


FQL_CODE = {None: 'absent', '': 'empty', 'DMTF:FQL': 'dmtf'}


def gen_params(rng):
    """optional session parameters of an Open (FilterQueryLanguage, FilterQuery, OperationTimeout, ContinueOnError)"""
    if rng.random() < 0.6:
        return {}
    p = {}
    if rng.random() < 0.6:
        p['FilterQueryLanguage'] = rng.choice([None, '', 'DMTF:FQL', 'DMTF:FQL', 'WQL', 'dmtf:fql', 'DMTF:CQL'])
    if rng.random() < 0.5:
        p['FilterQuery'] = rng.choice([None, '', 'name = "p1"', 'v > 2', 'garbage ((('])
    if rng.random() < 0.6:
        p['OperationTimeout'] = rng.choice([None, 0, 1, 39, 40, 41, 1000, -1])
    if rng.random() < 0.3:
        p['ContinueOnError'] = rng.choice([None, False, True])
    return p


def model_params(p):
    p = p or {}
    fql = p.get('FilterQueryLanguage')
    return {'fql': FQL_CODE.get(fql, 'other'), 'fq': bool(p.get('FilterQuery')),
            'ot': p.get('OperationTimeout'), 'coe': p.get('ContinueOnError')}


def gen_args(rng, method):
    args = {}
    if rng.random() < 0.55:
        return args
    for a in FILTER_ARGS[method]:
        if rng.random() < 0.5:
            continue
        if a == 'ResultClass':
            vals = ['TST_L', 'TST_M', 'tst_m'] if 'Reference' in method else ['TST_P', 'TST_Q', 'tst_q']
        else:
            vals = ARG_VALUES[a]
        args[a] = rng.choice(vals)
    return args


class Real:
    """runs an op list (the same JSON the model gets) on the real code"""

    def __init__(self, n_per_ns, rng):
        self.conn = build_conn(n_per_ns, rng)
        self.ctxmap = {}     # real context string -> model id of the LATEST session opened with that string
        self.ids = {}        # object key -> small int
        self.ctx_real = {}   # model id -> (ctxstr, namespace); one model id per Open that returned a context
        self.nctx = 0

    def oid(self, o):
        k = obj_key(o)
        return self.ids.setdefault(k, len(self.ids) + 1)

    def traditional(self, method, ns, src, args=None):
        import pywbem
        c = self.conn
        kw = dict(args or {})
        if method == 'EnumerateInstances':
            # the pull operation has no LocalOnly (DSP0200: deprecated, servers treat it as false)
            kw['LocalOnly'] = False
        if method in ('EnumerateInstances', 'EnumerateInstanceNames'):
            return [self.oid(o) for o in getattr(c, method)('TST_P', namespace=ns, **kw)]
        p = pywbem.CIMInstanceName('TST_P', keybindings={'name': src}, namespace=ns)
        return [self.oid(o) for o in getattr(c, method)(p, **kw)]

    def exc(self, e):
        import pywbem
        if isinstance(e, pywbem.CIMError):
            return {'exc': 'CIMError', 'code': e.status_code}
        return {'exc': type(e).__name__}

    def result(self, r, kind, opening=False):
        objs = r.paths if kind == 'paths' else r.instances
        ctx = None
        res = {}
        if r.context is not None:
            cs = r.context[0]
            if opening:
                # every Open that returns a context starts a NEW session: fresh model id, even when the server
                # hands out a context string it has used before (which the property forbids: see the oracle)
                if cs in self.ctxmap:
                    res['reused_context_of'] = self.ctxmap[cs]
                self.ctxmap[cs] = self.nctx
                self.ctx_real[self.nctx] = r.context
                self.nctx += 1
            elif cs not in self.ctxmap:
                self.ctxmap[cs] = 1000 + len(self.ctxmap)     # a pull answered with a context nobody opened
            ctx = self.ctxmap[cs]
        res.update({'objs': [self.oid(o) for o in objs], 'eos': bool(r.eos), 'ctx': ctx})
        return {'ok': res}

    def step(self, op):
        import pywbem
        c = self.conn
        try:
            if op['op'] == 'open':
                ns = NSS[op['ns']] if op['ns'] < len(NSS) else 'root/nonexistent'
                kw = {}
                if op['max'] is not None or op.get('passnone'):
                    kw['MaxObjectCount'] = op['max']
                kw.update(op.get('args') or {})
                kw.update(op.get('params') or {})
                if op['src'] is None and op.get('clsform') == 'cimclassname':
                    # the class given as a CIMClassName that carries the namespace, no namespace argument
                    r = getattr(c, op['method'])(pywbem.CIMClassName('TST_P', namespace=ns), **kw)
                elif op['src'] is None:
                    r = getattr(c, op['method'])('TST_P', namespace=ns, **kw)
                else:
                    p = pywbem.CIMInstanceName('TST_P', keybindings={'name': op['src']}, namespace=ns)
                    r = getattr(c, op['method'])(p, **kw)
                return self.result(r, op['kind'], opening=True)
            if op['op'] == 'pull':
                ctx = self.ctx_real.get(op['ctx']) if op['ctx'] is not None else None
                if op['ctx'] is not None and ctx is None:
                    ctx = ('bogus-%d' % op['ctx'], NSS[0])
                r = getattr(c, PULLS[op['kind']])(ctx, op['max'])
                return self.result(r, op['kind'])
            if op['op'] == 'close':
                ctx = self.ctx_real.get(op['ctx']) if op['ctx'] is not None else None
                if op['ctx'] is not None and ctx is None:
                    ctx = ('bogus-%d' % op['ctx'], NSS[0])
                c.CloseEnumeration(ctx)
                return {'ok': None}
            if op['op'] == 'rmns':
                # empty the namespace, then remove it (the only way the mock allows)
                ns = NSS[op['ns']]
                for cn in ('TST_L', 'TST_Q', 'TST_P'):
                    for p in c.EnumerateInstanceNames(cn, namespace=ns):
                        c.DeleteInstance(p)
                for cn in ('TST_L', 'TST_Q', 'TST_P'):
                    c.DeleteClass(cn, namespace=ns)
                for q in c.EnumerateQualifiers(namespace=ns):
                    c.DeleteQualifier(q.name, namespace=ns)
                c.remove_namespace(ns)
                return {'ok': None}
            if op['op'] == 'disable':
                c.disable_pull_operations = op['v']
                return {'ok': None}
        except Exception as e:  # noqa
            return self.exc(e)
        raise ValueError(op)

    def open_ids(self):
        return sorted(self.ctxmap[k] for k in self.conn._mainprovider.enumeration_contexts if k in self.ctxmap), \
            len(self.conn._mainprovider.enumeration_contexts)


def gen_history(rng, thorough):
    """one history: repository sizes + an op list mixing sessions"""
    # result sets around the server default batch size (DEFAULT_MAX_OBJECT_COUNT = 100, used when the Open passes
    # no MaxObjectCount) in ~4 % of the histories, small ones otherwise
    big = rng.random() < (0.04 if not thorough else 0.06)
    n_per_ns = {NSS[0]: rng.choice([99, 101, 102, 150, 230] if big else [0, 1, 2, 3, 5, 8, 13, 21]),
                NSS[1]: rng.choice([0, 2, 4, 7])}
    ops = []
    if rng.random() < 0.15:
        # whole enumeration (theorems C14_whole_enumeration / C14_terminates_with_keepalive): optionally another live
        # session first, then Open + a pull loop of the right kind that is longer than the result set, keep-alive
        # pulls (MaxObjectCount=0) interspersed, and pulls after end-of-sequence (must be refused, change nothing)
        pre = 0
        if rng.random() < 0.4 and n_per_ns[NSS[0]] >= 5:     # every Open then has > 1 result: a context is returned
            method, kind, trad, needs_src = rng.choice(OPENS)
            ops.append({'op': 'open', 'method': method, 'kind': kind, 'trad': trad, 'ns': 0,
                        'src': 'p0' if needs_src else None, 'max': 1, 'passnone': False,
                        'args': {}, 'params': {}, 'clsform': 'str'})
            pre = 1
        method, kind, trad, needs_src = rng.choice(OPENS)
        nsi = rng.choice([0, 0, 1])
        ops.append({'op': 'open', 'method': method, 'kind': kind, 'trad': trad, 'ns': nsi,
                    'src': 'p0' if needs_src else None, 'max': rng.choice([None, 0, 0, 1, 2, 3]),
                    'passnone': rng.random() < 0.5, 'args': gen_args(rng, method), 'params': {},
                    'clsform': 'str'})
        npos = 0
        need = 2 * n_per_ns[NSS[nsi]] + 3
        while npos < need and len(ops) < 600:
            mx = rng.choice([0, 1, 1, 1, 2, 3, 7] if not big else [0, 1, 50, 100, 100])
            npos += 1 if mx > 0 else 0
            # ctx index: `pre` when the first Open returned a context (result set > 1), else 0; both are tried
            ops.append({'op': 'pull', 'kind': kind, 'ctx': pre, 'max': mx, 'match': True})
        return n_per_ns, ops
    nops = rng.randint(3, 18)
    opened = 0          # upper bound of context ids handed out so far
    removed = set()
    for _ in range(nops):
        r = rng.random()
        if r < 0.30 or opened == 0:
            method, kind, trad, needs_src = rng.choice(OPENS)
            nsi = rng.choice([0, 0, 0, 1, 1, 2])
            mx = rng.choice([None, None, 0, 1, 1, 2, 3, 5, 100, 1000, -1])
            if big and rng.random() < 0.6:
                mx = None
            ops.append({'op': 'open', 'method': method, 'kind': kind, 'trad': trad, 'ns': nsi,
                        'src': 'p0' if needs_src else None, 'max': mx, 'passnone': rng.random() < 0.5,
                        'args': gen_args(rng, method), 'params': gen_params(rng),
                        'clsform': 'cimclassname' if (not needs_src and rng.random() < 0.3) else 'str'})
            opened += 1
        elif r < 0.80:
            kind = rng.choice(['withPath', 'paths', 'insts'])
            ctx = rng.choice(list(range(opened)) * 4 + [opened + 3, None])
            mx = rng.choice([0, 0, 1, 1, 1, 2, 3, 4, 7, 100, None, -2])
            ops.append({'op': 'pull', 'kind': kind, 'ctx': ctx, 'max': mx, 'match': rng.random() < 0.8})
        elif r < 0.90:
            ops.append({'op': 'close', 'ctx': rng.choice(list(range(opened)) * 4 + [opened + 2, None])})
        elif r < 0.95:
            ops.append({'op': 'disable', 'v': rng.random() < 0.5})
        else:
            if 1 not in removed:
                removed.add(1)
                ops.append({'op': 'rmns', 'ns': 1})
    return n_per_ns, ops


def execute(n_per_ns, ops, rng):
    """run on the real code; resolve 'match' pulls to the right kind; produce model ops + real outs"""
    real = Real(n_per_ns, rng)
    kinds = {}      # model ctx id -> kind
    model_ops, real_outs, trad = [], [], []
    for op in ops:
        if op['op'] == 'open':
            nsi = op['ns']
            objs = []
            if nsi < len(NSS) and NSS[nsi] in real.conn.namespaces:
                try:
                    objs = real.traditional(op['trad'], NSS[nsi], op['src'], op.get('args'))
                except Exception:
                    objs = []
            out = real.step(op)
            mo = {'op': 'open', 'kind': op['kind'], 'ns': nsi, 'objs': objs, 'max': op['max']}
            mo.update(model_params(op.get('params')))
            model_ops.append(mo)
            trad.append(objs)
            if 'ok' in out and out['ok']['ctx'] is not None:
                kinds[out['ok']['ctx']] = op['kind']
        elif op['op'] == 'pull':
            o = dict(op)
            if op['match'] and op['ctx'] in kinds:
                o['kind'] = kinds[op['ctx']]
            out = real.step(o)
            model_ops.append({'op': 'pull', 'kind': o['kind'], 'ctx': op['ctx'], 'max': op['max']})
            trad.append(None)
        else:
            out = real.step(op)
            model_ops.append({k: v for k, v in op.items()})
            trad.append(None)
        real_outs.append(out)
    open_ids, n_open = real.open_ids()
    return model_ops, real_outs, open_ids, n_open, trad


def _exec_one(g):
    n_per_ns, ops = g
    model_ops, real_outs, open_ids, n_open, trad = execute(n_per_ns, ops, None)
    return (n_per_ns, ops, model_ops, real_outs, open_ids, n_open)


def oracle(run, model_ops, outs, n_open, case):
    """the property itself, evaluated on the REAL outputs only"""
    sess = {}   # ctx -> dict(orig, delivered, status)
    gone = set()    # namespaces removed so far
    for op, out in zip(model_ops, outs):
        if op['op'] == 'rmns' and 'ok' in out:
            gone.add(op['ns'])
        if op['op'] == 'open' and 'ok' in out:
            r = out['ok']
            mx = op['max']
            if 'reused_context_of' in r:
                # the server handed out a context string it has used before: the older session's context is then
                # accepted again after its eos/close (or, if still live, the two sessions share one entry)
                old = sess.get(r['reused_context_of'])
                run.violate({'kind': 'context_id_reused', 'older_session_state': old['st'] if old else 'unknown'},
                            case, out)
            if mx is not None and len(r['objs']) > mx:
                run.violate({'kind': 'batch_exceeds_max', 'op': 'open'}, case, out)
            if r['eos']:
                if r['objs'] != op['objs']:
                    run.violate({'kind': 'open_eos_but_incomplete'}, case, out)
                if r['ctx'] is not None:
                    run.violate({'kind': 'context_after_eos'}, case, out)
            else:
                if r['ctx'] is None:
                    run.violate({'kind': 'no_context_without_eos'}, case, out)
                sess[r['ctx']] = {'orig': op['objs'], 'del': list(r['objs']), 'st': 'open', 'kind': op['kind'],
                                  'ns': op['ns']}
        elif op['op'] == 'pull':
            s = sess.get(op['ctx'])
            if 'ok' in out:
                r = out['ok']
                if s is None or s['st'] != 'open':
                    run.violate({'kind': 'pull_accepted_on_dead_context'}, case, out)
                    continue
                if s['kind'] != op['kind']:
                    run.violate({'kind': 'wrong_kind_pull_accepted'}, case, out)
                if s['ns'] in gone:
                    # the namespace of the session does not exist any more: the traditional operation has no result
                    # there, so nothing can be "exactly the result of the traditional operation" - the pull must be
                    # refused (the code answers CIM_ERR_INVALID_NAMESPACE and keeps the context for CloseEnumeration)
                    run.violate({'kind': 'pull_served_from_removed_namespace'}, case, out)
                mx = op['max']
                if mx is not None and len(r['objs']) > mx:
                    run.violate({'kind': 'batch_exceeds_max', 'op': 'pull', 'max': mx}, case, out)
                if mx is not None and mx > 0 and not r['objs'] and not r['eos']:
                    run.violate({'kind': 'no_progress'}, case, out)
                s['del'] += r['objs']
                if r['eos']:
                    s['st'] = 'eos'
                    if s['del'] != s['orig']:
                        run.violate({'kind': 'eos_but_delivered_differs_from_traditional'}, case,
                                    {'delivered': s['del'], 'traditional': s['orig']})
                else:
                    if s['orig'][:len(s['del'])] != s['del']:
                        run.violate({'kind': 'delivered_not_a_prefix'}, case,
                                    {'delivered': s['del'], 'traditional': s['orig']})
                    if len(s['del']) >= len(s['orig']):
                        run.violate({'kind': 'eos_withheld'}, case, out)
            else:
                if s is not None and s['st'] in ('eos', 'closed') and op['max'] is not None and op['max'] >= 0 \
                        and out.get('code') not in (21, 7):
                    run.violate({'kind': 'dead_context_wrong_error', 'code': out.get('code'), 'exc': out['exc']},
                                case, out)
        elif op['op'] == 'close':
            s = sess.get(op['ctx'])
            if 'ok' in out:
                if s is None or s['st'] != 'open':
                    run.violate({'kind': 'close_accepted_on_dead_context'}, case, out)
                else:
                    s['st'] = 'closed'
            elif s is not None and s['st'] == 'open' and out.get('exc') == 'CIMError' and out.get('code') != 7:
                # a live session must always be closable (else its context stays open on the server for ever)
                run.violate({'kind': 'close_refused_on_live_context', 'code': out.get('code')}, case, out)
    live = sum(1 for s in sess.values() if s['st'] == 'open')
    if n_open != live:
        run.violate({'kind': 'context_leak', 'server': n_open, 'client_open': live}, case,
                    {'server_contexts': n_open, 'sessions_open': live})


def run(run):
    rng = run.rng
    n = 30000 if run.thorough else 6000
    run.rule = ('seeded random operation histories (3..18 ops: 6 Open ops + OpenQueryInstances probe, 3 Pull kinds, Close, '
                'disable toggles, namespace removal; MaxObjectCount from {None,0,1,2,3,5,100,1000,negative}; result sets '
                '0..21 objects and, in ~4 % of the histories, 99..230 (around the server default batch of 100 used when '
                'the Open passes no MaxObjectCount); filter arguments Role/ResultRole/AssocClass/ResultClass/'
                'DeepInheritance/PropertyList (list, tuple and single-string forms) passed alike to the Open and the traditional '
                'operation; class name as string + namespace argument or as CIMClassName carrying the namespace; delivered objects '
                'compared by path AND content; stale/foreign/None contexts); a case is non-trivial when at least one '
                'pull delivered objects; distinct = distinct (sizes, op list) JSON')
    run.assumptions += ['uuid4 context ids never repeat (model: counter)',
                        'result set handed to the model = the traditional operation run on the same real connection']
    gens = [gen_history(rng, run.thorough) for i in range(n)]
    cases = common.pmap(_exec_one, gens)
    # model side, one driver process
    reqs = []
    for (n_per_ns, ops, model_ops, real_outs, open_ids, n_open) in cases:
        mo = []
        for op in model_ops:
            o = dict(op)
            if o['op'] == 'open':
                o = {k: op[k] for k in ('op', 'kind', 'ns', 'objs', 'max', 'fql', 'fq', 'ot', 'coe')}
            elif o['op'] == 'pull':
                o = {'op': 'pull', 'kind': op['kind'], 'ctx': op['ctx'], 'max': op['max']}
            mo.append(o)
        reqs.append({'nss': [0, 1], 'ops': mo})
    answers = common.run_driver(PROP, reqs)
    for (n_per_ns, ops, model_ops, real_outs, open_ids, n_open), ans in zip(cases, answers):
        case = {'sizes': n_per_ns, 'ops': ops}
        delivered = any('ok' in o and o['ok'] and o['ok'].get('objs') for o in real_outs[1:])
        run.case(case, nontrivial=delivered)
        for o in real_outs:
            run.count('out:' + (o.get('exc', 'ok') + (str(o.get('code', '')))))
        if ans.get('outs') != real_outs or ans.get('open') != open_ids or len(open_ids) != n_open:
            run.disagree(case, {'outs': ans.get('outs'), 'open': ans.get('open')},
                         {'outs': real_outs, 'open': open_ids, 'n_open': n_open}, 'pull session history')
        oracle(run, model_ops, real_outs, n_open, case)
    # OpenQueryInstances probe: the mock answers NOT_SUPPORTED through ExecQuery; no context may be created
    import pywbem
    real = Real({NSS[0]: 2, NSS[1]: 0}, rng)
    try:
        real.conn.OpenQueryInstances('DMTF:CQL', 'SELECT * FROM TST_P', namespace=NSS[0], MaxObjectCount=1)
        run.notes.append('OpenQueryInstances succeeded on the mock (unexpected, not modelled)')
    except pywbem.CIMError as e:
        run.count('openquery:CIMError%d' % e.status_code)
    if real.conn._mainprovider.enumeration_contexts:
        run.violate({'kind': 'context_leak', 'op': 'OpenQueryInstances'}, {'op': 'OpenQueryInstances'}, {})


def search(run):
    """K or a proof obligation broke and the oracle saw nothing: widen the oracle-only search on the real code"""
    before = len(run.violations)
    rng = run.rng
    for i in range(3000):
        n_per_ns, ops = gen_history(rng, True)
        model_ops, real_outs, open_ids, n_open, trad = execute(n_per_ns, ops, rng)
        oracle(run, model_ops, real_outs, n_open, {'sizes': n_per_ns, 'ops': ops})
        if len(run.violations) > before:
            break
    return run.violations[before:]


def replay(payload):
    import random
    case = payload['case']
    r = common.Run(PROP, 'quick', 0)
    model_ops, real_outs, open_ids, n_open, trad = execute(case['sizes'], case['ops'], random.Random(0))
    oracle(r, model_ops, real_outs, n_open, case)
    if r.violations:
        return False, 'property C14 FAILS on this history: ' + json.dumps(r.violations[0]['sig']) + \
            '\nreal outputs: ' + json.dumps(real_outs)
    return True, 'property C14 holds on this history; real outputs: ' + json.dumps(real_outs)
