"""C08 — MOF produced by tomof() recompiles to the same objects.

Stage 1 (string level; modelled and proved in Lean): K compares Model/MofStr.lean + Model/MofLex.lean with
the real `_mof_escaped`, `mofstr`, `mofval`, `_value_tomof`, the real PLY lexer (string/char tokens) and
`_fixStringValue`; the oracle feeds the text produced by the real mofstr()/tomof() to the real compiler.
Stage 2 (declaration level; property decided by the oracle only, labelled partial): random qualifier
declarations, classes and instances -> tomof(maxline) -> MOFCompiler on MOFWBEMConnection(conn=None)
-> compare with the original.
"""
import json
import random

import common

PROP = 'C08'

# --------------------------------------------------------------------------- string generators

CONTROLS = [chr(i) for i in range(1, 32)]
SPECIALS = ['"', "'", '\\']
UNI = ['é', 'ß', '²', '٣', '中', ' ', '\x7f', '\x80', '￿', '\U0001F600', '\U00010000']
HEXISH = list('0123456789ABCDEFabcdefxX')
LETTERS = list('abcdefghijklmnopqrstuvwxyzABCDEFGHIJKLMNOPQRSTUVWXYZ_.,;:(){}[]/*#$=')


def gen_char(rng, profile):
    """one character; profile = (w_special, w_control, w_blank, w_uni, w_hexish)"""
    ws, wc, wb, wu, wh = profile
    x = rng.random()
    if x < ws:
        return rng.choice(SPECIALS)
    x -= ws
    if x < wc:
        return rng.choice(CONTROLS)
    x -= wc
    if x < wb:
        return ' '
    x -= wb
    if x < wu:
        return rng.choice(UNI)
    x -= wu
    if x < wh:
        return rng.choice(HEXISH)
    return rng.choice(LETTERS)


PROFILES = [
    (0.10, 0.05, 0.12, 0.03, 0.10),   # prose-like with specials
    (0.30, 0.20, 0.00, 0.02, 0.20),   # dense escapes, blank-free
    (0.02, 0.01, 0.00, 0.01, 0.10),   # long blank-free words, rare escapes
    (0.05, 0.30, 0.05, 0.02, 0.30),   # control characters followed by hex-looking text
    (0.00, 0.00, 0.15, 0.00, 0.00),   # plain words
    (0.15, 0.05, 0.40, 0.02, 0.05),   # many blanks
]


def gen_string(rng, length, profile=None):
    p = profile or rng.choice(PROFILES)
    return ''.join(gen_char(rng, p) for _ in range(length))


def gen_near_fold(rng, avl):
    """a string whose escaped form has an escape sequence straddling column `avl` (+- a few)"""
    sp = rng.choice(SPECIALS + CONTROLS + ['\n', '\t', '\x01', '\x1f', '"', "'", '\\'])
    k = rng.randint(1, 3)
    n = max(0, avl * k + rng.randint(-8, 3))
    filler = rng.choice(['a', 'a', 'b', '0', 'F', 'x', "'", '\\', '\x02'])
    head = gen_string(rng, n, (0.0, 0.0, 0.0, 0.0, 0.0)) if rng.random() < 0.7 else filler * n
    if rng.random() < 0.25 and n > 3:
        i = rng.randrange(n)
        head = head[:i] + ' ' + head[i + 1:]
    tail = gen_string(rng, rng.choice([0, 1, 2, 5, 9, avl]), rng.choice(PROFILES))
    return head + sp * rng.choice([1, 1, 2, 3]) + tail


def classify(s):
    k = []
    if any(c in s for c in '"'):
        k.append('dq')
    if "'" in s:
        k.append('sq')
    if '\\' in s:
        k.append('bsl')
    if any(ord(c) < 32 for c in s):
        k.append('ctl')
    if ' ' in s:
        k.append('blank')
    if any(ord(c) > 127 for c in s):
        k.append('uni')
    return k


# --------------------------------------------------------------------------- real-code adapters (stage 1)

def exc_json(e):
    return common.exc_json(e)


def real_mofstr(c):
    from pywbem import _cim_obj
    try:
        m, p = _cim_obj.mofstr(c['s'], c['indent'], c['maxline'], c['pos'], c['es'], c['avoid'], chr(c['q']))
        return {'ok': {'mof': common.cps(m), 'pos': p}}
    except Exception as e:  # noqa
        return exc_json(e)


def real_mofval(c):
    from pywbem import _cim_obj
    try:
        m, p = _cim_obj.mofval(c['s'], c['indent'], c['maxline'], c['pos'], c['es'])
        return {'ok': {'mof': common.cps(m), 'pos': p}}
    except Exception as e:  # noqa
        return exc_json(e)


def real_fix(tok):
    from pywbem import _mof_compiler as mc
    try:
        return {'ok': common.cps(mc._fixStringValue(tok, None))}
    except Exception as e:  # noqa
        return exc_json(e)


_LEXER = None


def real_lexer():
    global _LEXER
    if _LEXER is None:
        from pywbem import _mof_compiler as mc
        _LEXER = mc._lex(False)
        _LEXER.last_msg = None
    return _LEXER


def real_first_token(text, want):
    """first token of `text` by the real PLY lexer: {"tok":cps,"rest":n} when it is a `want` token starting at
    offset 0, else {"tok":None}"""
    lx = real_lexer()
    lx.input(text)
    lx.lineno = 1
    try:
        t = lx.token()
    except Exception as e:  # noqa
        return {'exc': type(e).__name__}
    if t is None or t.type != want or t.lexpos != 0 or not isinstance(t.value, str):
        return {'tok': None}
    return {'tok': common.cps(t.value), 'rest': len(text) - len(t.value)}


_COMP = None


def compiler():
    """one MOFCompiler on MOFWBEMConnection(conn=None) per process; repository emptied between cases"""
    global _COMP
    from pywbem._mof_compiler import MOFCompiler, MOFWBEMConnection
    if _COMP is None:
        conn = MOFWBEMConnection(conn=None)
        _COMP = (MOFCompiler(conn, verbose=False, log_func=None), conn)
    comp, conn = _COMP
    conn.classes.clear()
    conn.instances.clear()
    conn.qualifiers.clear()
    conn.class_names.clear()
    del conn.compile_ordered_classnames[:]
    comp.parser.qualcache = {}
    comp.parser.classnames = {}
    comp.parser.aliases = {}
    return comp, conn


NS = 'root/c08'


def compile_mof(mof):
    """-> (conn, None) or (None, exception)"""
    comp, conn = compiler()
    try:
        comp.compile_string(mof, NS)
        return conn, None
    except Exception as e:  # noqa
        try:
            comp.rollback()
        except Exception:  # noqa
            pass
        return None, e


def real_strlist(text):
    """the real lexer + parser on a stringValueList (wrapped in a qualifier declaration)"""
    conn, e = compile_mof('Qualifier Q : string =\n' + text + '\n, Scope(any);\n')
    if e is not None:
        return exc_json(e)
    v = conn.qualifiers[NS]['Q'].value
    if v is None:
        return {'ok': None}
    return {'ok': common.cps(v)}


# --------------------------------------------------------------------------- stage 1

def fold_params(rng):
    maxline = rng.choice([40, 41, 45, 60, 79, 80, 80, 80, 81, 100, 120, rng.randint(40, 120)])
    indent = rng.choice([0, 3, 3, 4, 6, 7, 9, 12, rng.randint(0, 20)])
    indent = min(indent, maxline - 8)
    pos = rng.choice([0, indent, indent + 1, rng.randint(0, maxline + 6), rng.randint(0, 30), maxline - 2, maxline - 3])
    es = rng.choice([0, 0, 1, 2, 3, 3, 5])
    return {'indent': indent, 'maxline': maxline, 'pos': pos, 'es': es, 'avoid': rng.random() < 0.5}


def gen_mofstr_case(rng, i):
    c = fold_params(rng)
    avl_new = c['maxline'] - c['indent'] - 2
    avl_cur = c['maxline'] - c['pos'] - 2
    r = rng.random()
    if r < 0.45:
        s = gen_near_fold(rng, avl_new)
    elif r < 0.55:
        s = gen_near_fold(rng, max(avl_cur, 1))
    elif r < 0.80:
        s = gen_string(rng, rng.choice([0, 1, 2, 5, 10, 30, avl_new - 1, avl_new, avl_new + 1, 2 * avl_new, 200, 330]))
    else:
        s = gen_string(rng, i % (4 * c['maxline']))
    c['s'] = s
    c['q'] = 34
    if rng.random() < 0.08:
        c['q'] = 39
    return c


def gen_literal_body(rng):
    """near-miss stream for the lexer / _fixStringValue: raw text between quotes"""
    out = []
    for _ in range(rng.choice([0, 1, 2, 3, 5, 8, 13])):
        x = rng.random()
        if x < 0.25:
            out.append('\\' + rng.choice(list('bfnrt\'"\\')))
        elif x < 0.50:
            out.append('\\' + rng.choice('xX') + ''.join(rng.choice('0123456789abcdefABCDEF')
                                                           for _ in range(rng.choice([1, 1, 2, 3, 4, 4, 5]))))
        elif x < 0.58:
            out.append('\\' + rng.choice(['q', 'x', 'X', 'xg', 'u0041', ' ', '0', 'N', 'x²', 'x1²', 'x٣']))
        elif x < 0.63:
            out.append(rng.choice(['"', "'", '\n', '\r', '\\']))
        else:
            out.append(gen_char(rng, rng.choice(PROFILES)))
    return ''.join(out)


def stage1(run):
    rng = run.rng
    n = 60000 if run.thorough else 9000
    cases = [gen_mofstr_case(rng, i) for i in range(n)]
    # deterministic sweep: every maxline 40..120 x every position of one escape around the fold column
    sweep = []
    for maxline in range(40, 121):
        if not run.thorough and maxline % 4 and maxline not in (79, 80, 81):
            continue
        for indent, pos, es, avoid in ((3, 23, 3, False), (6, 18, 1, True), (7, 30, 3, True)):
            avl = maxline - indent - 2
            for sp in ('"', '\x01', '\\', "'", '\n'):
                for d in range(-7, 2):
                    sweep.append({'s': 'a' * (avl + d) + sp + 'bbbbb', 'indent': indent, 'maxline': maxline,
                                  'pos': pos, 'es': es, 'avoid': avoid, 'q': 34})
    cases += sweep
    reqs = []
    for c in cases:
        reqs.append({'op': 'mofstr', 's': common.cps(c['s']), 'indent': c['indent'], 'maxline': c['maxline'],
                     'pos': c['pos'], 'es': c['es'], 'avoid': c['avoid'], 'q': c['q']})
    answers = common.run_driver(PROP, reqs)
    texts = []
    for c, a in zip(cases, answers):
        real = real_mofstr(c)
        case = {'op': 'mofstr', **c}
        folded = 'ok' in real and real['ok']['mof'].count(c['q']) > 2
        run.case(case, nontrivial=folded)
        run.count('mofstr:' + ('exc:' + real['exc'] if 'exc' in real else ('folded' if folded else 'one-line')))
        for k in classify(c['s']):
            run.count('mofstr-input:' + k)
        if a != real:
            run.disagree(case, a, real, 'mofstr')
        if 'ok' in real and c['q'] == 34:
            texts.append((case, common.from_cps(real['ok']['mof'])))
            # oracle: the text produced by the real mofstr(), read by the real compiler, is the original string
            oracle_string(run, case, common.from_cps(real['ok']['mof']), c['s'], 'mofstr')
        elif 'exc' in real:
            run.violate({'stage': 'string', 'kind': 'tomof_exception', 'exc': real['exc'], 'where': 'mofstr'}, case, real)

    # escape
    strs = [gen_string(rng, rng.choice([0, 1, 3, 10, 40])) for _ in range(1500)] + [chr(i) for i in range(0, 130)]
    ans = common.run_driver(PROP, [{'op': 'escape', 's': common.cps(s)} for s in strs])
    from pywbem import _cim_obj
    for s, a in zip(strs, ans):
        real = {'out': common.cps(_cim_obj._mof_escaped(s))}
        run.case({'op': 'escape', 's': s}, nontrivial=(real['out'] != common.cps(s)))
        if a != real:
            run.disagree({'op': 'escape', 's': s}, a, real, 'escape')

    # lexer tokens + _fixStringValue on a near-miss stream and on the real mofstr outputs
    lits = [gen_literal_body(rng) for _ in range(12000 if run.thorough else 3000)]
    reqs, meta = [], []
    for b in lits:
        q = '"' if rng.random() < 0.8 else "'"
        text = q + b + q + rng.choice(['', ' ', '"x"', ';', '\n'])
        op = 'lexstr' if q == '"' else 'lexchar'
        reqs.append({'op': op, 'text': common.cps(text)})
        meta.append((op, text))
        # _fixStringValue directly on the quoted body (whatever it is)
        reqs.append({'op': 'fix', 'tok': common.cps(q + b + q)})
        meta.append(('fix', q + b + q))
    ans = common.run_driver(PROP, reqs)
    for (op, text), a in zip(meta, ans):
        case = {'op': op, 'text': text}
        if op == 'fix':
            real = real_fix(text)
            run.count('fix:' + real.get('exc', 'ok'))
        else:
            real = real_first_token(text, 'stringValue' if op == 'lexstr' else 'charValue')
            run.count(op + ':' + ('token' if real.get('tok') else 'no-token'))
        run.case(case, nontrivial=('ok' in real or bool(real.get('tok'))))
        if a != real:
            run.disagree(case, a, real, op)

    # stringValueList through the real parser: real mofstr outputs + near-miss texts
    sl = [t for (_, t) in texts[:: (3 if run.thorough else 6)]]
    for _ in range(3000 if run.thorough else 600):
        parts = ['"' + gen_literal_body(rng) + '"' for _ in range(rng.choice([1, 1, 2, 3]))]
        sl.append(rng.choice(['', ' ', '\n   ']).join(parts))
    ans = common.run_driver(PROP, [{'op': 'strlist', 'text': common.cps(t)} for t in sl])
    for t, a in zip(sl, ans):
        case = {'op': 'strlist', 'text': t}
        real = real_strlist(t)
        run.case(case, nontrivial='ok' in real)
        run.count('strlist:' + real.get('exc', 'ok'))
        model = a
        if a == {'lex': None}:
            model = {'exc': 'MOFParseError'}
        if model != real:
            run.disagree(case, a, real, 'strlist')


def oracle_string(run, case, mof_text, original, where):
    real = real_strlist(mof_text)
    if 'exc' in real:
        run.violate({'stage': 'string', 'kind': 'recompile_exception', 'exc': real['exc'], 'where': where},
                    case, {'mof': mof_text, 'result': real})
    elif real['ok'] != common.cps(original):
        run.violate({'stage': 'string', 'kind': 'value_differs', 'where': where}, case,
                    {'mof': mof_text, 'compiled': real['ok']})


def run(run):
    run.rule = ('stage 1: seeded strings (6 alphabets weighted to quote/apostrophe/backslash/control characters, '
                'hex-looking text after control characters, long blank-free words, non-ASCII incl. astral) of every '
                'length 0..4*maxline and with escape sequences placed at columns avl-8..avl+3 of the 1st..3rd fold, '
                'x maxline 40..120 x indent x line_pos x end_space x avoid_splits; deterministic sweep of one '
                'escape over columns avl-7..avl+1 for every maxline; near-miss literal bodies for lexer and '
                '_fixStringValue. A mofstr case is non-trivial when the string was folded into >= 2 parts.')
    run.assumptions += ['PLY lexer/LALR driver: the per-token regexes are hand-modelled; dispatch and tables are not',
                        'Python str.replace/rfind/slicing/re.finditer semantics as modelled in Model/MofStr.lean']
    stage1(run)


def replay(payload):
    return True, 'not implemented yet'
