"""C08 — MOF produced by tomof() recompiles to the same objects.

Stage 1 (string level; modelled and proved in Lean): K compares Model/MofStr.lean + Model/MofLex.lean with
the real `_mof_escaped`, `mofstr`, `mofval`, `_value_tomof`, the real PLY lexer (string/char tokens) and
`_fixStringValue`; the oracle feeds the text produced by the real mofstr()/tomof() to the real compiler.
Stage 2 (declaration level; property decided by the oracle only, labelled partial): random qualifier
declarations, classes and instances -> tomof(maxline) -> MOFCompiler on MOFWBEMConnection(conn=None)
-> compare with the original.
"""
import json
import random

import common

PROP = 'C08'

# --------------------------------------------------------------------------- string generators

CONTROLS = [chr(i) for i in range(1, 32)]
SPECIALS = ['"', "'", '\\']
UNI = ['é', 'ß', '²', '٣', '中', ' ', '\x7f', '\x80', '￿', '\U0001F600', '\U00010000']
HEXISH = list('0123456789ABCDEFabcdefxX')
LETTERS = list('abcdefghijklmnopqrstuvwxyzABCDEFGHIJKLMNOPQRSTUVWXYZ_.,;:(){}[]/*#$=')


def gen_char(rng, profile):
    """one character; profile = (w_special, w_control, w_blank, w_uni, w_hexish)"""
    ws, wc, wb, wu, wh = profile
    x = rng.random()
    if x < ws:
        return rng.choice(SPECIALS)
    x -= ws
    if x < wc:
        return rng.choice(CONTROLS)
    x -= wc
    if x < wb:
        return ' '
    x -= wb
    if x < wu:
        return rng.choice(UNI)
    x -= wu
    if x < wh:
        return rng.choice(HEXISH)
    return rng.choice(LETTERS)


PROFILES = [
    (0.10, 0.05, 0.12, 0.03, 0.10),   # prose-like with specials
    (0.30, 0.20, 0.00, 0.02, 0.20),   # dense escapes, blank-free
    (0.02, 0.01, 0.00, 0.01, 0.10),   # long blank-free words, rare escapes
    (0.05, 0.30, 0.05, 0.02, 0.30),   # control characters followed by hex-looking text
    (0.00, 0.00, 0.15, 0.00, 0.00),   # plain words
    (0.15, 0.05, 0.40, 0.02, 0.05),   # many blanks
]


def gen_string(rng, length, profile=None):
    p = profile or rng.choice(PROFILES)
    return ''.join(gen_char(rng, p) for _ in range(length))


def gen_near_fold(rng, avl):
    """a string whose escaped form has an escape sequence straddling column `avl` (+- a few)"""
    sp = rng.choice(SPECIALS + CONTROLS + ['\n', '\t', '\x01', '\x1f', '"', "'", '\\'])
    k = rng.randint(1, 3)
    n = max(0, avl * k + rng.randint(-8, 3))
    filler = rng.choice(['a', 'a', 'b', '0', 'F', 'x', "'", '\\', '\x02'])
    head = gen_string(rng, n, (0.0, 0.0, 0.0, 0.0, 0.0)) if rng.random() < 0.7 else filler * n
    if rng.random() < 0.25 and n > 3:
        i = rng.randrange(n)
        head = head[:i] + ' ' + head[i + 1:]
    tail = gen_string(rng, rng.choice([0, 1, 2, 5, 9, avl]), rng.choice(PROFILES))
    return head + sp * rng.choice([1, 1, 2, 3]) + tail


def classify(s):
    k = []
    if any(c in s for c in '"'):
        k.append('dq')
    if "'" in s:
        k.append('sq')
    if '\\' in s:
        k.append('bsl')
    if any(ord(c) < 32 for c in s):
        k.append('ctl')
    if ' ' in s:
        k.append('blank')
    if any(ord(c) > 127 for c in s):
        k.append('uni')
    return k


# --------------------------------------------------------------------------- real-code adapters (stage 1)

def exc_json(e):
    return common.exc_json(e)


def real_mofstr(c):
    from pywbem import _cim_obj
    try:
        m, p = _cim_obj.mofstr(c['s'], c['indent'], c['maxline'], c['pos'], c['es'], c['avoid'], chr(c['q']))
        return {'ok': {'mof': common.cps(m), 'pos': p}}
    except Exception as e:  # noqa
        return exc_json(e)


def real_mofval(c):
    from pywbem import _cim_obj
    try:
        m, p = _cim_obj.mofval(c['s'], c['indent'], c['maxline'], c['pos'], c['es'])
        return {'ok': {'mof': common.cps(m), 'pos': p}}
    except Exception as e:  # noqa
        return exc_json(e)


def real_fix(tok):
    from pywbem import _mof_compiler as mc
    try:
        return {'ok': common.cps(mc._fixStringValue(tok, None))}
    except Exception as e:  # noqa
        return exc_json(e)


_LEXER = None


def real_lexer():
    global _LEXER
    if _LEXER is None:
        from pywbem import _mof_compiler as mc
        _LEXER = mc._lex(False)
        _LEXER.last_msg = None
    return _LEXER


def real_first_token(text, want):
    """first token of `text` by the real PLY lexer: {"tok":cps,"rest":n} when it is a `want` token starting at
    offset 0, else {"tok":None}"""
    lx = real_lexer()
    lx.input(text)
    lx.lineno = 1
    try:
        t = lx.token()
    except Exception as e:  # noqa
        return {'exc': type(e).__name__}
    if t is None or t.type != want or t.lexpos != 0 or not isinstance(t.value, str):
        return {'tok': None}
    return {'tok': common.cps(t.value), 'rest': len(text) - len(t.value)}


_COMP = None


def compiler():
    """one MOFCompiler on MOFWBEMConnection(conn=None) per process; repository emptied between cases"""
    global _COMP
    from pywbem._mof_compiler import MOFCompiler, MOFWBEMConnection
    if _COMP is None:
        conn = MOFWBEMConnection(conn=None)
        _COMP = (MOFCompiler(conn, verbose=False, log_func=None), conn)
    comp, conn = _COMP
    conn.classes.clear()
    conn.instances.clear()
    conn.qualifiers.clear()
    conn.class_names.clear()
    del conn.compile_ordered_classnames[:]
    comp.parser.qualcache = {}
    comp.parser.classnames = {}
    comp.parser.aliases = {}
    return comp, conn


NS = 'root/c08'


class CompileTimeout(Exception):
    """the real compiler did not come back within COMPILE_TIMEOUT seconds (the string-token regex of the lexer
    backtracks exponentially on a string literal with many \\x escapes that does not terminate properly)"""


COMPILE_TIMEOUT = 1.5


def _alarm(signum, frame):
    raise CompileTimeout()


def compile_mof(mof):
    """-> (conn, None) or (None, exception)"""
    import signal
    global _COMP
    comp, conn = compiler()
    old = signal.signal(signal.SIGALRM, _alarm)
    signal.setitimer(signal.ITIMER_REAL, COMPILE_TIMEOUT)
    try:
        comp.compile_string(mof, NS)
        return conn, None
    except CompileTimeout as e:
        _COMP = None
        return None, e
    except Exception as e:  # noqa
        return None, e
    finally:
        signal.setitimer(signal.ITIMER_REAL, 0)
        signal.signal(signal.SIGALRM, old)


def real_strlist(text):
    """the real lexer + parser on a stringValueList (wrapped in a qualifier declaration)"""
    conn, e = compile_mof('Qualifier Q : string =\n' + text + '\n, Scope(any);\n')
    if e is not None:
        return exc_json(e)
    v = conn.qualifiers[NS]['Q'].value
    if v is None:
        return {'ok': None}
    return {'ok': common.cps(v)}


# --------------------------------------------------------------------------- stage 1

def fold_params(rng):
    maxline = rng.choice([40, 41, 45, 60, 79, 80, 80, 80, 81, 100, 120, rng.randint(40, 120)])
    indent = rng.choice([0, 3, 3, 4, 6, 7, 9, 12, rng.randint(0, 20)])
    indent = min(indent, maxline - 8)
    pos = rng.choice([0, indent, indent + 1, rng.randint(0, maxline + 6), rng.randint(0, 30), maxline - 2, maxline - 3])
    es = rng.choice([0, 0, 1, 2, 3, 3, 5])
    return {'indent': indent, 'maxline': maxline, 'pos': pos, 'es': es, 'avoid': rng.random() < 0.5}


def gen_mofstr_case(rng, i):
    c = fold_params(rng)
    avl_new = c['maxline'] - c['indent'] - 2
    avl_cur = c['maxline'] - c['pos'] - 2
    r = rng.random()
    if r < 0.45:
        s = gen_near_fold(rng, avl_new)
    elif r < 0.55:
        s = gen_near_fold(rng, max(avl_cur, 1))
    elif r < 0.80:
        s = gen_string(rng, rng.choice([0, 1, 2, 5, 10, 30, avl_new - 1, avl_new, avl_new + 1, 2 * avl_new, 200, 330]))
    else:
        s = gen_string(rng, i % (4 * c['maxline']))
    c['s'] = s
    c['q'] = 34
    if rng.random() < 0.08:
        c['q'] = 39
    return c


def gen_literal_body(rng):
    """near-miss stream for the lexer / _fixStringValue: raw text between quotes"""
    out = []
    for _ in range(rng.choice([0, 1, 2, 3, 5, 8, 13])):
        x = rng.random()
        if x < 0.25:
            out.append('\\' + rng.choice(list('bfnrt\'"\\')))
        elif x < 0.50:
            out.append('\\' + rng.choice('xX') + ''.join(rng.choice('0123456789abcdefABCDEF')
                                                           for _ in range(rng.choice([1, 1, 2, 3, 4, 4, 5]))))
        elif x < 0.58:
            out.append('\\' + rng.choice(['q', 'x', 'X', 'xg', 'u0041', ' ', '0', 'N', 'x²', 'x1²', 'x٣']))
        elif x < 0.63:
            out.append(rng.choice(['"', "'", '\n', '\r', '\\']))
        else:
            out.append(gen_char(rng, rng.choice(PROFILES)))
    return ''.join(out)


def stage1(run):
    rng = run.rng
    n = 150000 if run.thorough else 16000
    cases = [gen_mofstr_case(rng, i) for i in range(n)]
    # deterministic sweep: every maxline 40..120 x every position of one escape around the fold column
    sweep = []
    for maxline in range(40, 121):
        if not run.thorough and maxline % 4 and maxline not in (79, 80, 81):
            continue
        for indent, pos, es, avoid in ((3, 23, 3, False), (6, 18, 1, True), (7, 30, 3, True)):
            avl = maxline - indent - 2
            for sp in ('"', '\x01', '\\', "'", '\n'):
                for d in range(-7, 2):
                    sweep.append({'s': 'a' * (avl + d) + sp + 'bbbbb', 'indent': indent, 'maxline': maxline,
                                  'pos': pos, 'es': es, 'avoid': avoid, 'q': 34})
    cases += sweep
    reqs = []
    for c in cases:
        reqs.append({'op': 'mofstr', 's': common.cps(c['s']), 'indent': c['indent'], 'maxline': c['maxline'],
                     'pos': c['pos'], 'es': c['es'], 'avoid': c['avoid'], 'q': c['q']})
    answers = common.run_driver(PROP, reqs)
    texts = []
    for c, a in zip(cases, answers):
        real = real_mofstr(c)
        case = {'op': 'mofstr', **c}
        folded = 'ok' in real and real['ok']['mof'].count(c['q']) > 2
        run.case(case, nontrivial=folded)
        run.count('mofstr:' + ('exc:' + real['exc'] if 'exc' in real else ('folded' if folded else 'one-line')))
        for k in classify(c['s']):
            run.count('mofstr-input:' + k)
        if a != real:
            run.disagree(case, a, real, 'mofstr')
        if 'ok' in real and c['q'] == 34:
            texts.append((case, common.from_cps(real['ok']['mof'])))
            # oracle: the text produced by the real mofstr(), read by the real compiler, is the original string
            oracle_string(run, case, common.from_cps(real['ok']['mof']), c['s'], 'mofstr')
        elif 'exc' in real:
            run.violate({'stage': 'string', 'kind': 'tomof_exception', 'exc': real['exc'], 'where': 'mofstr'}, case, real)

    # escape
    strs = [gen_string(rng, rng.choice([0, 1, 3, 10, 40])) for _ in range(1500)] + [chr(i) for i in range(0, 130)]
    ans = common.run_driver(PROP, [{'op': 'escape', 's': common.cps(s)} for s in strs])
    from pywbem import _cim_obj
    for s, a in zip(strs, ans):
        real = {'out': common.cps(_cim_obj._mof_escaped(s))}
        run.case({'op': 'escape', 's': s}, nontrivial=(real['out'] != common.cps(s)))
        if a != real:
            run.disagree({'op': 'escape', 's': s}, a, real, 'escape')

    # lexer tokens + _fixStringValue on a near-miss stream and on the real mofstr outputs
    lits = [gen_literal_body(rng) for _ in range(40000 if run.thorough else 6000)]
    reqs, meta = [], []
    for b in lits:
        q = '"' if rng.random() < 0.8 else "'"
        text = q + b + q + rng.choice(['', ' ', '"x"', ';', '\n'])
        op = 'lexstr' if q == '"' else 'lexchar'
        reqs.append({'op': op, 'text': common.cps(text)})
        meta.append((op, text))
        # _fixStringValue directly on the quoted body (whatever it is)
        reqs.append({'op': 'fix', 'tok': common.cps(q + b + q)})
        meta.append(('fix', q + b + q))
    ans = common.run_driver(PROP, reqs)
    for (op, text), a in zip(meta, ans):
        case = {'op': op, 'text': text}
        if op == 'fix':
            real = real_fix(text)
            run.count('fix:' + real.get('exc', 'ok'))
        else:
            real = real_first_token(text, 'stringValue' if op == 'lexstr' else 'charValue')
            run.count(op + ':' + ('token' if real.get('tok') else 'no-token'))
        run.case(case, nontrivial=('ok' in real or bool(real.get('tok'))))
        if a != real:
            run.disagree(case, a, real, op)

    # stringValueList through the real parser: real mofstr outputs + near-miss texts
    sl = [t for (_, t) in texts[:: (3 if run.thorough else 6)]]
    for _ in range(10000 if run.thorough else 1500):
        parts = ['"' + gen_literal_body(rng).replace("/", "|") + '"' for _ in range(rng.choice([1, 1, 2, 3]))]
        sl.append(rng.choice(['', ' ', '\n   ']).join(parts))
    ans = common.run_driver(PROP, [{'op': 'strlist', 'text': common.cps(t)} for t in sl])
    for t, a in zip(sl, ans):
        case = {'op': 'strlist', 'text': t}
        real = real_strlist(t)
        run.case(case, nontrivial='ok' in real)
        run.count('strlist:' + real.get('exc', 'ok'))
        model = a
        if a == {'lex': None}:
            model = {'exc': 'MOFParseError'}
        if model != real:
            run.disagree(case, a, real, 'strlist')


def item_json(v, typ):
    """a scalar as the model's Item: strings/char16 by value, other literals as printed by the real code on an
    unbounded line (number formatting is not modelled; placement is)"""
    from pywbem import _cim_obj
    if v is None:
        return None
    if typ == 'string':
        return {'s': common.cps(v)}
    if typ == 'char16':
        return {'c': common.cps(v)}
    if typ == 'datetime':
        return {'s': common.cps(str(v))}
    return {'l': common.cps(_cim_obj._scalar_value_tomof(v, typ, 0, 10 ** 6, 0, 0)[0])}


def stage1_values(run):
    """K for _value_tomof / mofval: arrays and scalars of every type, NULL items, placement bookkeeping"""
    from pywbem import _cim_obj
    rng = run.rng
    n = 40000 if run.thorough else 6000
    reqs, cases = [], []
    for i in range(n):
        c = fold_params(rng)
        typ = rng.choice(['string', 'string', 'string', 'char16', 'boolean', 'datetime', 'real64', 'real32', 'uint8',
                          'sint64', 'uint64'])
        if rng.random() < 0.75:
            k = rng.choice([0, 1, 2, 3, 5, 9, 14])
            v = []
            for _ in range(k):
                if rng.random() < 0.1:
                    v.append(None)
                elif typ == 'string':
                    v.append(gen_string(rng, rng.choice([0, 1, 3, 8, 20, 40, 70, 150])))
                else:
                    v.append(gen_scalar(rng, typ))
            jv = [item_json(x, typ) for x in v]
        else:
            v = gen_scalar(rng, typ) if rng.random() < 0.9 else None
            jv = item_json(v, typ)
        cases.append((c, typ, v))
        reqs.append({'op': 'value', 'v': jv, 'indent': c['indent'], 'maxline': c['maxline'], 'pos': c['pos'],
                     'es': c['es'], 'avoid': c['avoid']})
    ans = common.run_driver(PROP, reqs)
    for (c, typ, v), a in zip(cases, ans):
        try:
            m, p = _cim_obj._value_tomof(v, typ, c['indent'], c['maxline'], c['pos'], c['es'], c['avoid'])
            real = {'ok': {'mof': common.cps(m), 'pos': p}}
        except Exception as e:  # noqa
            real = exc_json(e)
        case = {'op': 'value', 'type': typ, 'v': repr(v)[:2000], **c}
        run.case(case, nontrivial=('ok' in real and 10 in real['ok']['mof']))
        run.count('value:' + typ + ('[]' if isinstance(v, list) else '') + ':' + real.get('exc', 'ok'))
        if a != real:
            run.disagree(case, a, real, 'value_tomof')


def gen_numeric_text(rng):
    """near-miss stream for the five numeric token rules"""
    d = '0123456789'
    r = rng.random()
    sign = rng.choice(['', '', '', '+', '-'])
    digs = lambda n, al=d: ''.join(rng.choice(al) for _ in range(n))  # noqa: E731
    if r < 0.2:
        body = rng.choice(['0', '00', '007', '08', '0' + digs(rng.randint(1, 4)), digs(rng.randint(1, 20))])
    elif r < 0.4:
        body = digs(rng.randint(0, 3)) + '.' + digs(rng.randint(0, 3)) + rng.choice(
            ['', '', 'e', 'E5', 'e+', 'e-07', 'E+12x', 'e5.5', '.5'])
    elif r < 0.55:
        body = '0' + rng.choice('xXyb') + digs(rng.randint(0, 5), '0123456789abcdefABCDEFg')
    elif r < 0.7:
        body = digs(rng.randint(0, 6), '01012') + rng.choice(['b', 'B', 'b1', ''])
    elif r < 0.85:
        body = str(rng.choice([0, 1, 9, 10, 255, 65535, 2 ** 31, 2 ** 63 - 1, 2 ** 64 - 1, 10 ** 30,
                               rng.randint(0, 10 ** rng.randint(1, 25))]))
    else:
        body = digs(rng.randint(1, 3)) + rng.choice(['e5', 'a', 'x1', ' 1', ',', '_', '٣', '²'])
    return sign + body + rng.choice(['', '', ';', ',', ' ', ')', 'b', '.', 'e1', '0'])


NUM_TYPES = ('floatValue', 'hexValue', 'binaryValue', 'octalValue', 'decimalValue', 'error')


def real_number_token(text):
    lx = real_lexer()
    lx.input(text)
    lx.lineno = 1
    try:
        t = lx.token()
    except Exception as e:  # noqa
        return {'exc': type(e).__name__}
    if t is None or t.lexpos != 0 or t.type not in NUM_TYPES:
        return {'tok': None}
    rest = len(text) - lx.lexpos
    if t.type == 'floatValue':
        return {'tok': 'float', 'value': repr(t.value), 'rest': rest}
    if t.type == 'error':
        # t_error (illegal character) also yields type 'error': value = rest of input, 1 char skipped
        if not (isinstance(t.value, str) and len(t.value) >= 2 and (t.value[0] in '+-0123456789')
                and lx.lexpos == len(t.value)):
            return {'tok': None}
        return {'tok': 'error', 'text': common.cps(t.value), 'rest': rest}
    return {'tok': 'int', 'v': str(t.value), 'rest': rest}


def stage1_numbers(run):
    rng = run.rng
    n = 60000 if run.thorough else 8000
    texts = [gen_numeric_text(rng) for _ in range(n)]
    ans = common.run_driver(PROP, [{'op': 'lexnum', 'text': common.cps(t)} for t in texts])
    for t, a in zip(texts, ans):
        real = real_number_token(t)
        model = dict(a)
        if model.get('tok') == 'float':
            try:
                model = {'tok': 'float', 'value': repr(float(common.from_cps(model['text']))), 'rest': model['rest']}
            except Exception:  # noqa
                model = {'tok': 'float', 'value': 'unparsable', 'rest': model['rest']}
        case = {'op': 'lexnum', 'text': t}
        run.case(case, nontrivial=bool(real.get('tok')))
        run.count('lexnum:' + str(real.get('tok')))
        if model != real:
            run.disagree(case, a, real, 'lexnum')
    # str(int) of the model = Python's
    vals = [0, 1, -1, 9, 10, -10, 99, 100, 2 ** 63, -2 ** 63, 2 ** 64 - 1] + \
        [rng.randint(-10 ** rng.randint(1, 30), 10 ** rng.randint(1, 30)) for _ in range(500)]
    ans = common.run_driver(PROP, [{'op': 'intstr', 'v': str(v)} for v in vals])
    for v, a in zip(vals, ans):
        run.case({'op': 'intstr', 'v': str(v)}, nontrivial=True)
        if a != {'out': common.cps(str(v))}:
            run.disagree({'op': 'intstr', 'v': str(v)}, a, {'out': common.cps(str(v))}, 'intstr')


def real_strarray(text):
    conn, e = compile_mof('Qualifier Q : string[] = {' + text + '}\n, Scope(any);\n')
    if e is not None:
        return exc_json(e)
    v = conn.qualifiers[NS]['Q'].value
    return {'ok': [common.cps(x) for x in v]}


def stage1_arrays(run):
    """K for the array initializer of strings (model: lexArray/groupToks/stringValueLists) + oracle on the
    text of the real _value_tomof"""
    from pywbem import _cim_obj
    rng = run.rng
    n = 8000 if run.thorough else 1500
    texts = []
    for i in range(n):
        c = fold_params(rng)
        if rng.random() < 0.7:
            k = rng.choice([1, 1, 2, 3, 5, 9])
            v = [gen_string(rng, rng.choice([0, 1, 3, 8, 20, 40, 70, 150])) for _ in range(k)]
            m, _ = _cim_obj._value_tomof(v, 'string', c['indent'], c['maxline'], c['pos'], c['es'], c['avoid'])
            texts.append((m, v, c))
        else:
            parts = []
            for _ in range(rng.choice([1, 2, 3])):
                parts.append(rng.choice(['', ' ', '\n  ']).join(
                    '"' + gen_literal_body(rng).replace("/", "|") + '"' for _ in range(rng.choice([0, 1, 1, 2]))))
            texts.append((rng.choice([', ', ',', ' ,\n']).join(parts) + rng.choice(['', '', ',']), None, None))
    ans = common.run_driver(PROP, [{'op': 'strarray', 'text': common.cps(t)} for t, _, _ in texts])
    for (t, v, c), a in zip(texts, ans):
        if not t.strip():
            continue
        real = real_strarray(t)
        case = {'op': 'strarray', 'text': t}
        run.case(case, nontrivial='ok' in real)
        run.count('strarray:' + real.get('exc', 'ok'))
        model = {'exc': 'MOFParseError'} if a == {'lex': None} else a
        if model != real:
            run.disagree(case, a, real, 'strarray')
        if v is not None:
            # oracle: array written by the real _value_tomof, read by the real compiler
            ocase = {'op': 'value_array', 'v': v, **c}
            if 'exc' in real:
                run.violate({'stage': 'string', 'kind': 'recompile_exception', 'exc': real['exc'],
                             'where': 'value_tomof_array'}, ocase, {'mof': t, 'result': real})
            elif real['ok'] != [common.cps(x) for x in v]:
                run.violate({'stage': 'string', 'kind': 'value_differs', 'where': 'value_tomof_array'}, ocase,
                            {'mof': t, 'compiled': real['ok']})


def oracle_string(run, case, mof_text, original, where):
    real = real_strlist(mof_text)
    if 'exc' in real:
        run.violate({'stage': 'string', 'kind': 'recompile_exception', 'exc': real['exc'], 'where': where},
                    case, {'mof': mof_text, 'result': real})
    elif real['ok'] != common.cps(original):
        run.violate({'stage': 'string', 'kind': 'value_differs', 'where': where}, case,
                    {'mof': mof_text, 'compiled': real['ok']})


# =========================================================================== stage 2: declarations

INT_LIMITS = {'uint8': (0, 2**8 - 1), 'sint8': (-2**7, 2**7 - 1), 'uint16': (0, 2**16 - 1), 'sint16': (-2**15, 2**15 - 1),
              'uint32': (0, 2**32 - 1), 'sint32': (-2**31, 2**31 - 1), 'uint64': (0, 2**64 - 1),
              'sint64': (-2**63, 2**63 - 1)}
QUAL_TYPES = ['string', 'boolean', 'datetime', 'char16', 'real32', 'real64'] + list(INT_LIMITS)
SCOPES = ['CLASS', 'ASSOCIATION', 'INDICATION', 'PROPERTY', 'REFERENCE', 'METHOD', 'PARAMETER', 'ANY']
REALS64 = [0.0, 1.0, -1.0, 1.5, -2.25, 0.1, 1e16, 1e-5, 123456789.125, 1.7976931348623157e308, 5e-324, 2.5e-7,
           1e22, 1e21, 12345678901234567890.0, 3.141592653589793, -0.0, 1e100, 9007199254740993.0]
REALS32 = [0.0, 1.0, -1.0, 1.5, -2.25, 0.1, 1e16, 1e-5, 3.4028234663852886e38, 1.401298464324817e-45, 16777217.0, -0.0]


def gen_name(rng, prefix):
    n = prefix + ''.join(rng.choice('abcXYZ019_') for _ in range(rng.choice([1, 2, 4, 7])))
    return n


def gen_text(rng):
    """a string value: mostly short, sometimes long enough to be folded once or several times"""
    n = rng.choice([0, 1, 2, 3, 5, 8, 12, 20, 30, 45, 60, 70, 72, 74, 76, 80, 100, 150, 230])
    if rng.random() < 0.25:
        return gen_near_fold(rng, rng.choice([60, 66, 69, 70, 72, 75, 100]))
    return gen_string(rng, n)


def gen_datetime(rng):
    import pywbem
    if rng.random() < 0.5:
        return pywbem.CIMDateTime('%04d%02d%02d%02d%02d%02d.%06d%s%03d' % (
            rng.randint(1, 9999), rng.randint(1, 12), rng.randint(1, 28), rng.randint(0, 23), rng.randint(0, 59),
            rng.randint(0, 59), rng.randint(0, 999999), rng.choice('+-'), rng.randint(0, 720)))
    return pywbem.CIMDateTime('%08d%02d%02d%02d.%06d:000' % (
        rng.randint(0, 99999999), rng.randint(0, 23), rng.randint(0, 59), rng.randint(0, 59), rng.randint(0, 999999)))


def gen_scalar(rng, typ):
    import pywbem
    if typ == 'string':
        return gen_text(rng)
    if typ == 'char16':
        return gen_char(rng, rng.choice(PROFILES))
    if typ == 'boolean':
        return rng.random() < 0.5
    if typ == 'datetime':
        return gen_datetime(rng)
    if typ == 'real32':
        return pywbem.Real32(rng.choice(REALS32 + [rng.uniform(-1e3, 1e3)]))
    if typ == 'real64':
        return pywbem.Real64(rng.choice(REALS64 + [rng.uniform(-1e6, 1e6), rng.random() * 10 ** rng.randint(-30, 30)]))
    lo, hi = INT_LIMITS[typ]
    v = rng.choice([lo, hi, 0, 1, lo + 1, hi - 1, rng.randint(lo, hi), rng.randint(max(lo, -100), min(hi, 100))])
    return pywbem.cimtype_cls(typ)(v) if hasattr(pywbem, 'cimtype_cls') else pywbem.cimvalue(v, typ)


def gen_value(rng, typ, is_array, allow_null_items=False):
    if not is_array:
        return gen_scalar(rng, typ)
    n = rng.choice([0, 1, 1, 2, 3, 5, 9])
    out = []
    for _ in range(n):
        if allow_null_items and rng.random() < 0.1:
            out.append(None)
        else:
            out.append(gen_scalar(rng, typ))
    return out


def gen_qualdecl(rng, name=None, typ=None, is_array=None, with_value=None):
    import pywbem
    typ = typ or rng.choice(QUAL_TYPES)
    is_array = (rng.random() < 0.3) if is_array is None else is_array
    array_size = rng.choice([None, None, 1, 5, 70000]) if is_array else None
    with_value = (rng.random() < 0.7) if with_value is None else with_value
    value = gen_value(rng, typ, is_array) if with_value else None
    r = rng.random()
    if r < 0.2:
        scopes = {'ANY': True}
    elif r < 0.4:
        scopes = {s: (rng.random() < 0.5) for s in SCOPES}
    else:
        scopes = {s: True for s in rng.sample(SCOPES, rng.randint(1, 4))}
    if not any(scopes.values()):
        scopes[rng.choice(SCOPES)] = True
    return pywbem.CIMQualifierDeclaration(
        name or gen_name(rng, 'Q'), typ, value=value, is_array=is_array, array_size=array_size, scopes=scopes,
        overridable=rng.choice([None, True, False]), tosubclass=rng.choice([None, True, False]),
        translatable=rng.choice([None, True, False]), toinstance=rng.choice([None, None, False]))


# ---- what MOF can express: normal form of the original before comparing

def norm_qualdecl(qd):
    """scopes: the 8 DSP0004 scope keywords, absent = False; translatable False = not specified (MOF has no
    keyword for 'not translatable'); toinstance is documented as not representable in MOF"""
    q = qd.copy()
    q.scopes = dict((s, bool(qd.scopes.get(s, False))) for s in SCOPES)
    if q.translatable is False:
        q.translatable = None
    q.toinstance = None
    return q


def qualifier_for(rng, qd, value=None):
    """a qualifier value of declaration qd as the compiler can return it: CIMQualifier.tomof() writes no flavors,
    so the flavors of the compiled qualifier are those of the declaration in the repository"""
    import pywbem
    if value is None:
        value = gen_value(rng, qd.type, qd.is_array)
    name = recase(_RECASE, qd.name) if _RECASE is not None and _RECASE.random() < 0.5 else qd.name
    return pywbem.CIMQualifier(name, value, type=qd.type, overridable=qd.overridable, tosubclass=qd.tosubclass,
                               translatable=qd.translatable, toinstance=qd.toinstance)


def gen_qualifiers(rng, decls, scope, maxn=3):
    out = []
    cands = [d for d in decls if (d.scopes.get('ANY') or d.scopes.get(scope))
             and d.name not in ('Key', 'EmbeddedInstance', 'EmbeddedObject')]
    rng.shuffle(cands)
    for d in cands[:rng.randint(0, maxn)]:
        q = qualifier_for(rng, d)
        if rng.random() < 0.06:
            q.value = None          # an explicit NULL qualifier value: written as `Q ( NULL )`
        out.append(q)
    return out


def gen_class(rng, decls, name, superclass=None, refclasses=(), embed=None):
    import pywbem
    props, methods = [], []
    dn = dict((d.name, d) for d in decls)
    if embed and 'EmbeddedInstance' in dn and 'EmbeddedObject' in dn:
        for i in range(rng.choice([0, 1, 1, 2])):
            is_array = rng.random() < 0.3
            if rng.random() < 0.5:
                q = qualifier_for(rng, dn['EmbeddedInstance'], embed)
            else:
                q = qualifier_for(rng, dn['EmbeddedObject'], True)
            props.append(pywbem.CIMProperty(gen_name(rng, 'e%d' % i), None, type='string', is_array=is_array,
                                            qualifiers=[q], class_origin=name))
    for i in range(rng.randint(0, 5)):
        r = rng.random()
        pname = gen_name(rng, 'p%d' % i)
        quals = gen_qualifiers(rng, decls, 'PROPERTY')
        if r < 0.12 and refclasses:
            rcls = rng.choice(refclasses)
            # a default instance path (keys inside the C07-safe domain), with or without qualifiers on the property
            rval = None
            if rng.random() < 0.5:
                kv = rng.choice([gen_string(rng, rng.randint(1, 9), (0, 0, 0.1, 0, 0.3)).replace('=', '').replace(',', ''),
                                 pywbem.Uint8(rng.randint(0, 255)), rng.random() < 0.5])
                rval = pywbem.CIMInstanceName(rcls, keybindings={'k': kv})
            props.append(pywbem.CIMProperty(pname, rval, type='reference', reference_class=rcls,
                                            qualifiers=gen_qualifiers(rng, decls, 'REFERENCE'), class_origin=name))
            continue
        typ = rng.choice(QUAL_TYPES)
        is_array = rng.random() < 0.3
        array_size = rng.choice([None, None, 3, 100]) if is_array else None
        value = gen_value(rng, typ, is_array) if rng.random() < 0.6 else None
        props.append(pywbem.CIMProperty(pname, value, type=typ, is_array=is_array, array_size=array_size,
                                        qualifiers=quals, class_origin=name))
    for i in range(rng.randint(0, 2)):
        params = []
        for j in range(rng.randint(0, 3)):
            r = rng.random()
            if r < 0.2 and refclasses:
                is_array = rng.random() < 0.3
                params.append(pywbem.CIMParameter(gen_name(rng, 'a%d' % j), 'reference',
                                                  reference_class=rng.choice(refclasses), is_array=is_array,
                                                  array_size=rng.choice([None, 4]) if is_array else None,
                                                  qualifiers=gen_qualifiers(rng, decls, 'PARAMETER')))
            else:
                is_array = rng.random() < 0.3
                params.append(pywbem.CIMParameter(gen_name(rng, 'a%d' % j), rng.choice(QUAL_TYPES), is_array=is_array,
                                                  array_size=rng.choice([None, 4]) if is_array else None,
                                                  qualifiers=gen_qualifiers(rng, decls, 'PARAMETER')))
        methods.append(pywbem.CIMMethod(gen_name(rng, 'm%d' % i), rng.choice(QUAL_TYPES), parameters=params,
                                        qualifiers=gen_qualifiers(rng, decls, 'METHOD'), class_origin=name))
    # at most one key: a scalar string/integer property (the Key declaration is part of the given context)
    keyable = [p for p in props if not p.is_array and p.type in ('string', 'uint8', 'sint32', 'uint64')
               and 'EmbeddedInstance' not in p.qualifiers and 'EmbeddedObject' not in p.qualifiers]
    if keyable and any(d.name == 'Key' for d in decls) and rng.random() < 0.5:
        kd = [d for d in decls if d.name == 'Key'][0]
        rng.choice(keyable).qualifiers['Key'] = qualifier_for(rng, kd, True)
    return pywbem.CIMClass(name, properties=props, methods=methods, superclass=superclass,
                           qualifiers=gen_qualifiers(rng, decls, 'CLASS'))


def gen_instance(rng, cls, embed_cls=None, depth=0):
    """an instance of cls with values for a random subset of its properties; the property objects carry the
    attributes the compiler takes over from the class declaration"""
    import pywbem
    props = []
    for cp in cls.properties.values():
        if rng.random() < 0.25:
            continue
        emb = 'instance' if 'EmbeddedInstance' in cp.qualifiers else 'object' if 'EmbeddedObject' in cp.qualifiers \
            else None
        if emb:
            if embed_cls is None or depth > 0:
                continue
            n = rng.choice([1, 1, 2, 3]) if cp.is_array else 1
            vals = [gen_instance(rng, embed_cls, None, depth + 1) for _ in range(n)]
            if any(v is None for v in vals):
                continue
            p = cp.copy()
            p.qualifiers = type(cp.qualifiers)()
            p.value = vals if cp.is_array else vals[0]
            p.embedded_object = emb
            props.append(p)
            continue
        if cp.type == 'reference':
            # keys kept inside the domain where the WBEM URI round trip (C07) is not in question
            kv = rng.choice([gen_string(rng, rng.randint(0, 9), (0, 0, 0.1, 0, 0.3)).replace('=', '').replace(',', ''),
                             pywbem.Uint8(rng.randint(0, 255)), rng.random() < 0.5])
            value = pywbem.CIMInstanceName(cp.reference_class, keybindings={'k': kv}) if rng.random() < 0.8 else None
        elif 'Key' in cp.qualifiers:
            value = gen_scalar(rng, cp.type)
        else:
            value = gen_value(rng, cp.type, cp.is_array, allow_null_items=True) if rng.random() < 0.85 else None
        p = cp.copy()
        p.qualifiers = pywbem.NocaseDict() if hasattr(pywbem, 'NocaseDict') else type(cp.qualifiers)()
        p.value = value
        props.append(p)
    if not props:
        return None
    return pywbem.CIMInstance(cls.classname, properties=props)


# ---- running one declaration through tomof() and the real compiler

def seed_context(conn, decls=(), classes=()):
    import copy
    from pywbem._nocasedict import NocaseDict
    conn.qualifiers[NS] = NocaseDict()
    for d in decls:
        conn.qualifiers[NS][d.name] = d.copy()
    conn.classes[NS] = NocaseDict()
    for c in classes:
        conn.classes[NS][c.classname] = copy.deepcopy(c)
    conn.instances[NS] = []


def roundtrip(obj, maxline, decls=(), classes=()):
    """-> dict(mof=, exc=|compiled=)   (tomof and compile both on the real code)"""
    import pywbem
    import signal
    global _COMP
    try:
        mof = obj.tomof(maxline)
    except Exception as e:  # noqa
        cause = 'other'
        if isinstance(e, ValueError):
            # mofval(): a non-string literal that does not fit on a line of its own -> goes away with a wider line
            try:
                obj.tomof(maxline + 60)
                cause = 'literal_wider_than_line'
            except Exception:  # noqa
                pass
        return {'mof': None, 'tomof_exc': type(e).__name__, 'cause': cause}
    comp, conn = compiler()
    seed_context(conn, decls, classes)
    old = signal.signal(signal.SIGALRM, _alarm)
    signal.setitimer(signal.ITIMER_REAL, COMPILE_TIMEOUT)
    try:
        comp.compile_string(mof, NS)
    except CompileTimeout:
        _COMP = None
        return {'mof': mof, 'exc': 'CompileTimeout'}
    except Exception as e:  # noqa
        return {'mof': mof, 'exc': type(e).__name__, 'msg': str(e)[:300]}
    finally:
        signal.setitimer(signal.ITIMER_REAL, 0)
        signal.signal(signal.SIGALRM, old)
    if isinstance(obj, pywbem.CIMQualifierDeclaration):
        got = conn.qualifiers[NS].get(obj.name)
    elif isinstance(obj, pywbem.CIMClass):
        got = conn.classes[NS].get(obj.classname)
    else:
        insts = conn.instances[NS]
        got = insts[-1] if insts else None
    return {'mof': mof, 'compiled': got}


def value_diff(a, b, typ):
    """'' if equal; otherwise a short classification of how the compiled value b differs from the original a"""
    import pywbem
    if a is None or b is None:
        return '' if a is b else ('null_became_value' if a is None else 'value_became_null')
    if isinstance(a, list) != isinstance(b, list):
        return 'array_shape'
    if isinstance(a, list):
        if len(a) != len(b):
            return 'array_length'
        for x, y in zip(a, b):
            d = value_diff(x, y, typ)
            if d:
                return d
        return ''
    if type(a) is not type(b) and not (isinstance(a, str) and isinstance(b, str)):
        return 'python_type=%s->%s' % (type(a).__name__, type(b).__name__)
    if isinstance(a, pywbem.CIMInstance):
        # embedded instance: classify by the aspects of the nested comparison
        nested = aspects(a, b)
        if not nested:
            b2 = b.copy()
            b2.path = a.path
            return '' if a == b2 else 'embedded=python_eq'
        if all(x.endswith(':char16:char16_literal_text') for x in nested):
            return 'char16_literal_text@embedded'
        return 'embedded=' + nested[0].replace(':', '=')
    if isinstance(a, float):
        import struct
        return '' if struct.pack('>d', a) == struct.pack('>d', b) else 'float_value'
    if typ == 'char16' and isinstance(a, str) and b != a:
        if b == "'" + pywbem._cim_obj._mof_escaped(a) + "'":
            return 'char16_literal_text'
        return 'char16_value'
    return '' if a == b else 'value'


_CMP_FLAVORS = True


def aspects_qualifier(a, b, path):
    out = []
    if a.name.lower() != b.name.lower():
        out.append(path + ':name')
    if a.type != b.type:
        out.append(path + ':type')
    d = value_diff(a.value, b.value, a.type)
    if d:
        out.append(path + ':value:' + a.type + ':' + d)
    for f in ('overridable', 'tosubclass', 'translatable', 'toinstance'):
        if _CMP_FLAVORS and getattr(a, f) != getattr(b, f):
            out.append(path + ':flavor:' + f)
    return out


def aspects_qualifiers(a, b, path):
    out = []
    an = [k.lower() for k in a.keys()]
    bn = [k.lower() for k in b.keys()]
    if sorted(an) != sorted(bn):
        return [path + ':qualifier_set']
    for k in a.keys():
        out += aspects_qualifier(a[k], b[k], path + '.qualifier')
    return out


def aspects_typed(a, b, path, with_value=True):
    """CIMProperty / CIMParameter"""
    out = []
    if a.name.lower() != b.name.lower():
        out.append(path + ':name')
    if a.type != b.type:
        out.append(path + ':type')
    if bool(a.is_array) != bool(b.is_array) or a.array_size != b.array_size:
        out.append(path + ':array_shape')
    if (a.reference_class or '').lower() != (b.reference_class or '').lower():
        out.append(path + ':reference_class')
    if with_value:
        d = value_diff(a.value, b.value, a.type)
        if d:
            out.append(path + ':value:' + a.type + ':' + d)
    return out


def aspects(orig, got):
    """list of aspects (names, types, array shape, values, qualifier values and flavors) in which the compiled
    object differs from the original — the property's own list; nothing else is compared"""
    import pywbem
    if got is None:
        return ['missing']
    out = []
    if isinstance(orig, pywbem.CIMQualifierDeclaration):
        a, b = norm_qualdecl(orig), got
        if a.name.lower() != b.name.lower():
            out.append('qualdecl:name')
        if a.type != b.type:
            out.append('qualdecl:type')
        if bool(a.is_array) != bool(b.is_array) or a.array_size != b.array_size:
            out.append('qualdecl:array_shape')
        d = value_diff(a.value, b.value, a.type)
        if d:
            out.append('qualdecl:value:' + a.type + ':' + d)
        if dict((s, bool(b.scopes.get(s, False))) for s in SCOPES) != a.scopes:
            out.append('qualdecl:scopes')
        for f in ('overridable', 'tosubclass', 'translatable', 'toinstance'):
            if getattr(a, f) != getattr(b, f):
                out.append('qualdecl:flavor:' + f)
        return out
    if isinstance(orig, pywbem.CIMClass):
        if orig.classname.lower() != got.classname.lower():
            out.append('class:name')
        if (orig.superclass or '').lower() != (got.superclass or '').lower():
            out.append('class:superclass')
        out += aspects_qualifiers(orig.qualifiers, got.qualifiers, 'class')
        if [k.lower() for k in orig.properties.keys()] != [k.lower() for k in got.properties.keys()]:
            out.append('class:property_set')
        else:
            for k in orig.properties.keys():
                out += aspects_typed(orig.properties[k], got.properties[k], 'class.property')
                out += aspects_qualifiers(orig.properties[k].qualifiers, got.properties[k].qualifiers, 'class.property')
        if [k.lower() for k in orig.methods.keys()] != [k.lower() for k in got.methods.keys()]:
            out.append('class:method_set')
        else:
            for k in orig.methods.keys():
                m, n = orig.methods[k], got.methods[k]
                if m.return_type != n.return_type:
                    out.append('class.method:return_type')
                out += aspects_qualifiers(m.qualifiers, n.qualifiers, 'class.method')
                if [x.lower() for x in m.parameters.keys()] != [x.lower() for x in n.parameters.keys()]:
                    out.append('class.method:parameter_set')
                else:
                    for x in m.parameters.keys():
                        out += aspects_typed(m.parameters[x], n.parameters[x], 'class.parameter', with_value=False)
                        out += aspects_qualifiers(m.parameters[x].qualifiers, n.parameters[x].qualifiers,
                                                  'class.parameter')
        return out
    # instance
    if orig.classname.lower() != got.classname.lower():
        out.append('instance:classname')
    if [k.lower() for k in orig.properties.keys()] != [k.lower() for k in got.properties.keys()]:
        out.append('instance:property_set')
    else:
        for k in orig.properties.keys():
            out += aspects_typed(orig.properties[k], got.properties[k], 'instance.property')
    return out


def check_decl(run, kind, obj, maxline, decls=(), classes=(), case_extra=None):
    """oracle for one declaration: tomof -> compile -> compare; returns the roundtrip result"""
    r = roundtrip(obj, maxline, decls, classes)
    case = {'op': 'decl', 'kind': kind, 'maxline': maxline, 'obj': obj_repr(obj),
            'decls': [obj_repr(d) for d in decls], 'classes': [obj_repr(c) for c in classes]}
    judge(run, kind, obj, r, case, 'decl')
    return r, case


def judge(run, kind, obj, r, case, stage, extra=None):
    """the property on one round-trip result r (of roundtrip / session_roundtrip); returns #violations added"""
    n0 = len(run.violations)
    base = {'stage': stage, 'decl': kind}
    base.update(extra or {})
    if r.get('tomof_exc'):
        run.violate(dict(base, kind='tomof_exception', exc=r['tomof_exc'], cause=r['cause']), case, {})
        return 1
    if 'exc' in r:
        run.violate(dict(base, kind='recompile_exception', exc=r['exc'], cause=classify_compile_failure(obj, r)),
                    case, {'mof': r['mof'], 'msg': r.get('msg')})
        return 1
    asp = aspects(obj, r['compiled'])
    for a in sorted(set(asp)):
        f = a.split(':')
        sig = dict(base, kind='differs', where=f[0], what=f[1] if len(f) > 1 else '')
        if len(f) > 3:
            sig['type'], sig['how'] = f[2], f[3]
            if sig['how'] == 'char16_literal_text@embedded':
                sig['type'], sig['how'], sig['where'] = 'char16', 'char16_literal_text', sig['where'] + '.embedded'
        elif len(f) > 2:
            sig['which'] = f[2]
        run.violate(sig, case, {'mof': r['mof'], 'compiled': repr(r['compiled'])[:3000]})
    if not asp:
        pe = python_eq(obj, r['compiled'])
        run.count('%s:%s:python_eq=%s' % (stage, kind, pe))
        if pe is not True:
            run.violate(dict(base, kind='differs', where=kind, what='python_eq', which=str(pe)), case,
                        {'mof': r['mof'], 'compiled': repr(r['compiled'])[:3000]})
    return len(run.violations) - n0


def python_eq(orig, got):
    """statistic only: does `==` of the pywbem objects agree once the listed aspects agree?"""
    import pywbem
    try:
        if isinstance(orig, pywbem.CIMQualifierDeclaration):
            return norm_qualdecl(orig) == norm_qualdecl(got)
        if isinstance(orig, pywbem.CIMInstance):
            g = got.copy()
            g.path = orig.path
            return orig == g
        return orig == got
    except Exception as e:  # noqa
        return type(e).__name__


def classify_compile_failure(obj, r):
    """coarse cause of a compile failure, from the generated text only (for precise known-finding matching)"""
    import re
    mof = r.get('mof') or ''
    if any(ord(ch) > 127 for n in names_of(obj) for ch in n):
        return 'non_ascii_identifier'
    if re.search(r'(?<![\w."\'])[+-]?(inf|nan)\b', mof):
        return 'real_inf_nan'
    if re.search(r'(?<![\w."\'.])[+-]?[0-9]+[eE][+-]?[0-9]+', mof):
        return 'real_exponent_without_point'
    return 'other'


def names_of(obj):
    """all identifiers the MOF text of obj contains"""
    import pywbem
    out = []
    if isinstance(obj, pywbem.CIMQualifierDeclaration):
        return [obj.name]
    if isinstance(obj, pywbem.CIMInstance):
        out = [obj.classname] + list(obj.properties.keys())
        for p in obj.properties.values():
            vals = p.value if isinstance(p.value, list) else [p.value]
            for v in vals:
                if isinstance(v, pywbem.CIMInstance):
                    out += names_of(v)      # embedded instance: its MOF text is compiled, too
        return out
    out += [obj.classname, obj.superclass or ''] + list(obj.qualifiers.keys())
    for p in obj.properties.values():
        out += [p.name, p.reference_class or ''] + list(p.qualifiers.keys())
    for m in obj.methods.values():
        out += [m.name] + list(m.qualifiers.keys())
        for a in m.parameters.values():
            out += [a.name, a.reference_class or ''] + list(a.qualifiers.keys())
    return out


def obj_repr(o):
    """replayable representation: pickle, base64"""
    import base64
    import pickle
    return base64.b64encode(pickle.dumps(o, protocol=2)).decode('ascii')


def obj_load(s):
    import base64
    import pickle
    return pickle.loads(base64.b64decode(s))


def KEY_DECL():
    import pywbem
    return pywbem.CIMQualifierDeclaration('Key', 'boolean', value=False, scopes={'PROPERTY': True, 'REFERENCE': True},
                                          overridable=False, tosubclass=True)


def std_decls(rng):
    """a pool of qualifier declarations: a few DMTF-like ones plus random ones of every type"""
    import pywbem
    out = [
        KEY_DECL(),
        pywbem.CIMQualifierDeclaration('Description', 'string', value=None, scopes={'ANY': True},
                                       overridable=True, tosubclass=True, translatable=True),
        pywbem.CIMQualifierDeclaration('Values', 'string', is_array=True, value=None, scopes={'PROPERTY': True, 'METHOD': True, 'PARAMETER': True},
                                       overridable=True, tosubclass=True, translatable=True),
        pywbem.CIMQualifierDeclaration('ValueMap', 'string', is_array=True, value=None, scopes={'PROPERTY': True, 'METHOD': True, 'PARAMETER': True}),
        pywbem.CIMQualifierDeclaration('Abstract', 'boolean', value=False, scopes={'CLASS': True, 'ASSOCIATION': True, 'INDICATION': True},
                                       overridable=True, tosubclass=False),
        pywbem.CIMQualifierDeclaration('MaxLen', 'uint32', value=None, scopes={'PROPERTY': True, 'METHOD': True, 'PARAMETER': True}),
        pywbem.CIMQualifierDeclaration('EmbeddedInstance', 'string', value=None,
                                       scopes={'PROPERTY': True, 'METHOD': True, 'PARAMETER': True}),
        pywbem.CIMQualifierDeclaration('EmbeddedObject', 'boolean', value=False,
                                       scopes={'PROPERTY': True, 'METHOD': True, 'PARAMETER': True},
                                       overridable=False, tosubclass=True),
    ]
    for t in QUAL_TYPES:
        out.append(gen_qualdecl(rng, name='X' + t, typ=t, is_array=False))
        if rng.random() < 0.5:
            out.append(gen_qualdecl(rng, name='A' + t, typ=t, is_array=True))
    return out


def stage2(run):
    rng = run.rng
    n_q, n_c, n_i = (20000, 10000, 10000) if run.thorough else (2000, 1000, 1000)
    maxlines = lambda: rng.choice([40, 60, 80, 80, 80, 100, 120, rng.randint(40, 120)])  # noqa: E731
    for _ in range(n_q):
        qd = gen_qualdecl(rng)
        ml = maxlines()
        r, case = check_decl(run, 'qualifierdecl', qd, ml)
        run.case(case, nontrivial=qd.value is not None)
        run.count('decl:qualifierdecl:' + qd.type + ('[]' if qd.is_array else ''))
    # identifiers with non-ASCII characters (DSP0004: U+0080..U+FFEF): a separate stream of otherwise trivial
    # objects, so that known finding C08-F3 cannot hide another failure of a rich object
    import pywbem
    for _ in range(40 if run.thorough else 12):
        nm = gen_name(rng, 'N') + rng.choice(['é', '中', 'Ü', 'ß', '€'])
        k = rng.choice(['qualifierdecl', 'class', 'property', 'instance'])
        if k == 'qualifierdecl':
            obj, ctx = pywbem.CIMQualifierDeclaration(nm, 'uint8', value=pywbem.Uint8(1), scopes={'ANY': True}), []
        elif k == 'class':
            obj, ctx = pywbem.CIMClass(nm), []
        elif k == 'property':
            obj, ctx = pywbem.CIMClass('C_n', properties=[pywbem.CIMProperty(nm, None, type='uint8', class_origin='C_n')]), []
        else:
            c = pywbem.CIMClass(nm, properties=[pywbem.CIMProperty('p', None, type='uint8', class_origin=nm)])
            obj, ctx = pywbem.CIMInstance(nm, properties=[pywbem.CIMProperty('p', pywbem.Uint8(1), class_origin=nm)]), [c]
        r, case = check_decl(run, 'instance' if k == 'instance' else 'qualifierdecl' if k == 'qualifierdecl' else 'class',
                             obj, 80, [], ctx)
        run.case(case, nontrivial=True)
        run.count('decl:non_ascii_identifier:' + k)
    for _ in range(n_c):
        decls = std_decls(rng)
        base = gen_class(rng, decls, gen_name(rng, 'B_'))
        other = gen_class(rng, decls, gen_name(rng, 'R_'))
        cls = gen_class(rng, decls, gen_name(rng, 'C_'), superclass=rng.choice([None, base.classname]),
                        refclasses=[base.classname, other.classname], embed=other.classname)
        ml = maxlines()
        r, case = check_decl(run, 'class', cls, ml, decls, [base, other])
        run.case(case, nontrivial=bool(cls.properties or cls.methods or cls.qualifiers))
        run.count('decl:class:props=%d,methods=%d' % (min(len(cls.properties), 3), len(cls.methods)))
    for _ in range(n_i):
        decls = std_decls(rng)
        other = gen_class(rng, [], gen_name(rng, 'R_'))
        cls = gen_class(rng, decls, gen_name(rng, 'C_'), refclasses=[other.classname], embed=other.classname)
        inst = gen_instance(rng, cls, other)
        if inst is None:
            continue
        ml = maxlines()
        r, case = check_decl(run, 'instance', inst, ml, decls, [cls, other])
        run.case(case, nontrivial=True)
        for p in inst.properties.values():
            run.count('decl:instance:' + p.type + ('[]' if p.is_array else '') + (':null' if p.value is None else ''))


# =========================================================================== typed model (extension stages)

def val_json(v, typ):
    """a typed CIM scalar for the typed model (Model/MofVal.lean): reals, datetimes and references travel as the
    texts Python itself prints (the model's Codec carriers)"""
    import pywbem
    if v is None:
        return None
    if typ == 'string':
        return {'s': common.cps(v)}
    if typ == 'char16':
        return {'c': common.cps(v)}
    if typ == 'boolean':
        return {'b': bool(v)}
    if typ == 'datetime':
        return {'d': common.cps(str(v))}
    if typ == 'reference':
        return {'ref': common.cps(v.to_wbem_uri())}
    if typ in ('real32', 'real64'):
        return {'r': common.cps(str(v))}
    return {'i': str(int(v))}


def value_json(v, typ):
    return [val_json(x, typ) for x in v] if isinstance(v, list) else val_json(v, typ)


def canon_val(j):
    """model or real scalar JSON -> comparable form: float texts by the double they denote"""
    import struct
    if isinstance(j, list):
        return [canon_val(x) for x in j]
    if isinstance(j, dict) and 'r' in j:
        try:
            return {'rbits': struct.pack('>d', float(common.from_cps(j['r']))).hex()}
        except Exception:  # noqa
            return {'rbits': 'unparsable:' + common.from_cps(j['r'])}
    return j


def real_value_json(v, typ):
    """the value the real compiler delivered, in the same JSON form"""
    import struct
    if isinstance(v, list):
        return [real_value_json(x, typ) for x in v]
    if v is None:
        return None
    if typ in ('real32', 'real64'):
        return {'rbits': struct.pack('>d', float(v)).hex()}
    return val_json(v, typ)


def stage_typed_values(run):
    """K for the typed value model: (a) valueToMof = real _value_tomof byte for byte, (b) parseValue on the text
    of the real _value_tomof = what the real compiler makes of the same text (inside a qualifier declaration)"""
    from pywbem import _cim_obj
    rng = run.rng
    n = 20000 if run.thorough else 3000
    reqs, cases = [], []
    for i in range(n):
        c = fold_params(rng)
        typ = rng.choice(QUAL_TYPES + ['string', 'string'])
        is_array = rng.random() < 0.6
        v = gen_value(rng, typ, is_array, allow_null_items=True) if rng.random() < 0.93 else None
        cases.append((c, typ, is_array, v))
        reqs.append({'op': 'valmof', 'ty': typ, 'v': value_json(v, typ), 'indent': c['indent'],
                     'maxline': c['maxline'], 'pos': c['pos'], 'es': c['es'], 'avoid': c['avoid']})
    ans = common.run_driver(PROP, reqs)
    reads = []
    for (c, typ, is_array, v), a in zip(cases, ans):
        try:
            m, p = _cim_obj._value_tomof(v, typ, c['indent'], c['maxline'], c['pos'], c['es'], c['avoid'])
            real = {'ok': {'mof': common.cps(m), 'pos': p}}
        except Exception as e:  # noqa
            real = exc_json(e)
        case = {'op': 'valmof', 'type': typ, 'v': repr(v)[:1500], **c}
        run.case(case, nontrivial=('ok' in real and len(real['ok']['mof']) > 0))
        run.count('valmof:' + typ + ('[]' if isinstance(v, list) else '') + ':' + real.get('exc', 'ok'))
        if a != real:
            run.disagree(case, a, real, 'valmof')
        if 'ok' in real:
            reads.append((typ, isinstance(v, list), m))
    # (b) reader
    ans = common.run_driver(PROP, [{'op': 'valread', 'ty': t, 'arr': arr, 'text': common.cps(m)}
                                   for (t, arr, m) in reads])
    for (t, arr, m), a in zip(reads, ans):
        mof = 'Qualifier Q : %s%s = %s,\n Scope(any);\n' % (t, '[]' if arr else '', ('{ ' + m + ' }') if arr else m)
        conn, e = compile_mof(mof)
        case = {'op': 'valread', 'type': t, 'arr': arr, 'text': m}
        if e is not None:
            real = exc_json(e)
        else:
            real = {'v': real_value_json(conn.qualifiers[NS]['Q'].value, t)}
        model = {'v': canon_val(a['v'])} if 'v' in a else a
        run.case(case, nontrivial='v' in real)
        run.count('valread:' + t + ('[]' if arr else '') + ':' + real.get('exc', 'ok'))
        if model != real:
            run.disagree(case, a, real, 'valread')


def fl_json(o):
    return {'o': o.overridable, 's': o.tosubclass, 't': o.translatable, 'i': o.toinstance}


def qd_json(qd, real=False):
    vj = real_value_json if real else value_json
    j = {'name': common.cps(qd.name), 'ty': qd.type, 'arr': bool(qd.is_array), 'size': qd.array_size,
         'scopes': [bool(qd.scopes.get(sc, False)) for sc in SCOPES], 'fl': fl_json(qd)}
    if qd.value is not None:
        j['value'] = vj(qd.value, qd.type)
    return j


def q_json(q, real=False):
    vj = real_value_json if real else value_json
    return {'name': common.cps(q.name), 'ty': q.type, 'value': vj(q.value, q.type), 'fl': fl_json(q)}


def canon_obj(j):
    """model JSON -> comparable with the JSON made from real objects (float texts -> doubles)"""
    if isinstance(j, dict):
        if 'r' in j and len(j) == 1:
            return canon_val(j)
        return dict((k, canon_obj(v)) for k, v in j.items())
    if isinstance(j, list):
        return [canon_obj(x) for x in j]
    return j


_NULLQ_FIXED = None


def null_qualifier_fixed():
    """does the compiler under test keep an explicit NULL qualifier value (fix 'explicit NULL qualifier value')?"""
    global _NULLQ_FIXED
    if _NULLQ_FIXED is None:
        conn, e = compile_mof('Qualifier Qs : string = "d", Scope(any);\n[Qs(NULL)] class C_probe {\n};\n')
        _NULLQ_FIXED = e is None and conn.classes[NS]['C_probe'].qualifiers['Qs'].value is None
    return _NULLQ_FIXED


def stage_typed_qualifiers(run):
    """K for stage 2 of the typed model: qualifier declarations and qualifier lists, both directions"""
    import pywbem
    from pywbem import _cim_obj
    from pywbem._nocasedict import NocaseDict
    rng = run.rng
    n = 6000 if run.thorough else 900
    # ---- qualifier declarations
    qds = [(gen_qualdecl(rng), rng.choice([40, 60, 80, 80, 100, 120, rng.randint(40, 120)])) for _ in range(n)]
    ans = common.run_driver(PROP, [{'op': 'qdmof', 'qd': qd_json(qd), 'maxline': ml} for qd, ml in qds])
    reads = []
    for (qd, ml), a in zip(qds, ans):
        try:
            real = {'ok': common.cps(qd.tomof(ml))}
        except Exception as e:  # noqa
            real = exc_json(e)
        case = {'op': 'qdmof', 'maxline': ml, 'obj': obj_repr(qd)}
        run.case(case, nontrivial='ok' in real)
        run.count('qdmof:' + real.get('exc', 'ok'))
        if a != real:
            run.disagree(case, a, real, 'qdmof')
        if 'ok' in real:
            reads.append((qd, common.from_cps(real['ok'])))
    ans = common.run_driver(PROP, [{'op': 'qdread', 'text': common.cps(t)} for _, t in reads])
    for (qd, t), a in zip(reads, ans):
        conn, e = compile_mof(t)
        real = exc_json(e) if e is not None else {'qd': qd_json(conn.qualifiers[NS][qd.name], real=True)}
        model = canon_obj(a)
        case = {'op': 'qdread', 'text': t}
        run.case(case, nontrivial='qd' in real)
        run.count('qdread:' + real.get('exc', 'ok'))
        if model != real:
            run.disagree(case, a, real, 'qdread')
    # ---- qualifier lists
    fixed = null_qualifier_fixed()
    run.count('nullq_fixed=%s' % fixed)
    reqs, cases = [], []
    for _ in range(n):
        decls = [norm_qualdecl(d) for d in std_decls(rng)]
        scope = rng.choice(['CLASS', 'PROPERTY', 'METHOD', 'PARAMETER'])
        quals = gen_qualifiers(rng, decls, scope, maxn=5)      # explicit NULL values included (C08-F4 fixed)
        if rng.random() < 0.3:
            for q in quals:
                q.name = recase(rng, q.name)
        indent = rng.choice([3, 6, 9, rng.randint(0, 12)])
        ml = rng.choice([40, 60, 80, 80, 100, 120, rng.randint(40, 120)])
        cases.append((decls, quals, indent, ml))
        reqs.append({'op': 'qlmof', 'quals': [q_json(q) for q in quals], 'indent': indent, 'maxline': ml})
    ans = common.run_driver(PROP, reqs)
    reads = []
    for (decls, quals, indent, ml), a in zip(cases, ans):
        try:
            real = {'ok': common.cps(_cim_obj._qualifiers_tomof(NocaseDict([(q.name, q) for q in quals]), indent, ml))}
        except Exception as e:  # noqa
            real = exc_json(e)
        case = {'op': 'qlmof', 'indent': indent, 'maxline': ml, 'quals': [obj_repr(q) for q in quals]}
        run.case(case, nontrivial=bool(quals))
        run.count('qlmof:%s:n=%d' % (real.get('exc', 'ok'), min(len(quals), 3)))
        if a != real:
            run.disagree(case, a, real, 'qlmof')
        if 'ok' in real and len(set(q.name.lower() for q in quals)) == len(quals):
            reads.append((decls, quals, common.from_cps(real['ok'])))
    ans = common.run_driver(PROP, [{'op': 'qlread', 'decls': [qd_json(d) for d in decls], 'text': common.cps(t)}
                                   for decls, _, t in reads])
    for (decls, quals, t), a in zip(reads, ans):
        comp, conn = compiler()
        seed_context(conn, decls, [])
        err = session_compile(comp, t + 'class C_ql {\n};\n')
        if err:
            real = {'exc': err['exc']}
        else:
            real = {'quals': [q_json(q, real=True) for q in conn.classes[NS]['C_ql'].qualifiers.values()]}
        model = canon_obj(a)
        case = {'op': 'qlread', 'text': t}
        run.case(case, nontrivial=bool(quals))
        run.count('qlread:' + real.get('exc', 'ok'))
        if model != real:
            run.disagree(case, a, real, 'qlread')


def prop_json(p, real=False, with_value=True):
    vj = real_value_json if real else value_json
    j = {'name': common.cps(p.name), 'ty': p.type, 'rc': common.cps(p.reference_class) if p.reference_class else None,
         'arr': bool(p.is_array), 'size': p.array_size, 'quals': [q_json(q, real) for q in p.qualifiers.values()]}
    if with_value and p.value is not None:
        j['value'] = vj(p.value, p.type)
    return j


def method_json(m, real=False):
    return {'name': common.cps(m.name), 'rt': m.return_type,
            'params': [prop_json(a, real, with_value=False) for a in m.parameters.values()],
            'quals': [q_json(q, real) for q in m.qualifiers.values()]}


def class_json(c, real=False):
    return {'name': common.cps(c.classname), 'super': common.cps(c.superclass) if c.superclass else None,
            'quals': [q_json(q, real) for q in c.qualifiers.values()],
            'props': [prop_json(p, real) for p in c.properties.values()],
            'methods': [method_json(m, real) for m in c.methods.values()]}


def inst_json(i, real=False):
    return {'cn': common.cps(i.classname), 'props': [prop_json(p, real) for p in i.properties.values()]}


def has_embedded_value(inst):
    import pywbem
    for p in inst.properties.values():
        for v in (p.value if isinstance(p.value, list) else [p.value]):
            if isinstance(v, (pywbem.CIMInstance, pywbem.CIMClass)):
                return True
    return False


def stage_typed_decls(run):
    """K for stage 3 of the typed model: classes and instances, both directions"""
    rng = run.rng
    n = 3000 if run.thorough else 450
    cases = []
    for _ in range(n):
        decls = [norm_qualdecl(d) for d in std_decls(rng)]
        base = gen_class(rng, decls, gen_name(rng, 'B_'))
        other = gen_class(rng, decls, gen_name(rng, 'R_'))
        cls = gen_class(rng, decls, gen_name(rng, 'C_'), superclass=rng.choice([None, base.classname]),
                        refclasses=[base.classname, other.classname], embed=other.classname)
        ml = rng.choice([40, 60, 80, 80, 100, 120, rng.randint(40, 120)])
        cases.append((decls, [base, other], cls, ml))
    ans = common.run_driver(PROP, [{'op': 'clsmof', 'cls': class_json(cls), 'maxline': ml}
                                   for (_, _, cls, ml) in cases])
    reads = []
    for (decls, ctx, cls, ml), a in zip(cases, ans):
        try:
            real = {'ok': common.cps(cls.tomof(ml))}
        except Exception as e:  # noqa
            real = exc_json(e)
        case = {'op': 'clsmof', 'maxline': ml, 'obj': obj_repr(cls)}
        run.case(case, nontrivial='ok' in real)
        run.count('clsmof:' + real.get('exc', 'ok'))
        if a != real:
            run.disagree(case, a, real, 'clsmof')
        if 'ok' in real:
            reads.append((decls, ctx, cls, common.from_cps(real['ok'])))
    ans = common.run_driver(PROP, [{'op': 'clsread', 'decls': [qd_json(d) for d in decls], 'text': common.cps(t)}
                                   for (decls, _, _, t) in reads])
    for (decls, ctx, cls, t), a in zip(reads, ans):
        comp, conn = compiler()
        seed_context(conn, decls, ctx)
        err = session_compile(comp, t)
        real = {'exc': err['exc']} if err else {'cls': class_json(conn.classes[NS][cls.classname], real=True)}
        model = canon_obj(a)
        case = {'op': 'clsread', 'text': t}
        run.case(case, nontrivial='cls' in real)
        run.count('clsread:' + real.get('exc', 'ok'))
        if model != real:
            run.disagree(case, a, real, 'clsread')
    # ---- instances
    icases = []
    for _ in range(n):
        decls = [norm_qualdecl(d) for d in std_decls(rng)]
        other = gen_class(rng, [], gen_name(rng, 'R_'))
        cls = gen_class(rng, decls, gen_name(rng, 'C_'), refclasses=[other.classname], embed=other.classname)
        inst = gen_instance(rng, cls, None)
        if inst is None or has_embedded_value(inst):
            continue
        if rng.random() < 0.3:
            inst.classname = recase(rng, inst.classname)
        if rng.random() < 0.3:
            # property names in another case than in the class: they come back in the class's spelling
            import pywbem
            inst = pywbem.CIMInstance(inst.classname, properties=[
                pywbem.CIMProperty(recase(rng, p.name), p.value, type=p.type, reference_class=p.reference_class,
                                   is_array=p.is_array, array_size=p.array_size) for p in inst.properties.values()])
        ml = rng.choice([40, 60, 80, 80, 100, 120, rng.randint(40, 120)])
        icases.append((decls, other, cls, inst, ml))
    ans = common.run_driver(PROP, [{'op': 'instmof', 'inst': inst_json(i), 'maxline': ml}
                                   for (_, _, _, i, ml) in icases])
    reads = []
    for (decls, other, cls, inst, ml), a in zip(icases, ans):
        try:
            real = {'ok': common.cps(inst.tomof(ml))}
        except Exception as e:  # noqa
            real = exc_json(e)
        case = {'op': 'instmof', 'maxline': ml, 'obj': obj_repr(inst)}
        run.case(case, nontrivial='ok' in real)
        run.count('instmof:' + real.get('exc', 'ok'))
        if a != real:
            run.disagree(case, a, real, 'instmof')
        if 'ok' in real:
            reads.append((decls, other, cls, inst, common.from_cps(real['ok'])))
    ans = common.run_driver(PROP, [{'op': 'instread', 'cls': class_json(cls), 'text': common.cps(t)}
                                   for (_, _, cls, _, t) in reads])
    for (decls, other, cls, inst, t), a in zip(reads, ans):
        comp, conn = compiler()
        seed_context(conn, decls, [cls, other])
        n0 = len(conn.instances[NS])
        err = session_compile(comp, t)
        if err:
            real = {'exc': err['exc']}
        elif len(conn.instances[NS]) != n0 + 1:
            real = {'exc': 'not-stored'}
        else:
            real = {'inst': inst_json(conn.instances[NS][-1], real=True)}
        model = canon_obj(a)
        case = {'op': 'instread', 'text': t}
        run.case(case, nontrivial='inst' in real)
        run.count('instread:' + real.get('exc', 'ok'))
        if model != real:
            run.disagree(case, a, real, 'instread')


# =========================================================================== stage 3: sessions

SESSION_QNAMES = ['Qa', 'Qb', 'Qc']
SESSION_CNAMES = ['S_a', 'S_b', 'S_c']


_RECASE = None      # rng while a session is generated: qualifier names are then spelled in another case


def recase(rng, name):
    """another spelling of a case-insensitive CIM name"""
    for _ in range(4):
        n = rng.choice([name.lower(), name.upper(), name.swapcase(), name.capitalize(),
                        ''.join(c.upper() if rng.random() < 0.5 else c.lower() for c in name)])
        if n != name:
            return n
    return name


def session_prelude():
    """declarations a session may start with (plain round-trip steps)"""
    import pywbem
    return [KEY_DECL(),
            pywbem.CIMQualifierDeclaration('EmbeddedInstance', 'string', value=None,
                                           scopes={'PROPERTY': True, 'METHOD': True, 'PARAMETER': True}),
            pywbem.CIMQualifierDeclaration('EmbeddedObject', 'boolean', value=False,
                                           scopes={'PROPERTY': True, 'METHOD': True, 'PARAMETER': True},
                                           overridable=False, tosubclass=True)]


def gen_bad_step(rng, cur_c, emb_of, ml):
    """a step whose MOF must be REJECTED (missing dependency or syntax error).  It is tomof() output for an
    object whose needed declarations are not in the repository, or truncated tomof() output.  Nothing is required
    of it except that the compiler is still usable afterwards: the later good steps are judged as usual."""
    import pywbem
    k = rng.choice(['embedded_unknown_class'] * 5 + ['instance_unknown_class', 'undeclared_qualifier',
                                                     'unknown_superclass', 'syntax_error'])
    if k == 'embedded_unknown_class':
        cands = [c for c in cur_c.values() if not c.superclass and
                 any('EmbeddedInstance' in p.qualifiers or 'EmbeddedObject' in p.qualifiers
                     for p in c.properties.values())]
        if cands:
            cls = rng.choice(cands)
            ep = rng.choice([p for p in cls.properties.values()
                             if 'EmbeddedInstance' in p.qualifiers or 'EmbeddedObject' in p.qualifiers])
            bad = pywbem.CIMInstance('No_Such_Class', properties=[pywbem.CIMProperty('x', pywbem.Uint8(1))])
            p = ep.copy()
            p.qualifiers = type(ep.qualifiers)()
            p.value = [bad] if ep.is_array else bad
            p.embedded_object = 'instance' if 'EmbeddedInstance' in ep.qualifiers else 'object'
            obj = pywbem.CIMInstance(recase(rng, cls.classname), properties=[p])
            return {'kind': 'bad', 'why': k, 'maxline': ml, 'obj': obj, 'redeclared': False}
        k = 'instance_unknown_class'
    if k == 'instance_unknown_class':
        obj = pywbem.CIMInstance('No_Such_Class', properties=[pywbem.CIMProperty('x', pywbem.Uint8(1))])
    elif k == 'undeclared_qualifier':
        obj = pywbem.CIMClass('X_bad', qualifiers=[pywbem.CIMQualifier('NoSuchQual', 'v', type='string')])
    elif k == 'unknown_superclass':
        obj = pywbem.CIMClass('X_bad', superclass='No_Such_Base')
    else:
        good = pywbem.CIMClass('X_bad', properties=[pywbem.CIMProperty('p', gen_text(rng) + 'x', type='string')])
        t = good.tomof(ml)
        obj = t[:max(len(t) - rng.randint(4, 12), 8)]
    return {'kind': 'bad', 'why': k, 'maxline': ml, 'obj': obj, 'redeclared': False}


def gen_session(rng):
    """a schema-maintenance session on ONE compiler and ONE repository: qualifier declarations and classes are
    declared, used, RE-declared with another type / array shape / default / flavors / scopes, and used again;
    cross-references (superclass, reference class, EmbeddedInstance class, creation class of instances and of
    embedded instances, qualifier names) are spelled in ANOTHER CASE than the declaration; steps that the
    compiler must reject (missing dependency, syntax error) are interleaved.  Every good step is a
    tomof() -> compile round trip.  Returns a list of steps (kind, maxline, object); the expected object of a
    step is built from the declarations that are current at that step."""
    global _RECASE
    _RECASE = rng
    try:
        return _gen_session(rng)
    finally:
        _RECASE = None


def _gen_session(rng):
    cur_q, cur_c, emb_of = {}, {}, {}
    steps = []
    if rng.random() < 0.85:
        for qd in session_prelude():
            cur_q[qd.name] = norm_qualdecl(qd)
            steps.append({'kind': 'qualifierdecl', 'maxline': 80, 'obj': qd, 'redeclared': False})
    if 'EmbeddedInstance' in cur_q and rng.random() < 0.35:
        # scripted opening: plain class, class with an embedded property (class name in another case), then an
        # instance whose embedded value is of an unknown class (must be rejected) - the rest is random
        a_cls = gen_class(rng, list(cur_q.values()), 'S_a')
        cur_c['S_a'], emb_of['S_a'] = a_cls, None
        steps.append({'kind': 'class', 'maxline': 80, 'obj': a_cls, 'redeclared': False})
        for _ in range(20):
            b_cls = gen_class(rng, list(cur_q.values()), 'S_b', refclasses=[recase(rng, 'S_a')],
                              embed=recase(rng, 'S_a'))
            if any('EmbeddedInstance' in p.qualifiers or 'EmbeddedObject' in p.qualifiers
                   for p in b_cls.properties.values()):
                break
        cur_c['S_b'], emb_of['S_b'] = b_cls, 'S_a'
        steps.append({'kind': 'class', 'maxline': 80, 'obj': b_cls, 'redeclared': False})
        steps.append(gen_bad_step(rng, {'S_b': b_cls}, emb_of, 80))
    nsteps = rng.randint(5, 12)
    for i in range(nsteps):
        r = rng.random()
        ml = rng.choice([60, 80, 80, 100, rng.randint(50, 120)])
        if r < 0.15 and steps:
            steps.append(gen_bad_step(rng, cur_c, emb_of, ml))
        elif r < 0.40 or not [q for q in cur_q if q in SESSION_QNAMES]:
            name = rng.choice(SESSION_QNAMES)
            qd = gen_qualdecl(rng, name=name)
            # usable everywhere, so that the following classes can carry it
            qd.scopes = dict((k, True) for k in SCOPES) if rng.random() < 0.7 else {'ANY': True}
            redecl = name in cur_q
            cur_q[name] = norm_qualdecl(qd)
            steps.append({'kind': 'qualifierdecl', 'maxline': ml, 'obj': qd, 'redeclared': redecl})
        elif r < 0.70 or not cur_c:
            name = rng.choice(SESSION_CNAMES)
            others = [c for c in cur_c if c != name]
            plain = [c for c in others if not cur_c[c].superclass]
            sup = recase(rng, rng.choice(others)) if others and rng.random() < 0.6 else None
            emb = rng.choice(plain) if plain and rng.random() < 0.9 else None
            cls = gen_class(rng, list(cur_q.values()), name, superclass=sup,
                            refclasses=[recase(rng, o) for o in others],
                            embed=recase(rng, emb) if emb else None)
            # make sure the current declarations are really used
            for q in list(cur_q.values()):
                if q.name in SESSION_QNAMES and rng.random() < 0.6 and q.name not in cls.qualifiers:
                    cls.qualifiers[q.name] = qualifier_for(rng, q)
            redecl = name in cur_c
            # a class must not be re-declared under a class that derives from it; keep it simple: drop dependants
            if redecl:
                for c in list(cur_c):
                    if cur_c[c].superclass and cur_c[c].superclass.lower() == name.lower():
                        del cur_c[c]
            cur_c[name] = cls
            emb_of[name] = emb
            steps.append({'kind': 'class', 'maxline': ml, 'obj': cls, 'redeclared': redecl})
        else:
            name = rng.choice(sorted(cur_c))
            cls = cur_c[name]
            if cls.superclass:
                continue        # GetClass(LocalOnly=False) merges inherited properties into the stored class
            ecls = cur_c.get(emb_of.get(name)) if emb_of.get(name) else None
            if ecls is not None and ecls.superclass:
                ecls = None
            inst = gen_instance(rng, cls, ecls)
            if inst is None:
                continue
            inst.classname = recase(rng, inst.classname)
            for p in inst.properties.values():
                for v in (p.value if isinstance(p.value, list) else [p.value]):
                    if hasattr(v, 'classname') and hasattr(v, 'properties'):
                        v.classname = recase(rng, v.classname)
            steps.append({'kind': 'instance', 'maxline': ml, 'obj': inst, 'redeclared': False})
    return steps


def session_compile(comp, mof):
    import signal
    old = signal.signal(signal.SIGALRM, _alarm)
    signal.setitimer(signal.ITIMER_REAL, COMPILE_TIMEOUT)
    try:
        comp.compile_string(mof, NS)
        return None
    except CompileTimeout:
        return {'exc': 'CompileTimeout'}
    except Exception as e:  # noqa
        return {'exc': type(e).__name__, 'msg': str(e)[:300]}
    finally:
        signal.setitimer(signal.ITIMER_REAL, 0)
        signal.signal(signal.SIGALRM, old)


def run_session(run, steps, record=True):
    """execute the steps on a fresh MOFCompiler/MOFWBEMConnection(conn=None); judge every step; stop at the first
    step that violates the property (later steps would start from an unknown repository state).
    Returns (#steps executed, index of the violating step or None)."""
    import pywbem
    from pywbem._mof_compiler import MOFCompiler, MOFWBEMConnection
    conn = MOFWBEMConnection(conn=None)
    comp = MOFCompiler(conn, verbose=False, log_func=None)
    for i, st in enumerate(steps):
        obj, kind = st['obj'], st['kind']
        if kind == 'bad':
            # a step the compiler must reject; only its after-effects on later good steps are judged
            try:
                mof = obj if isinstance(obj, str) else obj.tomof(st['maxline'])
                err = session_compile(comp, mof)
                run.count('session:bad:%s:%s' % (st.get('why'), (err or {}).get('exc', 'accepted')))
            except Exception as e:  # noqa
                run.count('session:bad:%s:tomof:%s' % (st.get('why'), type(e).__name__))
            continue
        n_inst = len(conn.instances.get(NS, []))
        try:
            mof = obj.tomof(st['maxline'])
            r = {'mof': mof}
        except Exception as e:  # noqa
            cause = 'other'
            if isinstance(e, ValueError):
                try:
                    obj.tomof(st['maxline'] + 60)
                    cause = 'literal_wider_than_line'
                except Exception:  # noqa
                    pass
            r = {'mof': None, 'tomof_exc': type(e).__name__, 'cause': cause}
        if r['mof'] is not None:
            err = session_compile(comp, r['mof'])
            if err:
                r.update(err)
            elif kind == 'qualifierdecl':
                r['compiled'] = conn.qualifiers.get(NS, {}).get(obj.name)
            elif kind == 'class':
                r['compiled'] = conn.classes.get(NS, {}).get(obj.classname)
            else:
                insts = conn.instances.get(NS, [])
                # the instance must actually have arrived in the repository (one more than before)
                r['compiled'] = insts[-1] if len(insts) == n_inst + 1 else None
        case = {'op': 'session', 'steps': [{'kind': x['kind'], 'maxline': x['maxline'], 'obj': obj_repr(x['obj']),
                                            'redeclared': x.get('redeclared', False), 'why': x.get('why')}
                                           for x in steps[:i + 1]]}
        extra = {'redeclared': bool(st.get('redeclared')), 'after_redeclaration':
                 any(x['kind'] != 'instance' and x.get('redeclared') for x in steps[:i]),
                 'after_rejected_step': any(x['kind'] == 'bad' for x in steps[:i])}
        nv = judge(run, kind, obj, r, case, 'session', extra)
        if nv and any(not is_known(v['sig']) for v in run.violations[-nv:]):
            return i + 1, i
        if 'exc' in r or r.get('tomof_exc'):
            return i + 1, None          # known finding, but the step did not take effect: stop the session
    return len(steps), None


_KNOWN = None


def is_known(sig):
    global _KNOWN
    if _KNOWN is None:
        _KNOWN = common.load_known_all()
    return any(common.matches(f, PROP, sig) for f in _KNOWN)


def stage3(run):
    rng = run.rng
    n = 1500 if run.thorough else 140
    for _ in range(n):
        steps = gen_session(rng)
        if not steps:
            continue
        n0 = len(run.violations)
        done, bad = run_session(run, steps)
        run.case({'op': 'session', 'steps': [(x['kind'], x.get('redeclared', False)) for x in steps],
                  'first': obj_repr(steps[0]['obj'])[:64]},
                 nontrivial=any(x.get('redeclared') for x in steps[:done]))
        for x in steps[:done]:
            if x['kind'] != 'bad':
                run.count('session:%s%s' % (x['kind'], ':redeclared' if x.get('redeclared') else ''))
        if bad is not None:
            # shrink by slicing: keep the rejected steps and every earlier step that declares a name the violating
            # step depends on (transitively; all versions of re-declared names).  Steps are never dropped by
            # trial and error: a session with a missing dependency fails on every tree and is no failing input.
            vio = [v for v in run.violations[n0:] if not is_known(v['sig'])]
            want = json.dumps(vio[0]['sig'], sort_keys=True)
            sl = slice_session(steps[:bad + 1])
            if len(sl) < bad + 1:
                rr = common.Run(PROP, 'quick', 0)
                d, b = run_session(rr, sl)
                small = [v for v in rr.violations if json.dumps(v['sig'], sort_keys=True) == want]
                if b == len(sl) - 1 and small:
                    keep = [v for v in run.violations[n0:] if is_known(v['sig'])]
                    del run.violations[n0:]
                    run.violations.extend(keep + small)


def deps_of(obj):
    """lower-cased names of the declarations the MOF of obj refers to"""
    import pywbem
    if isinstance(obj, str):
        return set()
    out = set(n.lower() for n in names_of(obj) if n)
    if isinstance(obj, pywbem.CIMClass):
        for p in obj.properties.values():
            q = p.qualifiers.get('EmbeddedInstance')
            if q is not None and isinstance(q.value, str):
                out.add(q.value.lower())
    return out


def slice_session(steps):
    last = steps[-1]
    needed = deps_of(last['obj'])
    keep = [last]
    for st in reversed(steps[:-1]):
        obj = st['obj']
        if st['kind'] == 'bad':
            keep.append(st)
            needed |= deps_of(obj)
        elif st['kind'] == 'qualifierdecl' and obj.name.lower() in needed:
            keep.append(st)
        elif st['kind'] == 'class' and obj.classname.lower() in needed:
            keep.append(st)
            needed |= deps_of(obj)
    keep.reverse()
    return keep


# =========================================================================== stage 4: mock-repository sessions

DFLT_NS, TGT_NS = 'root/c08dflt', 'root/c08tgt'


def gen_mock_session(rng):
    """a session on a FakedWBEMConnection whose TARGET namespace is not the default namespace: qualifier
    declarations and version 1 of a class go into both namespaces; a changed version 2 of the class and an
    instance of version 2 are compiled into the target namespace only"""
    import pywbem
    decls = [KEY_DECL()] + [norm_qualdecl(gen_qualdecl(rng, name='Qm%d' % i)) for i in range(rng.randint(0, 2))]
    for d in decls[1:]:
        d.scopes = dict((k, True) for k in SCOPES)

    def mk():
        c = gen_class(rng, decls[1:], 'M_a')
        props = [pywbem.CIMProperty('Id', None, type='string', qualifiers=[qualifier_for(rng, decls[0], True)],
                                    class_origin='M_a')] + list(c.properties.values())
        return pywbem.CIMClass('M_a', properties=props, methods=list(c.methods.values()),
                               qualifiers=list(c.qualifiers.values()))
    v1, v2 = mk(), mk()
    inst = gen_instance(rng, v2)
    if inst is None:
        inst = pywbem.CIMInstance('M_a')
    inst.properties['Id'] = pywbem.CIMProperty('Id', gen_string(rng, rng.randint(1, 8), (0, 0, 0, 0, 0.2)) or 'k',
                                               type='string')
    if rng.random() < 0.3:
        inst.classname = recase(rng, inst.classname)
    return {'decls': decls, 'v1': v1, 'v2': v2, 'inst': inst,
            'ml': [rng.choice([60, 80, 80, 100, rng.randint(50, 120)]) for _ in range(3)]}


def run_mock_session(run, ses):
    """-> number of violations added.  Qualifier flavors are not compared here: the mock repository resolves flavor
    defaults when it stores a class (C12's subject); everything else is compared as in stage 2."""
    import pywbem_mock
    global _CMP_FLAVORS
    n0 = len(run.violations)
    case = {'op': 'mocksession', 'decls': [obj_repr(d) for d in ses['decls']], 'v1': obj_repr(ses['v1']),
            'v2': obj_repr(ses['v2']), 'inst': obj_repr(ses['inst']), 'ml': ses['ml']}

    def vio(step, kind, **kw):
        run.violate(dict({'stage': 'mock', 'step': step, 'kind': kind}, **kw), case, kw)

    def comp(conn, obj, ml, ns, step):
        try:
            mof = obj.tomof(ml)
        except Exception as e:  # noqa
            return 'tomof:' + type(e).__name__
        import signal
        old = signal.signal(signal.SIGALRM, _alarm)
        signal.setitimer(signal.ITIMER_REAL, COMPILE_TIMEOUT * 2)
        try:
            conn.compile_mof_string(mof, namespace=ns)
            return None
        except Exception as e:  # noqa
            return type(e).__name__
        finally:
            signal.setitimer(signal.ITIMER_REAL, 0)
            signal.signal(signal.SIGALRM, old)

    def cmp_class(orig, got, step):
        for a in sorted(set(aspects(orig, got))):
            f = a.split(':')
            sig = {'where': f[0], 'what': f[1] if len(f) > 1 else ''}
            if len(f) > 3:
                sig['type'], sig['how'] = f[2], f[3]
            elif len(f) > 2:
                sig['which'] = f[2]
            vio(step, 'differs', **sig)

    conn = pywbem_mock.FakedWBEMConnection(default_namespace=DFLT_NS)
    conn.add_namespace(TGT_NS)
    _CMP_FLAVORS = False
    try:
        class _Joined:           # all declarations in one compile call per namespace (a MOFCompiler per call is slow)
            def tomof(self, ml):
                return ''.join(d.tomof(ml) for d in ses['decls'])
        for ns in (DFLT_NS, TGT_NS):
            err = comp(conn, _Joined(), 80, ns, 'qualifierdecl')
            if err:
                if err != 'tomof:ValueError':
                    vio('qualifierdecl', 'recompile_exception', exc=err)
                return len(run.violations) - n0
        for ns in (DFLT_NS, TGT_NS):
            err = comp(conn, ses['v1'], ses['ml'][0], ns, 'class_v1')
            if err:
                if err != 'tomof:ValueError':
                    vio('class_v1', 'recompile_exception', exc=err)
                return len(run.violations) - n0
        cmp_class(ses['v1'], conn.GetClass('M_a', namespace=TGT_NS, LocalOnly=True, IncludeQualifiers=True), 'class_v1')
        # the changed class into the non-default namespace, where the class already exists
        err = comp(conn, ses['v2'], ses['ml'][1], TGT_NS, 'class_v2')
        if err:
            if err != 'tomof:ValueError':
                vio('class_v2_redeclared', 'recompile_exception', exc=err)
            return len(run.violations) - n0
        cmp_class(ses['v2'], conn.GetClass('M_a', namespace=TGT_NS, LocalOnly=True, IncludeQualifiers=True),
                  'class_v2_redeclared')
        # ... and the same-named class of the default namespace is left alone
        cmp_class(ses['v1'], conn.GetClass('M_a', namespace=DFLT_NS, LocalOnly=True, IncludeQualifiers=True),
                  'default_namespace_untouched')
        if len(run.violations) > n0 and any(not is_known(v['sig']) for v in run.violations[n0:]):
            return len(run.violations) - n0
        # an instance of the changed class
        inst = ses['inst']
        before = len(conn.EnumerateInstanceNames('M_a', namespace=TGT_NS))
        err = comp(conn, inst, ses['ml'][2], TGT_NS, 'instance')
        if err:
            if err != 'tomof:ValueError':
                vio('instance_of_redeclared_class', 'recompile_exception', exc=err)
            return len(run.violations) - n0
        insts = conn.EnumerateInstances('M_a', namespace=TGT_NS)
        if len(insts) != before + 1:
            vio('instance_of_redeclared_class', 'not_stored')
            return len(run.violations) - n0
        kid = inst.properties['Id'].value
        got = [i for i in insts if i.properties['Id'].value == kid]
        if not got:
            vio('instance_of_redeclared_class', 'not_stored')
            return len(run.violations) - n0
        for k, p in inst.properties.items():
            if k not in got[-1].properties:
                vio('instance_of_redeclared_class', 'differs', where='instance.property', what='missing')
                continue
            for a in aspects_typed(p, got[-1].properties[k], 'instance.property'):
                f = a.split(':')
                sig = {'where': f[0], 'what': f[1]}
                if len(f) > 3:
                    sig['type'], sig['how'] = f[2], f[3]
                vio('instance_of_redeclared_class', 'differs', **sig)
    finally:
        _CMP_FLAVORS = True
    return len(run.violations) - n0


def stage4(run):
    rng = run.rng
    n = 200 if run.thorough else 36
    for _ in range(n):
        ses = gen_mock_session(rng)
        run_mock_session(run, ses)
        run.case({'op': 'mocksession', 'v2': obj_repr(ses['v2']), 'inst': obj_repr(ses['inst'])},
                 nontrivial=True)
        run.count('mocksession')


# =========================================================================== entry points

def run(run):
    run.rule = ('stage 1: seeded strings (6 alphabets weighted to quote/apostrophe/backslash/control characters, '
                'hex-looking text after control characters, long blank-free words, non-ASCII incl. astral) of every '
                'length 0..4*maxline and with escape sequences placed at columns avl-8..avl+3 of the 1st..3rd fold, '
                'x maxline 40..120 x indent x line_pos x end_space x avoid_splits; deterministic sweep of one '
                'escape over columns avl-7..avl+1 for every maxline; near-miss literal bodies for lexer and '
                '_fixStringValue; arrays/scalars of every type through _value_tomof. A mofstr case is non-trivial '
                'when the string was folded into >= 2 parts. stage 2: random qualifier declarations (every type, '
                'arrays, NULL, all scope/flavor sets), classes (qualifiers of every type on class/property/method/'
                'parameter, references, arrays with sizes, defaults, embedded instance/object properties, '
                'superclass) and instances (every type, NULL, NULL array items, references, embedded instances) '
                'x maxline 40..120 -> tomof() -> real MOFCompiler on MOFWBEMConnection(conn=None) seeded with the '
                'needed declarations -> compared aspect by aspect and with ==. stage 3: sessions of 4..10 round trips on '
                'ONE compiler and repository in which qualifier declarations and classes are re-declared with other '
                'type/array shape/default/flavors/scopes between the steps and then used by later classes and '
                'instances; each recompiled object is compared with its original; a session is non-trivial when '
                'something was re-declared; a violating session is reduced by dependency slicing. stage 4: sessions on a '
                'FakedWBEMConnection with a non-default target namespace: declarations and class v1 into both namespaces, a '
                'changed class v2 and an instance of v2 into the target namespace; v2 and the instance must come back, the '
                'same-named class of the default namespace must stay v1.')
    run.assumptions += ['PLY lexer/LALR driver and tables: the per-token regexes for string/char literals are hand-modelled; '
                        'token dispatch, the grammar and everything at declaration level are NOT modelled (stage 2 is '
                        'decided by the differential oracle only: C08 is partial there)',
                        'Python str.replace/rfind/slicing/re.finditer semantics as modelled in Model/MofStr.lean',
                        'what "MOF can express": scope dict = 8 DSP0004 keywords; translatable False = unspecified; '
                        'toinstance not representable; qualifier-value flavors come from the declaration; class '
                        'features carry class_origin = class name, propagated = None; instance paths ignored; '
                        'real values finite; reference key values within the C07-safe domain']
    stage1(run)
    stage1_values(run)
    stage1_numbers(run)
    stage1_arrays(run)
    stage_typed_values(run)
    stage_typed_qualifiers(run)
    stage_typed_decls(run)
    stage2(run)
    stage3(run)
    stage4(run)


def search(run):
    """proof / extractor / K broke and the oracle saw nothing: widen the oracle-only search on the real code"""
    before = len(run.violations)
    rng = run.rng
    sub = common.Run(PROP, 'thorough', run.seed)
    sub.rng = rng

    def flush():
        run.violations.extend(sub.violations)
        del sub.violations[:]
        return len(run.violations) > before
    # 1. every character alone and between letters (a changed escape rule shows here)
    for cp in list(range(1, 0x180)) + [0x2028, 0xFFFF, 0x1F600]:
        for s in (chr(cp), 'a' + chr(cp) + 'b', chr(cp) * 3, '\\' + chr(cp), chr(cp) + '"'):
            c = {'s': s, 'indent': 3, 'maxline': 80, 'pos': 10, 'es': 0, 'avoid': False, 'q': 34}
            real = real_mofstr(c)
            if 'ok' in real:
                oracle_string(sub, {'op': 'mofstr', **c}, common.from_cps(real['ok']['mof']), s, 'mofstr')
            else:
                sub.violate({'stage': 'string', 'kind': 'tomof_exception', 'exc': real['exc'], 'where': 'mofstr'},
                            {'op': 'mofstr', **c}, real)
    if flush():
        return run.violations[before:]
    # 2. every escape at every column around every fold, every maxline
    for maxline in range(40, 121):
        for indent, pos, es, avoid in ((3, 23, 3, False), (6, 18, 1, True), (7, 30, 3, True), (0, 0, 0, False)):
            avl = maxline - indent - 2
            for sp in ['"', "'", '\\', '\n', '\x01', '\x1f', ' ']:
                for d in range(-8, 4):
                    for tail in ('bbbbb', ' b', ''):
                        s = 'a' * max(avl + d, 0) + sp + tail
                        c = {'s': s, 'indent': indent, 'maxline': maxline, 'pos': pos, 'es': es, 'avoid': avoid, 'q': 34}
                        real = real_mofstr(c)
                        if 'ok' in real:
                            oracle_string(sub, {'op': 'mofstr', **c}, common.from_cps(real['ok']['mof']), s, 'mofstr')
                        else:
                            sub.violate({'stage': 'string', 'kind': 'tomof_exception', 'exc': real['exc'],
                                         'where': 'mofstr'}, {'op': 'mofstr', **c}, real)
        if flush():
            return run.violations[before:]
    # 3. random strings, thorough generator
    for i in range(40000):
        c = gen_mofstr_case(rng, i)
        c['q'] = 34
        real = real_mofstr(c)
        if 'ok' in real:
            oracle_string(sub, {'op': 'mofstr', **c}, common.from_cps(real['ok']['mof']), c['s'], 'mofstr')
        else:
            sub.violate({'stage': 'string', 'kind': 'tomof_exception', 'exc': real['exc'], 'where': 'mofstr'},
                        {'op': 'mofstr', **c}, real)
        if i % 2000 == 0 and flush():
            return run.violations[before:]
    # 4. declarations, sessions
    stage2(sub)
    stage3(sub)
    stage4(sub)
    flush()
    return run.violations[before:]


def replay(payload):
    case = payload['case']
    r = common.Run(PROP, 'quick', 0)
    if case.get('op') == 'mofstr':
        c = {k: case[k] for k in ('s', 'indent', 'maxline', 'pos', 'es', 'avoid', 'q')}
        real = real_mofstr(c)
        if 'ok' in real:
            oracle_string(r, case, common.from_cps(real['ok']['mof']), c['s'], 'mofstr')
        else:
            r.violate({'stage': 'string', 'kind': 'tomof_exception', 'exc': real['exc'], 'where': 'mofstr'}, case, real)
        shown = real
    elif case.get('op') == 'value_array':
        from pywbem import _cim_obj
        m, _ = _cim_obj._value_tomof(case['v'], 'string', case['indent'], case['maxline'], case['pos'], case['es'],
                                     case['avoid'])
        shown = real_strarray(m)
        if 'exc' in shown or shown['ok'] != [common.cps(x) for x in case['v']]:
            r.violate({'stage': 'string', 'kind': 'value_differs', 'where': 'value_tomof_array'}, case, shown)
    elif case.get('op') == 'mocksession':
        ses = {'decls': [obj_load(x) for x in case['decls']], 'v1': obj_load(case['v1']), 'v2': obj_load(case['v2']),
               'inst': obj_load(case['inst']), 'ml': case['ml']}
        run_mock_session(r, ses)
        r.violations[:] = [v for v in r.violations if not is_known(v['sig'])]
        shown = {'v2': ses['v2'].tomof(ses['ml'][1]), 'inst': ses['inst'].tomof(ses['ml'][2]),
                 'observed': (r.violations[0]['sig'] if r.violations else None)}
    elif case.get('op') == 'session':
        steps = [{'kind': x['kind'], 'maxline': x['maxline'], 'obj': obj_load(x['obj']),
                  'redeclared': x.get('redeclared', False), 'why': x.get('why')} for x in case['steps']]
        run_session(r, steps)
        r.violations[:] = [v for v in r.violations if not is_known(v['sig'])]
        shown = {'steps': [(x['kind'], x['obj'] if isinstance(x['obj'], str) else x['obj'].tomof(x['maxline']))
                           for x in steps][-4:],
                 'observed': (r.violations[0]['observed'] if r.violations else None)}
    elif case.get('op') == 'decl':
        obj = obj_load(case['obj'])
        decls = [obj_load(x) for x in case['decls']]
        classes = [obj_load(x) for x in case['classes']]
        res, _ = check_decl(r, case['kind'], obj, case['maxline'], decls, classes)
        shown = {'original': repr(obj)[:1500], 'mof': res.get('mof'), 'compiled': repr(res.get('compiled'))[:1500],
                 'exc': res.get('exc') or res.get('tomof_exc'), 'msg': res.get('msg')}
    else:
        return True, 'case of kind %r is a correspondence case, not a property case' % case.get('op')
    if r.violations:
        return False, 'property C08 FAILS on this input: ' + json.dumps(r.violations[0]['sig']) + \
            '\n' + json.dumps(shown, default=str)[:4000]
    return True, 'property C08 holds on this input: ' + json.dumps(shown, default=str)[:2000]
