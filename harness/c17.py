"""C17 — the listener answers any HTTP request with one well-formed response and survives.

K  : raw requests over a loopback socket to a real WBEMListener, the same histories through the Lean
     model (Model/ListenerHttp.lean via drv_c17); status line, the headers pywbem sends, the body and the
     queue bookkeeping are compared exactly.  Function-level K for the text primitives of the model
     (_ascii2, quote, the two findall patterns, int()).
Oracle: the property itself on the bytes that came back: strict HTTP/1.x response grammar, exactly one
     response, allowed header names only (an injected header is a foreign name or a duplicate), no CR/LF/obs-fold
     inside a header, body = DTD-valid export response with the request's ID/NAME, CIMError on 400/406,
     intent-specific demands (success / ERROR / 4xx), every acknowledged indication delivered once and in
     order, a final valid indication on every listener is delivered.
"""
import base64
import json
import os
import random
import re
import socket
import threading
import time

import common

PROP = 'C17'

INVALID_METHODS = ['OPTIONS', 'HEAD', 'GET', 'PUT', 'PATCH', 'DELETE', 'TRACE', 'CONNECT', 'M_POST']
OTHER_METHODS = ['FOO', 'post', 'Post', 'PROPFIND', 'M-POST', 'MPOST', 'BREW', 'X' * 30, 'POST2', 'get']
ALLOWED_RSP_HEADERS = {'server', 'date', 'cimexport', 'cimerror', 'cimerrordetails', 'allow', 'content-type',
                       'content-length', 'connection'}
DOC_STATUS = {200, 400, 405, 406, 500, 501}
SAFE_EXPECTED = ''.join(chr(c) for c in range(0x20, 0x7F) if chr(c) != '%')
TIMEOUT = 4.0
XMLDECL = '<?xml version="1.0" encoding="utf-8" ?>\n'

_handler_excs = []      # exception class names socketserver saw escaping from a handler (this process)


# --------------------------------------------------------------------------- strict response grammar

TOKEN = rb"[!#$%&'*+\-.^_`|~0-9A-Za-z]+"
STATUS_RE = re.compile(rb'HTTP/1\.[01] ([1-5][0-9][0-9]) ([\t \x21-\x7e\x80-\xff]*)')
HEADER_RE = re.compile(rb'(' + TOKEN + rb'):[ \t]*((?:[\x21-\x7e\x80-\xff](?:[ \t\x21-\x7e\x80-\xff]*[\x21-\x7e\x80-\xff])?)?)[ \t]*')


def parse_response(buf):
    """strict HTTP/1.x response grammar -> (dict | None, problem | None)"""
    if not buf:
        return None, 'no_response_bytes'
    i = buf.find(b'\r\n\r\n')
    if i < 0:
        return None, 'no_header_terminator'
    lines = buf[:i].split(b'\r\n')
    body = buf[i + 4:]
    m = STATUS_RE.fullmatch(lines[0])
    if not m:
        return None, 'bad_status_line'
    headers = []
    for ln in lines[1:]:
        m2 = HEADER_RE.fullmatch(ln)
        if not m2:
            return None, 'bad_header_line'       # raw CR / LF / control char / obs-fold inside the header section
        headers.append((m2.group(1).decode('latin-1'), m2.group(2).decode('latin-1')))
    return {'status': int(m.group(1)), 'reason': m.group(2).decode('latin-1'), 'headers': headers, 'body': body}, None


def hget(headers, name):
    for k, v in headers:
        if k.lower() == name.lower():
            return v
    return None


# --------------------------------------------------------------------------- request construction

def esc_attr(v):
    out = []
    for ch in v:
        out.append({'&': '&amp;', '<': '&lt;', '"': '&quot;', '\r': '&#13;', '\n': '&#10;', '\t': '&#9;'}.get(ch, ch))
    return ''.join(out)


def ser(node):
    """node = str (text) | {'raw': xml} | [name, [[k, v], …], [kids]]"""
    if isinstance(node, str):
        return node.replace('&', '&amp;').replace('<', '&lt;')
    if isinstance(node, dict):
        return node['raw']
    name, attrs, kids = node
    a = ''.join(' %s="%s"' % (k, esc_attr(v)) for k, v in attrs)
    if not kids:
        return '<%s%s/>' % (name, a)
    return '<%s%s>%s</%s>' % (name, a, ''.join(ser(k) for k in kids), name)


def envelope(inst_xml, msgid='1001', method='ExportIndication', pname='NewIndication'):
    return ['CIM', [['CIMVERSION', '2.0'], ['DTDVERSION', '2.4']], [
        ['MESSAGE', [['ID', msgid], ['PROTOCOLVERSION', '1.4']], [
            ['SIMPLEEXPREQ', [], [
                ['EXPMETHODCALL', [['NAME', method]], [
                    ['EXPPARAMVALUE', [['NAME', pname]], [{'raw': inst_xml}]]]]]]]]]]


def path(tree, names):
    """descend along element names; returns the node"""
    node = tree
    for n in names:
        node = next(k for k in node[2] if isinstance(k, list) and k[0] == n)
    return node


ODD_STRINGS = ['fooExportIndication', 'exportindication', '', "it's", 'a"b', "a'b\"c", 'a\\x41', 'a\\\\x41', '\\x41',
               '\\\\\\x41', 'café', '\x7f', 'Ā', '\U0001F600', 'a\tb', 'a\nb', 'a\rb', 'ExportIndication ',
               'ÿ\\', "'", '"', '\\', '%41', 'a%0D%0Ab', '€', 'x' * 300]
VERSIONS_BAD = ['3.0', '1.0', '2', '', '20', ' 2.0', '3\r\nX-Injected: 1', '3\nSet-Cookie: a=b', '3€', '3é',
                '3%0D', '3\U0001F600', 'x\r\n\r\nHTTP/1.0 200 OK\r\nContent-Length: 0\r\n\r\n', '0.9', '\t', '3\x7f',
                '9' * 200]
PROTO_BAD = ['2.0', '0.9', '', '1', '11.0', ' 1.4', '2\r\nX-Injected: 1', '2€', '\n']
BAD_INSTANCES = [
    '<INSTANCE CLASSNAME="C"><PROPERTY NAME="p" TYPE="uint8"><VALUE>INF</VALUE></PROPERTY></INSTANCE>',
    '<INSTANCE CLASSNAME="C"><PROPERTY NAME="p" TYPE="boolean"><VALUE>maybe</VALUE></PROPERTY></INSTANCE>',
    '<INSTANCE CLASSNAME="C"><PROPERTY NAME="p" TYPE="uint8"><VALUE>300</VALUE></PROPERTY></INSTANCE>',
    '<INSTANCE CLASSNAME="C"><PROPERTY NAME="p" TYPE="nonsense"><VALUE>1</VALUE></PROPERTY></INSTANCE>',
    '<INSTANCE><PROPERTY NAME="p" TYPE="string"><VALUE>1</VALUE></PROPERTY></INSTANCE>',
    '<INSTANCE CLASSNAME="C"><PROPERTY TYPE="string"><VALUE>1</VALUE></PROPERTY></INSTANCE>',
    '<INSTANCE CLASSNAME="C"><PROPERTY NAME="p" TYPE="datetime"><VALUE>yesterday</VALUE></PROPERTY></INSTANCE>',
    '<INSTANCE CLASSNAME="C"><PROPERTY NAME="p" TYPE="string" EmbeddedObject="instance"><VALUE>&lt;INSTANCE</VALUE></PROPERTY></INSTANCE>',
    '<INSTANCE CLASSNAME="C"><PROPERTY NAME="p" TYPE="string" EmbeddedObject="instance"><VALUE>&lt;FOO/&gt;</VALUE></PROPERTY></INSTANCE>',
    # EmbeddedObject / EMBEDDEDOBJECT on values that are not strings (parse_embeddedObject must refuse them as a parse error)
    '<INSTANCE CLASSNAME="C"><PROPERTY NAME="p" TYPE="uint8" EmbeddedObject="instance"><VALUE>5</VALUE></PROPERTY></INSTANCE>',
    '<INSTANCE CLASSNAME="C"><PROPERTY NAME="p" TYPE="boolean" EMBEDDEDOBJECT="object"><VALUE>true</VALUE></PROPERTY></INSTANCE>',
    '<INSTANCE CLASSNAME="C"><PROPERTY NAME="p" TYPE="datetime" EmbeddedObject="object"><VALUE>20240101000000.000000+000</VALUE></PROPERTY></INSTANCE>',
    '<INSTANCE CLASSNAME="C"><PROPERTY NAME="p" TYPE="real32" EmbeddedObject="instance"><VALUE>1.5</VALUE></PROPERTY></INSTANCE>',
    '<INSTANCE CLASSNAME="C"><PROPERTY.ARRAY NAME="p" TYPE="uint16" EmbeddedObject="instance"><VALUE.ARRAY><VALUE>1</VALUE><VALUE>2</VALUE></VALUE.ARRAY></PROPERTY.ARRAY></INSTANCE>',
    '<INSTANCE CLASSNAME="C"><PROPERTY.ARRAY NAME="p" TYPE="boolean" EMBEDDEDOBJECT="instance"><VALUE.ARRAY><VALUE>false</VALUE></VALUE.ARRAY></PROPERTY.ARRAY></INSTANCE>',
    '<INSTANCE CLASSNAME="C"><PROPERTY NAME="p" TYPE="char16" EmbeddedObject="instance"><VALUE>x</VALUE></PROPERTY></INSTANCE>',
    '<INSTANCE CLASSNAME="C"><PROPERTY NAME="p" TYPE="string" EmbeddedObject="bogus"><VALUE>x</VALUE></PROPERTY></INSTANCE>',
    '<INSTANCE CLASSNAME="C">junk</INSTANCE>',
    '<INSTANCE CLASSNAME="C"><FOO/></INSTANCE>',
    '<INSTANCE CLASSNAME="C"><PROPERTY NAME="p" TYPE="real32"><VALUE>1e999x</VALUE></PROPERTY></INSTANCE>',
    '<INSTANCE CLASSNAME="C"><PROPERTY NAME="p" TYPE="sint64"><VALUE>0x</VALUE></PROPERTY></INSTANCE>',
    '<INSTANCE CLASSNAME="C"><PROPERTY.ARRAY NAME="p" TYPE="uint8" ARRAYSIZE="x"><VALUE.ARRAY/></PROPERTY.ARRAY></INSTANCE>',
    '<INSTANCE CLASSNAME="C"><PROPERTY.REFERENCE NAME="r"><VALUE.REFERENCE><FOO/></VALUE.REFERENCE></PROPERTY.REFERENCE></INSTANCE>',
]
GOOD_CT = ['application/xml; charset=utf-8', 'text/xml', 'application/xml', 'text/xml; charset="utf-8"',
           'TEXT/XML;charset=UTF-8', 'text/xml; charset=utf-8']
HDR_ALPHABET = ['text/xml', 'application/xml', '*/*', 'utf-8', 'UTF-8', '*', 'iso-8859-1', ';', ';', ',', ',', ' ', ' ',
                'q=', 'q=0.5', 'q=1', 'q=0', 'q=1.', 'q=2', '0', '1', '.', 'charset=', 'Charset=', 'charset="utf-8"',
                '"', 'identity', 'Identity', 'gzip', '\t', '\r\n ', '\r\n\t', '\xe9', '%', 'x', 'foo', '=', '\xff', '\x7f']
CHECKED_HEADERS = ['Accept', 'Accept-Charset', 'Accept-Range', 'Content-Type', 'Content-Encoding']
HDR_POOL = {
    'Accept': ['text/xml', 'application/xml', '*/*', 'text/html', 'text/xml, application/xml', 'TEXT/XML', '', ' ',
               'text/xml;q=0.9', 'foo\r\n bar', 'x\r\n\tInjected: 1', 'application/json', '*', 'text/*', 'text/xml '],
    'Accept-Charset': ['UTF-8', 'utf-8', '*', 'ASCII', 'iso-8859-1, utf-8;q=0.5', 'iso-8859-1;q=0.5, *;q=0.1',
                       'ascii; q=1.0,utf-8', 'x;q=0.5;utf-8', 'x; q=7, utf-8', 'utf-8;q=0', '', ',', 'utf8', 'UTF-8\r\n x',
                       'foo;q=1utf-8', 'foo; q=1., *', 'a;   q=0.123456789,*', 'q=1,*', 'x;q=1;*', 'x y *', '\xfcTF-8'],
    'Accept-Range': ['foo', 'bytes', '', 'a\r\n b'],
    'Content-Type': GOOD_CT + ['foo_application/xml', 'text/xml; charset=ascii', 'text/xml; charset="ascii"',
                               'text/xml;charset=', 'text/html, text/xml', 'text/html; charset=utf-8, application/xml',
                               'text/xml; Charset=ascii', 'application/xml;charset=utf-8;q=1', 'text/plain', '',
                               'text/xml; charset=utf-8\r\n x', 'multipart/form-data', 'text/xml;charset="utf-8',
                               'application/xml; charset=UTF-8"x', 'text/xml charset=ascii', 'TEXT/xml;  charset=Utf-8'],
    'Content-Encoding': ['identity', 'Identity', 'IDENTITY', 'gzip', 'deflate', '', 'identity, gzip', 'identity ',
                         'x\r\n y'],
}
CL_POOL = ['abc', '', '-1', '-0', '+5', ' 7 ', '1_0', '1__0', '_1', '0x10', '1.5', '1e3', '\xd9\xa3', '12abc', '- 1', '--1',
           '99999999999999999999', '-99999999999999999999', str(2 ** 62), str(2 ** 63 - 1), str(2 ** 63),
           str(10 ** 30), '0', '00', '007', '1\r\n 2', '\t5', '5\t', '\xa05', 'NaN', 'inf']


def hdr_soup(rng):
    return ''.join(rng.choice(HDR_ALPHABET) for _ in range(rng.randint(0, 7)))


def case_variant(rng, name):
    return rng.choice([name, name.lower(), name.upper(), name.title()])


def b64(b):
    return base64.b64encode(b).decode('ascii')


def unb64(s):
    return base64.b64decode(s)


def gen_instance(rng):
    import cimgen
    g = cimgen.Gen(rng, allow_cr=True, max_depth=2)
    inst = g.instance(with_path=False)
    inst.path = None
    return inst


def valid_body(rng, msgid):
    inst = gen_instance(rng)
    xml = inst.tocimxml().toxml()
    return envelope(xml, msgid=msgid), inst


def mutate_tree(rng, tree):
    """one structural mutation of a valid envelope -> intent"""
    k = rng.choice(['cimver', 'dtdver', 'protover', 'dropattr', 'addattr', 'rename', 'decl', 'dupchild', 'nochild',
                    'text', 'method', 'noparams', 'pname', 'twoparams', 'dupparams', 'noinstance', 'twoinstances',
                    'badinstance', 'badinstance', 'badinstance', 'badinstance',     # x4: every BAD_INSTANCES entry ~10 times per quick run
                    'msgid', 'foreignreq', 'badchar'])
    cim = tree
    msg = path(tree, ['MESSAGE'])
    req = path(tree, ['MESSAGE', 'SIMPLEEXPREQ'])
    call = path(tree, ['MESSAGE', 'SIMPLEEXPREQ', 'EXPMETHODCALL'])
    par = path(tree, ['MESSAGE', 'SIMPLEEXPREQ', 'EXPMETHODCALL', 'EXPPARAMVALUE'])
    if k == 'cimver':
        cim[1][0][1] = rng.choice(VERSIONS_BAD)
        return 'wrong_version'
    if k == 'dtdver':
        cim[1][1][1] = rng.choice(VERSIONS_BAD)
        return 'wrong_version'
    if k == 'protover':
        msg[1][1][1] = rng.choice(PROTO_BAD)
        return 'wrong_version'
    if k == 'dropattr':
        node = rng.choice([cim, msg, call, par])
        del node[1][rng.randrange(len(node[1]))]
        return 'wrong_element'
    if k == 'addattr':
        node = rng.choice([cim, msg, req, call, par])
        node[1].append([rng.choice(['FOO', 'xml:lang', 'NAME2', 'id']), rng.choice(ODD_STRINGS)])
        return 'wrong_element'
    if k == 'rename':
        node, new = rng.choice([(cim, 'CIMX'), (cim, 'cim'), (msg, 'MSG'), (msg, 'DECLARATION'), (req, 'MULTIEXPREQ'),
                                (req, 'SIMPLEEXPRSP'), (req, 'MULTIREQ'), (call, 'METHODCALL'), (call, 'EXPMETHODRESPONSE'),
                                (par, 'PARAMVALUE'), (par, 'IPARAMVALUE')])
        node[0] = new
        return 'wrong_element'
    if k == 'decl':
        cim[2] = [['DECLARATION', [], [['DECLGROUP', [], [
            # a VALID declaration body in about a third of the cases (the parser accepts it, the listener must refuse it)
            ['VALUE.OBJECT', [], [{'raw': rng.choice(BAD_INSTANCES + ['<INSTANCE CLASSNAME="C"/>'] * 12)}]]]]]]]
        return 'wrong_element'
    if k == 'dupchild':
        node = rng.choice([cim, msg, req])
        node[2] = node[2] + [json.loads(json.dumps(node[2][0]))]
        return 'wrong_element'
    if k == 'nochild':
        node = rng.choice([cim, msg, req])
        node[2] = []
        return 'wrong_element'
    if k == 'text':
        node = rng.choice([cim, msg, req, call, par])
        node[2].insert(rng.randrange(len(node[2]) + 1), rng.choice(['junk', ' x ', 'é', '\r\n.', ']]>'.replace('>', ''), 'a&b']))
        return 'wrong_element'
    if k == 'method':
        call[1][0][1] = rng.choice(ODD_STRINGS)
        return 'unknown_method'
    if k == 'noparams':
        call[2] = []
        return 'wrong_params'
    if k == 'pname':
        par[1][0][1] = rng.choice(ODD_STRINGS + ['fooNewIndication', 'newindication'])
        return 'wrong_params'
    if k == 'twoparams':
        other = json.loads(json.dumps(par))
        other[1][0][1] = rng.choice(ODD_STRINGS + ['foo'])
        if rng.random() < 0.5:
            call[2].append(other)
        else:
            call[2].insert(0, other)
        return 'wrong_params'
    if k == 'dupparams':
        other = json.loads(json.dumps(par))
        other[2] = [{'raw': '<INSTANCE CLASSNAME="Second"/>'}]
        call[2].append(other)
        if rng.random() < 0.3:
            call[2].append(json.loads(json.dumps(other)))
        return 'dup_params'
    if k == 'noinstance':
        par[2] = []
        return 'wrong_params'
    if k == 'twoinstances':
        par[2] = par[2] + [{'raw': '<INSTANCE CLASSNAME="Second"/>'}]
        return 'wrong_element'
    if k == 'badinstance':
        par[2] = [{'raw': rng.choice(BAD_INSTANCES)}]
        return 'bad_instance'
    if k == 'msgid':
        msg[1][0][1] = rng.choice(ODD_STRINGS)
        return 'valid'
    if k == 'foreignreq':
        msg[2] = [rng.choice([
            ['SIMPLEREQ', [], [['IMETHODCALL', [['NAME', 'GetClass']], [['LOCALNAMESPACEPATH', [], [['NAMESPACE', [['NAME', 'root']], []]]]]]]],
            ['SIMPLERSP', [], [['IMETHODRESPONSE', [['NAME', 'GetInstance']], [['IRETURNVALUE', [], [{'raw': rng.choice(BAD_INSTANCES)}]]]]]],
            ['SIMPLERSP', [], [['IMETHODRESPONSE', [['NAME', 'X']], [['ERROR', [['CODE', 'x']], []]]]]],
            ['SIMPLEEXPRSP', [], [['EXPMETHODRESPONSE', [['NAME', 'ExportIndication']], []]]],
            ['MULTIRSP', [], []], ['MULTIEXPRSP', [], []], ['MULTIREQ', [], []]])]
        return 'wrong_element'
    if k == 'badchar':
        call[1][0][1] = rng.choice(['a\x01b', 'a\x00', '\x1f', '￾'])
        return 'ill_formed_xml'
    raise AssertionError(k)


def mutate_bytes(rng, body):
    k = rng.choice(['truncate', 'flip', 'insert', 'delete', 'empty', 'garbage', 'encoding', 'encoding', 'bom', 'prefix', 'doctype',
                    'comment', 'badutf8', 'utf16'])
    if k == 'truncate':
        return body[:rng.randrange(len(body))], 'fuzz'
    if k == 'flip':
        i = rng.randrange(len(body))
        return body[:i] + bytes([body[i] ^ (1 << rng.randrange(8))]) + body[i + 1:], 'fuzz'
    if k == 'insert':
        i = rng.randrange(len(body) + 1)
        return body[:i] + rng.choice([b'\xff', b'\x00', b'\xc3', b'<', b'&', b'"', b'>', b'\xed\xa0\x80', b'\xf8', b']]>']) + body[i:], 'fuzz'
    if k == 'delete':
        i = rng.randrange(len(body))
        return body[:i] + body[i + rng.randint(1, 5):], 'fuzz'
    if k == 'empty':
        return b'', 'ill_formed_xml'
    if k == 'garbage':
        return bytes(rng.randrange(256) for _ in range(rng.randint(1, 60))), 'fuzz'
    if k == 'encoding':
        if rng.random() < 0.6:
            # an encoding name the XML parser does not know or support: malformed XML like any other
            enc = rng.choice([b'foo', b'utf-32', b'euc-jp', b'x-user-defined-foo', b'hex', b'ebcdic', b'shift_jis', b'utf-7',
                              b'idna', b'rot13', b'base64', b'', b'utf-16'])
            return body.replace(b'encoding="utf-8"', b'encoding="' + enc + b'"'), 'ill_formed_xml'
        return body.replace(b'encoding="utf-8"', rng.choice([b'encoding="latin-1"', b'encoding="us-ascii"',
                                                             b'encoding="cp1252"', b'encoding="UTF-8"'])), 'fuzz'
    if k == 'bom':
        return b'\xef\xbb\xbf' + body, 'fuzz'
    if k == 'prefix':
        return rng.choice([b' ', b'\n', b'x', b'\x00']) + body, 'fuzz'
    if k == 'doctype':
        return body.replace(b'<CIM ', b'<!DOCTYPE CIM [<!ENTITY e "v">]><CIM ', 1), 'fuzz'
    if k == 'comment':
        return body.replace(b'<MESSAGE', b'<!-- c --><?pi x?><MESSAGE', 1), 'fuzz'
    if k == 'badutf8':
        i = body.find(b'CLASSNAME="') + 11
        return body[:i] + rng.choice([b'\xc3\x28', b'\xe2\x82', b'\xf0\x9f', b'\xc0\xaf', b'\xff']) + body[i:], 'ill_formed_xml'
    if k == 'utf16':
        return body.decode('utf-8').replace('utf-8', 'utf-16').encode('utf-16'), 'fuzz'
    raise AssertionError(k)


def gen_request(rng, n):
    """one request spec (JSON-able, self-contained)"""
    msgid = str(1000 + n)
    tree, inst = valid_body(rng, msgid)
    body = (XMLDECL + ser(tree)).encode('utf-8')
    headers = [['Host', '127.0.0.1'], ['Content-Type', rng.choice(GOOD_CT)], ['CIMExport', 'MethodRequest'],
               ['CIMExportMethod', 'ExportIndication']]
    if rng.random() < 0.3:
        headers.insert(rng.randrange(len(headers) + 1), [case_variant(rng, 'Accept'), rng.choice(['text/xml', 'application/xml', '*/*'])])
    if rng.random() < 0.3:
        headers.insert(rng.randrange(len(headers) + 1), [case_variant(rng, 'Accept-Charset'),
                                                          rng.choice(['UTF-8', 'utf-8', '*', 'iso-8859-1;q=0.2, utf-8;q=0.9'])])
    if rng.random() < 0.3:
        headers.append([case_variant(rng, 'Content-Encoding'), rng.choice(['identity', 'Identity'])])
    if rng.random() < 0.4:
        headers.append(rng.choice([['Accept-Encoding', 'gzip, deflate'], ['Accept-Language', 'en'], ['Connection', 'keep-alive'],
                                   ['Connection', 'close'], ['Expect', '100-continue'], ['Transfer-Encoding', 'chunked'],
                                   ['User-Agent', 'x'], ['CIMProtocolVersion', '1.4'], ['Content-Language', 'de'],
                                   ['Range', 'bytes=0-1'], ['X-Long', 'y' * 2000]]))
    spec = {'method': 'POST', 'target': rng.choice(['/', '/', '/', '/foo?x=1', '*', 'http://h/x']),
            'version': rng.choice(['HTTP/1.1', 'HTTP/1.1', 'HTTP/1.0']), 'headers': headers, 'cl': 'exact', 'intent': 'valid'}
    r = rng.random()
    if r < 0.30:
        pass                                                    # valid indication
    elif r < 0.52:
        spec['intent'] = mutate_tree(rng, tree)
        body = (XMLDECL + ser(tree)).encode('utf-8', 'surrogatepass')
    elif r < 0.62:
        body, spec['intent'] = mutate_bytes(rng, body)
    elif r < 0.70:
        spec['method'] = rng.choice(INVALID_METHODS + OTHER_METHODS)
        spec['intent'] = 'other_method'
        if rng.random() < 0.5:
            body = b''
            spec['headers'] = [['Host', 'x']]
    elif r < 0.86:
        # header variations on an otherwise valid indication
        spec['intent'] = 'header_variation'
        for _ in range(rng.randint(1, 2)):
            name = rng.choice(CHECKED_HEADERS)
            val = rng.choice(HDR_POOL[name]) if rng.random() < 0.6 else hdr_soup(rng)
            if rng.random() < 0.6:
                headers[:] = [h for h in headers if h[0].lower() != name.lower()]
            if name == 'Content-Type' and rng.random() < 0.25:
                headers[:] = [h for h in headers if h[0].lower() != 'content-type']
                continue
            headers.insert(rng.randrange(len(headers) + 1), [case_variant(rng, name), val.lstrip(' \t')])
    else:
        # Content-Length variations
        spec['intent'] = 'length_variation'
        c = rng.random()
        if c < 0.15:
            spec['cl'] = 'missing'
        elif c < 0.30:
            spec['cl'] = str(rng.randrange(len(body)))               # shorter than the body
        elif c < 0.42:
            spec['cl'] = str(len(body) + rng.choice([1, 2, 100, 10 ** 6]))  # longer: the peer stops sending early
        elif c < 0.50:
            spec['cl'] = rng.choice([' %d' % len(body), '%d ' % len(body), '+%d' % len(body), '0%d' % len(body)])
            spec['intent'] = 'valid'
        elif c < 0.56:
            spec['cl'] = 'dup'
        else:
            spec['cl'] = rng.choice(CL_POOL).lstrip(' \t')
    spec['body'] = b64(body)
    n = None if spec['cl'] in ('exact', 'missing', 'dup') else py_int(spec['cl'].lstrip(' \t'))
    if spec['method'] == 'POST' and rng.random() < 0.12 and \
            (spec['cl'] in ('exact', 'dup') or (spec['cl'] != 'missing' and (n is None or n <= len(body)))):
        # the peer keeps its sending side open: the Content-Length header alone must delimit the body
        # (an invalid or negative length must be answered, not waited on)
        spec['keep_open'] = True
    return spec, inst


def build_raw(spec):
    body = unb64(spec['body'])
    # http.client.parse_headers drops blanks after the colon: keep the two views identical
    headers = [[h[0], h[1].lstrip(' \t')] for h in spec['headers']]
    cl = spec['cl']
    if cl == 'exact':
        headers.append(['Content-Length', str(len(body))])
    elif cl == 'dup':
        headers.append(['Content-Length', str(len(body))])
        headers.append(['Content-Length', 'abc'])
    elif cl != 'missing':
        headers.append(['Content-Length', cl.lstrip(' \t')])
    head = '%s %s %s\r\n' % (spec['method'], spec['target'], spec['version'])
    head += ''.join('%s: %s\r\n' % (k, v) for k, v in headers) + '\r\n'
    return head.encode('latin-1') + body, headers


# --------------------------------------------------------------------------- the real listener

def _install_hooks():
    import logging
    import pywbem._listener as L
    logging.getLogger('pywbem').addHandler(logging.NullHandler())
    if getattr(L.ThreadedHTTPServer, '_c17_hooked', False):
        return

    def handle_error(self, request, client_address):   # observation only: which exception left the handler
        import sys
        _handler_excs.append(type(sys.exc_info()[1]).__name__)
    L.ThreadedHTTPServer.handle_error = handle_error
    L.ThreadedHTTPServer._c17_hooked = True


class Session:
    def __init__(self, cap, gated):
        import pywbem
        _install_hooks()
        self.cap, self.gated = cap, gated
        self.lock = threading.Lock()
        self.entered = self.exited = self.released = 0
        self.delivered = []
        self.gate = threading.Semaphore(0)
        sysr = random.SystemRandom()
        last = None
        for _ in range(60):
            self.port = 50100 + sysr.randrange(9800)
            kw = {} if cap is None else {'max_ind_queue_size': cap}
            lis = pywbem.WBEMListener('127.0.0.1', http_port=self.port, **kw)
            lis.add_callback(self.cb)
            try:
                lis.start()
                self.lis = lis
                break
            except Exception as e:  # noqa  port in use
                last = e
        else:
            raise RuntimeError('no free port for the listener: %r' % (last,))
        self.capv = self.lis.max_ind_queue_size

    def cb(self, indication, host):
        with self.lock:
            self.entered += 1
            self.delivered.append(indication)
        if self.gated:
            self.gate.acquire()
        with self.lock:
            self.exited += 1

    def release(self):
        """let the callback that is blocked at the gate return (no-op when none is blocked)"""
        with self.lock:
            blocked = self.gated and self.entered > self.released
            if blocked:
                self.released += 1
        if blocked:
            self.gate.release()
        return blocked

    def settle(self, accepted):
        """wait until the callback thread has taken out everything it can (deterministic queue length)"""
        t0 = time.time()
        while time.time() - t0 < TIMEOUT:
            with self.lock:
                if self.gated:
                    if self.entered == min(accepted, self.released + 1) and self.exited == self.released:
                        return True
                elif self.entered == accepted and self.exited == accepted:
                    return True
            time.sleep(0.0005)
        return False

    def open_gates(self):
        with self.lock:
            was = self.gated
            self.gated = False
        if was:
            for _ in range(10000):
                self.gate.release()

    def stop(self):
        self.open_gates()
        try:
            self.lis.stop()
        except Exception as e:  # noqa  (C16 territory; recorded, not judged here)
            return type(e).__name__
        return None


def open_send(port, raw):
    """connect and send; the connection stays open in both directions"""
    s = socket.socket(socket.AF_INET, socket.SOCK_STREAM)
    s.settimeout(TIMEOUT)
    try:
        s.connect(('127.0.0.1', port))
    except OSError:
        s.close()
        return None
    try:
        s.sendall(raw)
    except OSError:
        pass                     # the server has answered and closed already
    return s


def finish(s, half_close=True):
    """optionally stop sending, then read until the server closes (or the timeout: a blocked handler)"""
    if s is None:
        return 'connect_failed', b''
    if half_close:
        try:
            s.shutdown(socket.SHUT_WR)
        except OSError:
            pass
    buf = b''
    st = 'closed'
    while True:
        try:
            d = s.recv(65536)
        except socket.timeout:
            st = 'timeout'
            break
        except OSError:
            st = 'reset'
            break
        if not d:
            break
        buf += d
    s.close()
    return st, buf


def exchange(port, raw, half_close=True):
    return finish(open_send(port, raw), half_close)


# --------------------------------------------------------------------------- model inputs from the in-process parser

FOREIGN_MSG_KIDS = ('SIMPLEREQ', 'MULTIREQ', 'SIMPLERSP', 'MULTIRSP', 'MULTIEXPREQ', 'SIMPLEEXPRSP', 'MULTIEXPRSP')
ALLOC_LIMIT = 2 ** 40


def py_int(s):
    try:
        return int(s)
    except ValueError:
        return None


def read_exc(n):
    """text of the exception BufferedReader.read(n) raises on this machine for an absurd n"""
    import io
    try:
        io.BufferedReader(io.BytesIO(b'')).read(n)
        return ''
    except Exception as e:  # noqa
        return '%s: %s' % (type(e).__name__, e)


def expected_read(model_headers, blen):
    """how many octets the harness expects do_POST to consume (the model computes its own number; K compares)"""
    v = None
    for k, val in model_headers:
        if k.lower() == 'content-length':
            v = val
            break
    n = 0 if v is None else py_int(v)
    if n is None or n < 0 or n > ALLOC_LIMIT:
        return None
    return min(n, blen)


def find_instances(tt):
    """INSTANCE children of EXPPARAMVALUE elements, document order"""
    out = []

    def walk(t):
        for k in t[2]:
            if isinstance(k, tuple):
                if t[0] == 'EXPPARAMVALUE' and k[0] == 'INSTANCE':
                    out.append(k)
                else:
                    walk(k)
    walk(tt)
    return out


def sort_attrs(t):
    """attribute order of a tree JSON as cimproto.tt_to_json gives it (the SAX attribute dict is unordered)"""
    if not isinstance(t, dict) or 'e' not in t:
        return t
    return {'e': t['e'], 'a': sorted(t['a'], key=lambda kv: (common.from_cps(kv[0]), common.from_cps(kv[1]))),
            'c': [sort_attrs(k) for k in t['c']]}


def real_body_tree(rsp):
    """tupletree (JSON) pywbem's own receiving side makes of a 200 body; None when it cannot"""
    if rsp['status'] != 200:
        return None
    import cimproto
    from pywbem._tupletree import xml_to_tupletree_sax
    try:
        return cimproto.tt_to_json(xml_to_tupletree_sax(rsp['body'], 'export response'))
    except Exception:  # noqa
        return None


def analyse(bodyk):
    """expat/tupletree + parse_export_request on the octets the handler reads, in this process"""
    import pywbem
    import cimproto
    from pywbem._tupletree import xml_to_tupletree_sax
    from pywbem._tupleparse import TupleParser
    from pywbem._listener import ListenerRequestHandler
    out = {'tree': None, 'msg': '', 'foreign': None, 'exctext': '', 'cls': None, 'codec': {}, 'parsed': None,
           'xmlexc': None}
    tt = None
    try:
        tt = xml_to_tupletree_sax(bodyk, "CIM-XML export request")
        out['tree'] = cimproto.tt_to_json(tt)
    except pywbem.XMLParseError:
        pass
    except Exception as e:  # noqa   e.g. LookupError for an unknown encoding name: escapes from xml.sax
        out['xmlexc'] = type(e).__name__
    try:
        out['parsed'] = ListenerRequestHandler.parse_export_request(bodyk)
    except (pywbem.CIMXMLParseError, pywbem.XMLParseError) as e:
        out['msg'] = str(e)
        out['cls'] = type(e).__name__
    except pywbem.VersionError as e:
        out['cls'] = type(e).__name__
    except Exception as e:  # noqa
        out['exctext'] = '%s: %s' % (type(e).__name__, e)
        out['cls'] = type(e).__name__
    if tt is not None:
        T = cimproto.Tables()
        try:
            T.scan_tt(tt)
            out['codec'] = T.to_json()
        except Exception:  # noqa
            pass
        out['inst_real'] = []
        for sub_i in find_instances(tt):
            try:
                TupleParser().parse_any(sub_i)
                out['inst_real'].append([cimproto.tt_to_json(sub_i), 'ok'])
            except Exception as e:  # noqa
                out['inst_real'].append([cimproto.tt_to_json(sub_i), type(e).__name__])
        sub = None
        kids = [k for k in tt[2] if isinstance(k, tuple)]
        if tt[0] == 'CIM' and len(kids) == 1:
            if kids[0][0] == 'DECLARATION':
                sub = kids[0]
            elif kids[0][0] == 'MESSAGE':
                k2 = [k for k in kids[0][2] if isinstance(k, tuple)]
                if len(k2) == 1 and k2[0][0] in FOREIGN_MSG_KIDS:
                    sub = k2[0]
        if sub is not None:
            try:
                TupleParser().parse_any(sub)
            except Exception as e:  # noqa
                out['foreign'] = type(e).__name__
    return out


# --------------------------------------------------------------------------- one session on the real code

RAW_REQUESTS = [
    b'\x00\x01\x02\r\n\r\n', b'GET /\r\n\r\n', b'POST / HTTP/2.0\r\n\r\n', b'POST  /  HTTP/1.1\r\n\r\n', b'', b'\r\n\r\n',
    b'POST / HTTP/1.1\r\nno colon here\r\n\r\n', b'POST / HTTP/1.1\r\n' + b''.join(b'X-%d: 1\r\n' % i for i in range(150)) + b'\r\n',
    b'POST / HTTP/1.1\r\nX-Long: ' + b'y' * 70000 + b'\r\n\r\n', b'POST /' + b'a' * 70000 + b' HTTP/1.1\r\n\r\n',
    b'POST / HTTP/1.1\r\nContent-Type: text/xml\r\nContent-Length: 5\r\n\r\nab', b'POST / HTTP/1.1\r\n: novalue\r\n\r\n',
    b'POST / HTTP/1.1\nContent-Type: text/xml\n\n', b'POST / HTTP/1.1\r\nContent-Type: text/xml',
    b'POST / HTTP/1.1 extra\r\n\r\n', b'\xff\xfe / HTTP/1.1\r\n\r\n', b'POST / HTTP/1.1\r\n\x00: \x00\r\n\r\n',
]


def gen_session(rng, thorough, idx):
    cap = rng.choice([None, None, 0, 1, 1, 2, 3])
    gated = cap in (1, 2, 3) or (rng.random() < 0.2)
    nreq = rng.randint(6, 40 if not thorough else 60)
    events, insts = [], []
    for i in range(nreq):
        if gated and rng.random() < 0.25:
            events.append({'ev': 'release'})
            insts.append(None)
            continue
        if rng.random() < 0.04:
            # below the request grammar: answered (or not) by http.server alone; only survival is demanded
            events.append({'ev': 'raw', 'bytes': b64(rng.choice(RAW_REQUESTS))})
            insts.append(None)
            continue
        spec, inst = gen_request(rng, idx * 1000 + i)
        if gated and cap in (1, 2, 3) and rng.random() < 0.3:
            # bias towards valid indications so that the queue actually fills
            spec, inst = gen_request(random.Random(rng.random()), idx * 1000 + i)
            while spec['intent'] != 'valid' or spec['cl'] != 'exact':
                spec, inst = gen_request(random.Random(rng.random()), idx * 1000 + i)
        spec['ev'] = 'req'
        events.append(spec)
        insts.append(inst)
    if rng.random() < 0.4:
        # one stalled peer somewhere in the history (valid body, but more octets announced than sent, or the
        # body cut short), given up only after the final indication or at an explicit 'unstall'
        sp, _ = gen_request(random.Random(rng.random()), idx * 1000 + 998)
        while sp['intent'] != 'valid' or sp['cl'] != 'exact' or 'keep_open' in sp:
            sp, _ = gen_request(random.Random(rng.random()), idx * 1000 + 998)
        body = unb64(sp['body'])
        if rng.random() < 0.5:
            sp['cl'] = str(len(body) + rng.choice([1, 10, 1000]))
        else:
            sp['cl'] = str(len(body))
            sp['body'] = b64(body[:rng.randrange(len(body))])
        sp['intent'] = 'stalled'
        sp['ev'] = 'req'
        pos = rng.randrange(len(events) + 1)
        events.insert(pos, {'ev': 'stall', 'spec': sp})
        if rng.random() < 0.4:
            events.insert(rng.randrange(pos + 1, len(events) + 1), {'ev': 'unstall'})
    final, finst = None, None
    while final is None or final['intent'] != 'valid' or final['cl'] != 'exact' or 'keep_open' in final:
        final, finst = gen_request(random.Random(rng.random()), idx * 1000 + 999)
    final['ev'] = 'req'
    final['final'] = True
    return {'cap': cap, 'gated': gated, 'events': events + [final]}


def is_success(rsp):
    return rsp is not None and rsp['status'] == 200 and b'<ERROR' not in rsp['body'] and b'EXPMETHODRESPONSE' in rsp['body']


_stoppers = []


def run_session(case, async_stop=False):
    """-> dict(model_req, real_obs, violations, stats) ; everything about the REAL code happens here"""
    import pywbem
    sess = Session(case['cap'], case['gated'])
    del _handler_excs[:]
    state = {'accepted': 0}
    pending = []             # stalled connections: (request spec, index of the stall event, socket)
    acc_parsed = []          # in-process parse of every acknowledged indication, in order
    model_events, real_obs, viol, stats = [], [], [], {}

    def count(k):
        stats[k] = stats.get(k, 0) + 1

    def violate(sig, idx, observed):
        if sig.get('kind') == 'handler_blocked' and pending:
            sig = dict(sig, while_another_peer_stalls=True)
        viol.append({'sig': sig, 'idx': idx, 'observed': observed})
        if sig.get('kind') == 'handler_blocked':
            state['abort'] = True      # every further request would cost another timeout: the history ends here

    req_src = []             # for every model 'req' event: index of the case event it came from

    def do_request(ev, idx, before, sock=None, src=None, ph=None):
        req_src.append(idx if src is None else src)
        raw, hdrs = build_raw(ev)
        body = unb64(ev['body'])
        qlen = state['accepted'] - sess.entered
        nexc = len(_handler_excs)
        if sock is None:
            st, buf = exchange(sess.port, raw, half_close=not ev.get('keep_open'))
        else:
            st, buf = finish(sock, half_close=True)
        rsp, problem = parse_response(buf)
        exc = _handler_excs[nexc] if len(_handler_excs) > nexc else None
        # ---- model inputs
        mreq = {'ev': 'req', 'method': common.cps(ev['method']), 'blen': len(body), 'hex': body.hex(),
                'headers': [[common.cps(k), common.cps(v)] for k, v in hdrs], 'alloc': ALLOC_LIMIT, 'inst': 'shared'}
        k = None
        an = None
        if ev['method'] == 'POST':
            k = expected_read(hdrs, len(body))
            an = analyse(body[:k if k is not None else 0])
            an['read'] = k is not None      # the handler reads exactly these octets and hands them to the parser
            mreq.update({'k': k if k is not None else 0, 'tree': an['tree'], 'xmlexc': an['xmlexc'],
                         'msg': common.cps(an['msg']),
                         'foreign': an['foreign'], 'exctext': common.cps(an['exctext']), 'codec': an['codec'],
                         'inst_real': an.get('inst_real', [])})
            if k is None:
                # Content-Length beyond what read() can allocate: the text of the exception is real input
                n = py_int(next(v for kk, v in hdrs if kk.lower() == 'content-length'))
                if n is not None and n > ALLOC_LIMIT:
                    mreq['exctext'] = common.cps(read_exc(n))
        if rsp is not None:
            # Server and Date values are made by http.server: inputs of the model's wire form
            mreq['server'] = common.cps(hget(rsp['headers'], 'Server') or '')
            mreq['date'] = common.cps(hget(rsp['headers'], 'Date') or '')
        mreq['_src'] = idx if src is None else src
        mreq['cid'] = len(model_events) + 1 if ph is None else ph['cid']
        if ph is None:
            model_events.append(mreq)
        else:
            # a stalled peer: the connection event stands where the peer connected, the answer where it gave up
            ph.update(mreq)
            ph['stall'] = True
            model_events.append({'ev': 'shut', 'cid': ph['cid'], 'server': mreq.get('server'), 'date': mreq.get('date'),
                                 'k': mreq.get('k'), '_src': mreq['_src'], 'method': mreq['method'],
                                 'headers': mreq['headers']})
        # ---- canonical real observation
        if rsp is None:
            real_obs.append({'dropped': exc or problem})
        elif rsp['status'] == 501:
            real_obs.append({'stdlib': True})
        else:
            try:
                btxt = common.cps(rsp['body'].decode('utf-8'))
            except UnicodeDecodeError:
                btxt = None
            real_obs.append({'rsp': {'status': rsp['status'], 'reason': common.cps(rsp['reason']), 'body': btxt,
                                     'headers': [[common.cps(a), common.cps(b)] for a, b in rsp['headers']
                                                 if a.lower() not in ('server', 'date')]},
                             'nread': None, 'bodytree': real_body_tree(rsp),
                             'wire': common.cps(buf[:buf.find(b'\r\n\r\n') + 4].decode('latin-1'))})
        count('intent:' + ev['intent'])
        count('status:%s' % (rsp['status'] if rsp else (problem or st)))
        count('by_intent:%s:%s' % (ev['intent'], rsp['status'] if rsp else (problem or st)))
        if rsp and hget(rsp['headers'], 'CIMError'):
            count('cimerror:' + hget(rsp['headers'], 'CIMError'))
        if an and an['cls']:
            count('parse_exc:' + an['cls'])
        # ---- the property on the real bytes
        oracle_one(ev, st, buf, rsp, problem, exc, an, qlen, sess.capv, idx, violate, count)
        if is_success(rsp):
            state['accepted'] += 1
            acc_parsed.append(an['parsed'][2].get('NewIndication') if an and an['parsed'] else None)
        if not sess.settle(state['accepted']):
            violate({'kind': 'delivery_stalled'}, idx, {'entered': sess.entered, 'accepted': state['accepted']})
        model_events.extend([{'ev': 'deliver'}] * (sess.entered - before))
        real_obs.extend([None] * (sess.entered - before))

    try:
        for idx, ev in enumerate(case['events']):
            if state.get('abort'):
                break
            before = sess.entered
            if ev['ev'] == 'release':
                sess.release()
                if not sess.settle(state['accepted']):
                    violate({'kind': 'delivery_stalled'}, idx, {'entered': sess.entered, 'accepted': state['accepted']})
                model_events += [{'ev': 'deliver'}] * (sess.entered - before)
                real_obs += [None] * (sess.entered - before)
                count('ev:release')
                continue
            if ev['ev'] == 'stall':
                # a peer that announces more octets than it sends and keeps the connection open: its handler
                # waits; every OTHER request must still be answered meanwhile
                raw_s, _ = build_raw(ev['spec'])
                ph = {'ev': 'req', 'cid': len(model_events) + 1}
                model_events.append(ph)
                real_obs.append(None)
                pending.append((ev['spec'], idx, open_send(sess.port, raw_s), ph))
                count('ev:stall')
                continue
            if ev['ev'] == 'unstall':
                while pending:
                    spec_s, idx_s, sock_s, ph_s = pending.pop(0)
                    do_request(spec_s, idx, sess.entered, sock=sock_s, src=idx_s, ph=ph_s)
                continue
            if ev['ev'] == 'raw':
                nexc = len(_handler_excs)
                st, buf = exchange(sess.port, unb64(ev['bytes']))
                count('ev:raw')
                count('raw:' + (st if st != 'closed' else ('answered' if buf else 'closed_silently')))
                if st == 'timeout':
                    violate({'kind': 'handler_blocked', 'intent': 'raw', 'method': 'other'}, idx, {'bytes': len(buf)})
                if len(_handler_excs) > nexc:
                    violate({'kind': 'handler_exception', 'intent': 'raw', 'exc': _handler_excs[nexc]}, idx, {})
                continue
            if ev.get('final'):
                sess.open_gates()
                if not sess.settle(state['accepted']):
                    violate({'kind': 'delivery_stalled'}, idx, {'entered': sess.entered, 'accepted': state['accepted']})
                model_events += [{'ev': 'deliver'}] * (sess.entered - before)
                real_obs += [None] * (sess.entered - before)
                before = sess.entered
            do_request(ev, idx, before)
        # the stalled peers give up sending (half-close): their handlers must now answer like for any short body
        while pending:
            spec_s, idx_s, sock_s, ph_s = pending.pop(0)
            if state.get('abort'):
                if sock_s is not None:
                    sock_s.close()
                i_ph = next(i for i, e in enumerate(model_events) if e is ph_s)
                del model_events[i_ph]
                del real_obs[i_ph]      # the two lists stay aligned
                continue
            do_request(spec_s, idx_s, sess.entered, sock=sock_s, src=idx_s, ph=ph_s)
        # ---- end of history: every acknowledged indication delivered exactly once, in order, unchanged
        sess.open_gates()
        ok = state.get('abort') or sess.settle(state['accepted'])
        with sess.lock:
            delivered = list(sess.delivered)
        if state.get('abort'):
            pass
        elif not ok or len(delivered) != state['accepted']:
            violate({'kind': 'acknowledged_not_delivered'}, len(case['events']) - 1,
                    {'acknowledged': state['accepted'], 'delivered': len(delivered)})
        else:
            for i, (d, p) in enumerate(zip(delivered, acc_parsed)):
                # tocimxml text instead of ==: NaN reals are not equal to themselves
                if p is None or not isinstance(d, pywbem.CIMInstance) or \
                        d.tocimxml().toxml() != p.tocimxml().toxml():
                    violate({'kind': 'delivered_differs_from_sent'}, len(case['events']) - 1, {'position': i})
                    break
        if not sess.lis.http_started:
            violate({'kind': 'listener_died'}, len(case['events']) - 1, {})
        stats['delivered'] = len(delivered)
    finally:
        if async_stop:
            # WBEMListener.stop() takes ~2 s (queue/poll timeouts); clean stopping is C16's subject
            t = threading.Thread(target=sess.stop, daemon=True)
            t.start()
            _stoppers.append(t)
            stop_exc = None
        else:
            stop_exc = sess.stop()
    if stop_exc:
        stats['stop_exc:' + stop_exc] = 1
    return {'model_req': {'cap': sess.capv, 'events': model_events}, 'real_obs': real_obs, 'violations': viol,
            'stats': stats, 'req_src': req_src, 'accepted': state['accepted'], 'ndelivered': stats.get('delivered', 0)}


_DTD = None


def dtd_validate(body):
    """DSP0203 2.4 validation of a response body with lxml -> error text | None"""
    global _DTD
    from lxml import etree
    if _DTD is None:
        _DTD = etree.DTD(os.path.join(common.REPO, 'tests', 'dtd', 'DSP0203_2.4.0.dtd'))
    try:
        root = etree.fromstring(body)
    except etree.XMLSyntaxError as e:
        return 'not well-formed: %s' % e
    if not _DTD.validate(root):
        return 'not DTD-valid: %s' % _DTD.error_log.filter_from_errors()[0]
    return None


def request_ids(an):
    """(msgid, methodname) the request carries, from the in-process tupletree (None when it has none)"""
    try:
        t = an['parsed']
        return t[0], t[1]
    except Exception:  # noqa
        return None


def oracle_one(ev, st, buf, rsp, problem, exc, an, qlen, cap, idx, violate, count):
    """the property for ONE request, on the real bytes only; sig = (kind, intent class, detail)"""
    intent = ev['intent']
    base = {'intent': intent, 'method': 'POST' if ev['method'] == 'POST' else 'other'}
    if st == 'timeout':
        violate(dict(base, kind='handler_blocked'), idx, {'bytes': len(buf)})
        return
    if rsp is None:
        kind = 'no_response' if problem == 'no_response_bytes' else 'malformed_response'
        violate(dict(base, kind=kind, problem=problem, exc=exc), idx, {'raw': b64(buf[:600])})
        return
    if exc is not None:
        violate(dict(base, kind='handler_exception_after_response', exc=exc), idx, {})
    hs = rsp['headers']
    names = [k.lower() for k, _ in hs]
    foreign = sorted(set(n for n in names if n not in ALLOWED_RSP_HEADERS))
    if foreign or len(set(names)) != len(names):
        violate(dict(base, kind='header_injection', status=rsp['status']), idx,
                {'foreign': foreign, 'names': names, 'raw': b64(buf[:600])})
    for k, v in hs:
        if any(ord(c) < 0x20 or ord(c) == 0x7f for c in v):
            violate(dict(base, kind='control_char_in_header', header=k.lower()), idx, {'value': v})
    status = rsp['status']
    if status not in DOC_STATUS:
        violate(dict(base, kind='undocumented_status', status=status), idx, {})
    if hget(hs, 'Server') is None or hget(hs, 'Date') is None:
        violate(dict(base, kind='missing_server_or_date'), idx, {})
    cl = hget(hs, 'Content-Length')
    if cl is None:
        if rsp['body']:
            violate(dict(base, kind='body_without_content_length', status=status), idx, {'raw': b64(buf[:600])})
    elif not re.fullmatch(r'[0-9]+', cl) or int(cl) != len(rsp['body']):
        violate(dict(base, kind='content_length_mismatch', status=status), idx, {'header': cl, 'body': len(rsp['body'])})
    if ev['method'] != 'POST':
        want = 405 if ev['method'] in INVALID_METHODS else 501
        if status != want:
            violate(dict(base, kind='wrong_status_for_method', status=status), idx, {'method': ev['method']})
        if status == 405 and hget(hs, 'Allow') != 'POST':
            violate(dict(base, kind='405_without_allow'), idx, {})
        return
    if status in (400, 406) and not hget(hs, 'CIMError'):
        violate(dict(base, kind='error_status_without_cimerror', status=status), idx, {})
    if status != 200 and hget(hs, 'CIMExport') != 'MethodResponse':
        violate(dict(base, kind='missing_cimexport', status=status), idx, {})
    has_error = None
    if status == 200:
        err = dtd_validate(rsp['body'])
        if err:
            violate(dict(base, kind='export_response_invalid'), idx, {'why': err, 'raw': b64(rsp['body'][:600])})
        else:
            from lxml import etree
            root = etree.fromstring(rsp['body'])
            emr = root.find('MESSAGE/SIMPLEEXPRSP/EXPMETHODRESPONSE')
            if emr is None:
                violate(dict(base, kind='export_response_invalid'), idx, {'why': 'no EXPMETHODRESPONSE'})
            else:
                e = emr.find('ERROR')
                has_error = e is not None
                code = e.get('CODE') if has_error else None
                ids = request_ids(an) if an else None
                if ids is not None:
                    # attribute-value normalisation on the way back: TAB/CR/LF read as blanks
                    norm = lambda s: re.sub('[\t\r\n]', ' ', s)
                    if norm(root.find('MESSAGE').get('ID')) != norm(ids[0]) or norm(emr.get('NAME')) != norm(ids[1]):
                        violate(dict(base, kind='response_does_not_echo_request'), idx,
                                {'id': root.find('MESSAGE').get('ID'), 'name': emr.get('NAME')})
                if has_error and code not in ('1', '4', '7'):
                    violate(dict(base, kind='unexpected_error_code', code=code), idx, {})
                if has_error and code == '1' and not (cap > 0 and qlen >= cap):
                    violate(dict(base, kind='queue_full_reported_but_not_full'), idx, {'qlen': qlen, 'cap': cap})
                count('rsp:' + ('error' + code if has_error else 'success'))
        if hget(hs, 'Content-Type') != 'text/xml' or hget(hs, 'CIMExport') != 'MethodResponse':
            violate(dict(base, kind='export_response_headers'), idx, {'headers': hs})
    # ---- what the property demands for this class of request
    if an is not None and an.get('read') and an['cls'] is not None and status not in (200, 406) \
            and not hget(hs, 'CIMError'):
        # the octets were read and pywbem's own parser refuses them (whatever exception class it used):
        # malformed request => the error status must carry a CIMError header
        violate(dict(base, kind='malformed_request_answered_without_cimerror', status=status, parser_exc=an['cls']), idx,
                {'details': hget(hs, 'CIMErrorDetails')})
    if ev['cl'] not in ('exact', 'missing', 'dup'):
        n = py_int(ev['cl'].lstrip(' \t'))
        if (n is None or n < 0) and status == 200:
            violate(dict(base, kind='invalid_content_length_accepted'), idx, {'content_length': ev['cl']})
    full = cap > 0 and qlen >= cap
    if intent == 'valid':
        if full:
            if not (status == 200 and has_error):
                violate(dict(base, kind='full_queue_not_reported', status=status), idx, {})
        elif not (status == 200 and has_error is False):
            violate(dict(base, kind='valid_indication_not_accepted', status=status), idx,
                    {'details': hget(hs, 'CIMErrorDetails'), 'body': b64(rsp['body'][:300])})
    elif intent in ('unknown_method', 'wrong_params'):
        if not (status == 200 and has_error):
            violate(dict(base, kind='expected_error_response', status=status), idx, {'body': b64(rsp['body'][:300])})
    elif intent == 'dup_params':
        if status == 200 and has_error is False:
            violate(dict(base, kind='duplicate_parameter_accepted'), idx, {})
    elif intent in ('ill_formed_xml', 'wrong_version', 'wrong_element'):
        if not (400 <= status < 600 and hget(hs, 'CIMError')):
            violate(dict(base, kind='expected_4xx_with_cimerror', status=status,
                         parser_exc=an['cls'] if an else None), idx,
                    {'body': b64(rsp['body'][:300]), 'details': hget(hs, 'CIMErrorDetails')})
        elif intent == 'wrong_version' and not hget(hs, 'CIMError').startswith('unsupported-'):
            violate(dict(base, kind='wrong_cimerror', cimerror=hget(hs, 'CIMError')), idx, {})


# --------------------------------------------------------------------------- function-level K

def text_cases(rng, n):
    alpha = ["'", '"', '\\', 'x', 'u', '4', '1', 'a', 'F', 'g', ' ', '\t', '\n', '\r', '\x00', '\x1f', '\x7f', '\x80', '\xe9',
             '\xff', 'Ā', '€', '퟿', '', '￿', '\U00010000', '\U0001F600', '\U0010FFFF', '%', '~', '-']
    out = []
    for _ in range(n):
        out.append(''.join(rng.choice(alpha) for _ in range(rng.choice([0, 1, 2, 3, 4, 6, 9, 14]))))
    return out


RL_METHODS = ['POST', 'GET', 'HEAD', 'FOO', 'M_POST', 'post', 'OPTIONS', 'P\xd6ST', 'PUT']
RL_TARGETS = ['/', '*', '//x/y', '/a?b=c', 'http://h/p', '\xe9']
RL_VERSIONS = ['HTTP/1.1', 'HTTP/1.0', 'HTTP/0.9', 'HTTP/2.0', 'HTTP/1.10', 'HTTP/01.1', 'HTTP/1', 'HTTP/1.1.1', 'HTTP/a.b',
               'HTTP/\xb2.0', 'http/1.1', 'HTTP/1.12345678901', 'HTTP/3', 'FOO/1.1', 'HTTP/1.', 'HTTP/.1', 'HTTP/+1.1',
               'HTTP/1.-1', 'HTTP/12345678901.0', 'HTTP/0.0', 'HTTP/1.99', 'HTTP//1.1', 'HTTP/1.1/', 'HTTP/9999999999.0']
RL_SEPS = [' ', ' ', ' ', '  ', '\t', '\x0b', '\xa0', '\x1c', ' \r ']
RL_ENDS = ['\r\n', '\r\n', '\n', '\r\r\n', '']


def gen_request_line(rng):
    r = rng.random()
    if r < 0.03:
        return rng.choice(['\r\n', '\n', ' \r\n', '\t\t\n'])
    if r < 0.05:
        return 'POST /' + 'a' * rng.choice([65000, 65529, 65530, 65531, 70000]) + ' HTTP/1.1\r\n'
    words = [rng.choice(RL_METHODS + ['POST', 'POST']), rng.choice(RL_TARGETS),
             rng.choice(['HTTP/1.1', 'HTTP/1.0', 'HTTP/0.9']) if rng.random() < 0.55 else rng.choice(RL_VERSIONS)]
    n = rng.choice([1, 2, 2, 3, 3, 3, 3, 3, 4, 5])
    if n <= 3:
        words = words[:n]
    else:
        words = words[:2] + [rng.choice(['x', 'HTTP/1.1', '/'])] * (n - 3) + [words[2]]
    line = (rng.choice(['', '', '', ' ']) + ''.join(w + rng.choice(RL_SEPS) for w in words[:-1]) + words[-1]
            + rng.choice(['', '', ' ']) + rng.choice(RL_ENDS))
    return line


def classify_wire(buf):
    if not buf:
        return ['silent']
    if buf.startswith(b'HTTP/'):
        rsp, problem = parse_response(buf)
        if rsp is None:
            return ['malformed', problem]
        return ['status' if hget(rsp['headers'], 'CIMExport') else 'stdlib', rsp['status']]
    m = re.search(rb'Error code: (\d+)', buf)
    if m:
        return ['bare', int(m.group(1))]
    if buf.startswith(b'<?xml'):
        return ['barebody']
    return ['other', b64(buf[:80])]


def request_line_k(run):
    """http.server's handle_one_request/parse_request in front of the handler: Model serve vs one real listener"""
    rng = run.rng
    n = 1500 if run.thorough else 220
    sess = Session(None, False)
    try:
        inst_xml = '<INSTANCE CLASSNAME="C"/>'
        body = (XMLDECL + ser(envelope(inst_xml, msgid='7'))).encode('utf-8')
        reqs, real, lines = [], [], []
        for i in range(n):
            line = gen_request_line(rng)
            full = rng.random() < 0.35            # a complete valid indication behind the line, else only a Host header
            if full:
                hdrs = [['Host', 'x'], ['Content-Type', 'text/xml'], ['Content-Length', str(len(body))]]
                payload = body
            else:
                hdrs = [['Host', 'x']]
                payload = b''
            raw = line.encode('latin-1')
            if not line.endswith('\n'):
                raw_all = raw               # no line end: the line is all the peer sends
                rest, payload_m = '', b''
            else:
                # the header section as raw text, in the spellings http.client.parse_headers has rules for
                rest = ''
                for k, v in hdrs:
                    if k == 'Content-Type' and rng.random() < 0.3:
                        v = rng.choice(['text/xml;\r\n charset=utf-8', 'text/xml \t', 'application/xml;\r\n\tcharset="utf-8"'])
                    rest += (rng.choice([k, k.lower(), k.upper()]) + rng.choice([': ', ':', ':\t ', ':  ']) + v
                             + rng.choice(['\r\n', '\r\n', '\n']))
                if rng.random() < 0.1:
                    rest = rng.choice(['From x\r\n', ': y\r\n', ' z\r\n']) + rest
                if rng.random() < 0.05:
                    rest = rest + 'no colon\r\nContent-Length: 1\r\n'       # ends the header section early
                rest += rng.choice(['\r\n', '\r\n', '\n'])
                raw_all = raw + rest.encode('latin-1') + payload
                payload_m = payload
            st, buf = exchange(sess.port, raw_all)
            got = ['blocked'] if st == 'timeout' else classify_wire(buf)
            an = analyse(payload_m)
            reqs.append({'op': 'serve', 'line': common.cps(line), 'rest': common.cps(rest), 'method': common.cps('POST'),
                         'headers': [], 'blen': len(payload_m),
                         'k': len(payload_m), 'tree': an['tree'], 'xmlexc': an['xmlexc'], 'msg': common.cps(an['msg']),
                         'foreign': an['foreign'], 'exctext': common.cps(an['exctext']), 'codec': an['codec'], 'inst': 'ok',
                         'alloc': ALLOC_LIMIT})
            real.append(got)
            lines.append(line)
        # the stdlib-made header values: Date (formatdate) and Server (pywbem's version_string) as the model writes them
        import email.utils
        import pywbem
        from http.server import BaseHTTPRequestHandler as B
        st, buf = exchange(sess.port, b'GET / HTTP/1.1\r\nHost: x\r\n\r\n')
        rsp, _ = parse_response(buf)
        if rsp is not None:
            dates = [hget(rsp['headers'], 'Date')] + [email.utils.formatdate(rng.randrange(0, 2 ** 33), usegmt=True)
                                                      for _ in range(40)]
            dreqs, dreal = [], []
            for ds in dates:
                t = email.utils.parsedate(ds)
                wd = ['Mon', 'Tue', 'Wed', 'Thu', 'Fri', 'Sat', 'Sun'].index(ds[:3])
                dreqs.append({'op': 'date', 'wd': wd, 'd': t[2], 'mon': t[1], 'y': t[0], 'hh': t[3], 'mm': t[4], 'ss': t[5],
                              'v': common.cps(pywbem.__version__), 'sv': common.cps(B.server_version),
                              'sys': common.cps(B.sys_version)})
                dreal.append({'out': common.cps(ds), 'server': common.cps((hget(rsp['headers'], 'Server') or '') + ' ')})
            for rq, a, r in zip(dreqs, common.run_driver(PROP, dreqs), dreal):
                run.case({'unit': 'date', 'v': r['out']}, nontrivial=True)
                run.count('unit:date')
                if a != r:
                    run.disagree({'unit': 'date', 'fields': {k: v for k, v in rq.items() if k not in ('v', 'sv', 'sys')}}, a, r,
                                 'Date / Server header value')
        answers = common.run_driver(PROP, reqs)
        for line, a, r in zip(lines, answers, real):
            run.case({'unit': 'serve', 'line': line[:200]}, nontrivial=True)
            run.count('serve:' + str(r[0]) + (':%s' % r[1] if len(r) > 1 and isinstance(r[1], int) else ''))
            if a.get('out') != r:
                run.disagree({'unit': 'serve', 'line': line[:300]}, a.get('out'), r, 'request line (http.server parse_request)')
            if r[0] in ('blocked', 'malformed', 'other'):
                run.violate({'kind': 'request_line_' + r[0], 'intent': 'raw', 'method': 'other'},
                            {'cap': None, 'gated': False, 'events': [{'ev': 'raw', 'bytes': b64(line.encode('latin-1'))}]},
                            {'got': r})
    finally:
        sess.stop()


def unit_k(run):
    """_ascii2, quote, findall patterns, int(): model function vs the real function on generated strings"""
    import pywbem._listener as L
    from pywbem._utils import _ascii2
    from urllib.parse import quote
    rng = run.rng
    n = 4000 if run.thorough else 700
    reqs, real = [], []
    safe = getattr(L, 'HEADER_VALUE_SAFE_CHARS', None)
    for s in text_cases(rng, n) + ODD_STRINGS + VERSIONS_BAD:
        reqs.append({'op': 'ascii2', 's': common.cps(s)})
        real.append(common.cps(_ascii2(s)))
        reqs.append({'op': 'quote', 's': common.cps(s)})
        real.append(common.cps(quote(s, safe=safe, errors='replace') if safe is not None else s))
    for s in text_cases(rng, n // 10):
        ks = [s] + text_cases(rng, rng.randint(0, 2))
        d = {}
        for k in ks:
            d[k] = 1
        reqs.append({'op': 'keys', 'ks': [common.cps(k) for k in d]})
        real.append(common.cps(_ascii2(d.keys())))
    hv = []
    for name in CHECKED_HEADERS:
        hv += HDR_POOL[name]
    hv += [hdr_soup(rng) for _ in range(n)]
    for s in hv:
        reqs.append({'op': 'tokq', 's': common.cps(s)})
        real.append([common.cps(t) for t, _ in re.findall(L.TOKEN_QUALITY_FINDALL_PATTERN, s)])
        reqs.append({'op': 'tokc', 's': common.cps(s)})
        real.append([[common.cps(t), common.cps(c)] for t, c in re.findall(L.TOKEN_CHARSET_FINDALL_PATTERN, s)])
    ints = CL_POOL + [''.join(rng.choice(['0', '1', '9', '_', '+', '-', ' ', '\t', 'x', '.', '\xa0', '٣', '１', 'e'])
                              for _ in range(rng.randint(0, 5))) for _ in range(n)]
    for s in ints:
        reqs.append({'op': 'int', 's': common.cps(s)})
        v = py_int(s)
        real.append(None if v is None else str(v))
    chunks = [b'a', b'<', b'\x7f', b'\xc2\x80', b'\xdf\xbf', b'\xe0\xa0\x80', b'\xef\xbf\xbf', b'\xed\x9f\xbf', b'\xee\x80\x80',
              b'\xf0\x90\x80\x80', b'\xf4\x8f\xbf\xbf', b'\xc0\xaf', b'\xc1\xbf', b'\xe0\x9f\xbf', b'\xed\xa0\x80', b'\xed\xbf\xbf',
              b'\xf0\x8f\xbf\xbf', b'\xf4\x90\x80\x80', b'\xf5\x80\x80\x80', b'\xff', b'\x80', b'\xbf', b'\xc2', b'\xe2\x82', b'\xf0\x9f\x98',
              b'\xef\xbb\xbf', '€'.encode(), 'é'.encode(), '\U0001F600'.encode(), b'\xe2\x28\xa1', b'\xf0\x28\x8c\xbc']
    for _ in range(n):
        bs = b''.join(rng.choice(chunks) for _ in range(rng.randint(0, 5)))
        reqs.append({'op': 'utf8', 'hex': bs.hex()})
        try:
            real.append(common.cps(bs.decode('utf-8')))
        except UnicodeDecodeError:
            real.append(None)
    # header sections: Model parseHeaders vs http.client.parse_headers (what http.server hands to do_POST)
    import io
    import http.client
    hn = ['Content-Type', 'content-length', 'CIMExport', 'Accept', 'X', 'a b', '', 'N\xe4me', 'From', 'x:y', 'Accept-Charset']
    hsep = [':', ': ', ':  ', ':\t', ' :', ': \t ']
    hv = ['text/xml', '12', 'MethodRequest', 'utf-8;q=0.5, *', '', ' ', 'a\r\n b', 'a\r\n\tb\r\n  c', 'a\rb', 'a\x0bb', 'a\x85b',
          'a\x1cb', 'a:b', 'v ', 'v\t', '\xe9', 'a\n b', 'a\x0cb', 'a\x1eb']
    hl = ['From me\r\n', 'no colon here\r\n', ' leading continuation\r\n', ':empty name\r\n', 'From: x\r\n', '\tx\r\n']
    for i in range(n):
        parts = []
        for _ in range(rng.randint(0, 6)):
            if rng.random() < 0.12:
                parts.append(rng.choice(hl))
            else:
                parts.append(rng.choice(hn) + rng.choice(hsep) + rng.choice(hv) + rng.choice(['\r\n', '\r\n', '\n']))
        text = ''.join(parts) + rng.choice(['\r\n', '\r\n', '\n', '', '\r\nbody: x\r\n'])
        if i % 97 == 0:
            text = ''.join('X-%d: 1\r\n' % j for j in range(rng.choice([98, 99, 100, 101, 150]))) + '\r\n'
        if i % 101 == 0:
            text = 'X: ' + 'y' * rng.choice([65500, 65531, 65532, 65533, 65534, 70000]) + '\r\n\r\n'
        reqs.append({'op': 'hdrs', 's': common.cps(text)})
        try:
            m = http.client.parse_headers(io.BytesIO(text.encode('latin-1')))
            real.append([[common.cps(k), common.cps(v)] for k, v in m.items()])
        except http.client.HTTPException:
            real.append(None)
    answers = common.run_driver(PROP, reqs)
    for rq, a, r in zip(reqs, answers, real):
        run.case({'unit': rq['op'], 's': rq.get('s', rq.get('ks', rq.get('hex')))}, nontrivial=True)
        run.count('unit:' + rq['op'])
        if a.get('out') != r:
            run.disagree({'unit': rq['op'], 'input': rq.get('s', rq.get('ks', rq.get('hex')))}, a.get('out'), r, 'text primitive ' + rq['op'])
    # constants that exist only after the fix (not extracted, see Model/ListenerHttp.lean)
    consts = {'safe_chars': safe == SAFE_EXPECTED,
              'protocol_version': L.ListenerRequestHandler.protocol_version == 'HTTP/1.0'}
    import http.client
    consts['reasons'] = [http.client.responses.get(c) for c in (200, 400, 405, 406, 500)] == \
        ['OK', 'Bad Request', 'Method Not Allowed', 'Not Acceptable', 'Internal Server Error']
    for k, ok in consts.items():
        run.case({'const': k}, nontrivial=False)
        if not ok:
            run.disagree({'const': k}, True, False, 'constant the model hard-codes')


# --------------------------------------------------------------------------- driver of the check

def _session_job(args):
    seed, thorough, idx = args
    rng = random.Random(seed)
    case = gen_session(rng, thorough, idx)
    res = run_session(case, async_stop=True)
    res['case'] = case
    while len(_stoppers) > 6:
        _stoppers.pop(0).join()
    return res


def minimise(case, v):
    """smallest replayable history that still shows the violation: the single request (+ final), else the last
    stalled peer + the request, else the prefix"""
    idx = v['idx']
    ev = case['events'][idx]
    final = case['events'][-1]
    tail = [final] if ev is not final else []
    cands = []
    if ev['ev'] == 'req':
        cands.append({'cap': case['cap'], 'gated': False, 'events': [ev] + tail})
    stalls = [e for e in case['events'][:idx] if e['ev'] == 'stall']
    if stalls:
        cands.append({'cap': case['cap'], 'gated': False, 'events': [stalls[-1], ev] + tail})
    for cand in cands:
        try:
            r = run_session(cand)
            if any(x['sig'] == v['sig'] for x in r['violations']):
                return cand
        except Exception:  # noqa
            pass
    return {'cap': case['cap'], 'gated': case['gated'], 'events': case['events'][:idx + 1] + tail}


def _register_module():
    """./check loads this file under a name that is not in sys.modules; the fork pool pickles workers by name"""
    import sys
    import types
    if __name__ not in sys.modules:
        m = types.ModuleType(__name__)
        m.__dict__.update(globals())
        sys.modules[__name__] = m


def sessions(run, n, procs):
    _register_module()
    jobs = [(run.rng.getrandbits(48), run.thorough, i) for i in range(n)]
    return common.pmap(_session_job, jobs, procs=procs, chunksize=2)


def for_driver(model_req, mode):
    """the history as sent to the driver.  mode 'par': the request parser is the model's own parseBytes (strict UTF-8 +
    XmlParse.par) on the real octets; 'tree': expat's tupletree is a model input; 'tree+inst': additionally the
    outcomes of the real parse_instance per INSTANCE subtree instead of the shared decoder"""
    evs = []
    for e in model_req['events']:
        e2 = {k: v for k, v in e.items() if k not in ('inst_real', 'hex', '_src')}
        if e2.get('ev') == 'req':
            if mode == 'par' and 'hex' in e and not PAR_OUT_OF_SCOPE.search(bytes.fromhex(e['hex'])):
                # documents outside the declared scope of XmlParse.par (DOCTYPE, processing instructions, encodings
                # other than UTF-8) keep expat's tupletree as the model input
                e2['xmlmode'] = 'par'
                e2['hex'] = e['hex']
                e2.pop('tree', None)
            if mode == 'tree+inst' and e.get('inst_real'):
                e2['inst'] = {'table': e['inst_real']}
        evs.append(e2)
    return {'cap': model_req['cap'], 'events': evs}


PAR_OUT_OF_SCOPE = re.compile(  # noqa
    rb'<!DOCTYPE|<\?(?!xml[ \t\r\n])|^\xff\xfe|^\xfe\xff|encoding=["\'](?!utf-?8["\'])', re.I)


def compare_session(run, res, ans, second=False):
    if not second:
        # pass 1 (ans): request parser = the model's parseBytes, parse_instance = the shared decoder decInstance.
        # On disagreement: pass 2 with expat's tupletree as input, pass 3 additionally with the real parse_instance
        # outcomes.  Agreement in a later pass = a gap of a SHARED model on this input (XmlParse.par under-approximates
        # expat by design: DOCTYPE, PIs, other encodings; decInstance on malformed INSTANCE content), counted and
        # noted in the evidence; otherwise a disagreement of the listener model.
        probe = common.Run(PROP, run.tier, run.seed)
        compare_session(probe, res, ans, second=True)
        if not probe.disagreements:
            return
        last = probe
        for mode, label in (('tree', 'par'), ('tree+inst', 'shared_decoder')):
            ans2 = common.run_driver(PROP, [for_driver(res['model_req'], mode)])[0]
            probe2 = common.Run(PROP, run.tier, run.seed)
            compare_session(probe2, res, ans2, second=True)
            if not probe2.disagreements:
                d = last.disagreements[0]
                body = unb64(d['case'].get('body') or '') if d['case'].get('body') else b''
                if label == 'par':
                    scope = 'out_of_scope' if PAR_OUT_OF_SCOPE.search(body) else 'in_scope'
                    run.count('par_gap:' + scope)
                    if scope == 'in_scope' and len(run.notes) < 8:
                        run.notes.append('XmlParse.par (via parseBytes) and expat differ on a document without DOCTYPE/PI/'
                                         'foreign encoding; the listener model agrees with expat\'s tree as input: body='
                                         + str(d['case'].get('body'))[:1500])
                else:
                    run.count('shared_decoder_gap')
                    if len(run.notes) < 8:
                        run.notes.append('shared decoder decInstance and the real parse_instance differ on a malformed '
                                         'INSTANCE; the listener model agrees once the real outcome is supplied: body='
                                         + str(d['case'].get('body'))[:1500])
                return
            last = probe2
        run.disagreements += last.disagreements
        return
    mo = ans.get('obs')
    ro = res['real_obs']
    case = res['case']
    if mo is None or len(mo) != len(ro):
        run.disagree({'session': case}, mo, ro, 'history length')
        return
    ri = -1
    evs = [e for e in res['model_req']['events']]
    for i, (m, r) in enumerate(zip(mo, ro)):
        if evs[i]['ev'] == 'deliver':
            continue
        m2 = m
        if isinstance(m, dict) and 'rsp' in m:
            nread = m.get('nread')
            m2 = {'rsp': m['rsp'], 'nread': None, 'wire': m.get('wire'), 'bodytree': sort_attrs(m.get('bodytree'))}
            # the parsed Server value has lost its trailing blank (OWS): compare the wire form modulo blanks before CR
            if common.from_cps(m2['wire'] or []).replace(' \r', '\r') == common.from_cps(r.get('wire') or []).replace(' \r', '\r'):
                m2['wire'] = r.get('wire')
            k = evs[i].get('k')
            if nread is not None and nread != k:
                run.disagree({'request': evs[i].get('headers')}, nread, k, 'octets read by do_POST')
        if isinstance(m2, dict) and 'rsp' in m2:
            # optional white space around a header value is not part of the value (RFC 7230 3.2.4)
            for kv in m2['rsp']['headers']:
                kv[1] = common.cps(common.from_cps(kv[1]).strip(' \t'))
        if m2 != r:
            src_ev = case['events'][evs[i].get('_src', 0)]
            src_ev = src_ev.get('spec', src_ev)
            run.disagree({'cap': case['cap'], 'request_no': i, 'method': evs[i].get('method'),
                          'headers': evs[i].get('headers'), 'body': src_ev.get('body')}, m2, r, 'response')
            break
    if len(ans.get('accepted', [])) != res['accepted'] or len(ans.get('delivered', [])) != res['ndelivered']:
        run.disagree({'cap': case['cap']}, {'accepted': len(ans.get('accepted', [])), 'delivered': len(ans.get('delivered', []))},
                     {'accepted': res['accepted'], 'delivered': res['ndelivered']}, 'queue bookkeeping')


def run(run):
    nsess = 1300 if run.thorough else 110
    run.rule = ('seeded listener histories (6..40 requests, thorough ..60, + a final valid indication) on a real WBEMListener '
                'over loopback, queue limits {default,0,1,2,3} with a gated callback so that the queue really fills: '
                '30% valid ExportIndication with cimgen instances, 22% structural envelope mutations (versions incl. CR/LF/'
                'non-Latin-1 text, attributes, element names, foreign/duplicate/missing children and parameters, odd method '
                'names, malformed instances), 10% byte-level mutations, 8% other HTTP methods, 16% Accept/Accept-Charset/'
                'Accept-Range/Content-Type/Content-Encoding variations (pool + token soup, folded values, duplicates, name '
                'case), 14% Content-Length variations (missing, short, long, signed, padded, non-numeric, negative, 2^62..10^30, '
                'duplicate); plus function-level cases for _ascii2/quote/findall/int. non-trivial = distinct (request, position) '
                'JSON; every request counts one case')
    run.assumptions += [
        'http.server request-line/header parsing, its 501/400 answers, Server and Date headers are stdlib (not modelled; K feeds '
        'the model the header list the harness expects http.server to produce and compares the answers)',
        'expat + CIMContentHandler (bytes -> tupletree), the message text of XMLParseError/CIMXMLParseError, TupleParser on '
        'non-export subtrees and the text of unexpected exceptions are parameters of the model (Env); K takes them from the '
        'same pywbem in-process on the octets the handler reads',
        'parse_instance inside the model = the shared decoder Model/CimXmlDec.decInstance with the codec tables of cimproto.Tables',
        'an HTTP request = syntactically valid request line (HTTP/1.0 or 1.1) and header section; garbage before that is '
        'answered by http.server alone and is outside the quantifier',
        'rfile.read(n) raises MemoryError for n > 2^40 on this machine (model parameter allocLimit); lengths between 10^7 and 2^40 '
        'are not generated',
    ]
    t0 = time.time()
    results = sessions(run, nsess, procs=None if run.thorough else 6)
    answers = common.run_driver(PROP, [for_driver(r['model_req'], 'par') for r in results])
    for res, ans in zip(results, answers):
        case = res['case']
        reqs = [e.get('spec', e) for e in case['events'] if e['ev'] in ('req', 'stall')]
        for j, e in enumerate(reqs):
            run.case({'m': e['method'], 'h': e['headers'], 'cl': e['cl'], 'b': e['body'][:400], 'j': j},
                     nontrivial=True)
        for k, n in res['stats'].items():
            run.count(k, n)
        run.count('sessions')
        for e in res['model_req']['events']:
            if e.get('ev') == 'req' and 'hex' in e and common.from_cps(e['method']) == 'POST':
                run.count('xmlparser:' + ('expat_tree(out of par scope)' if PAR_OUT_OF_SCOPE.search(bytes.fromhex(e['hex']))
                                          else 'model_parseBytes'))
        run.count('cap:%s' % case['cap'])
        compare_session(run, res, ans)
        for v in res['violations']:
            mini = minimise(case, v) if len([x for x in run.violations if x['sig'] == v['sig']]) < 1 else \
                {'cap': case['cap'], 'gated': case['gated'], 'events': case['events'][:v['idx'] + 1] + [case['events'][-1]]}
            run.violate(v['sig'], mini, v['observed'])
    run.extra['sessions_wall_s'] = round(time.time() - t0, 1)
    unit_k(run)
    request_line_k(run)


def oracle_only(run):
    """no model (build broken): the property oracle alone on the real code"""
    for res in sessions(run, 30, procs=6):
        for v in res['violations']:
            run.violate(v['sig'], minimise(res['case'], v), v['observed'])


def search(run):
    """proof/K broke and the oracle saw nothing: widen the oracle-only search on the real code"""
    before = len(run.violations)
    for _ in range(6):
        for res in sessions(run, 60, procs=None):
            for v in res['violations']:
                run.violate(v['sig'], minimise(res['case'], v), v['observed'])
        if len(run.violations) > before:
            break
    return run.violations[before:]


def replay(payload):
    case = payload['case']
    res = run_session(case)
    want = payload.get('sig')
    if res['violations']:
        v = next((x for x in res['violations'] if x['sig'] == want), res['violations'][0])
        return False, 'property C17 FAILS on this history: ' + json.dumps(v['sig']) + '\nobserved: ' + \
            json.dumps(v['observed'])[:1500]
    return True, 'property C17 holds on this history (%d request(s), %d indication(s) acknowledged and delivered)' % (
        len([e for e in case['events'] if e['ev'] == 'req']), res['accepted'])
