"""C13 — association traversal of the mock WBEM server: correspondence K (Lean model Model/Assoc.lean
vs the real FakedWBEMConnection, fed with the REAL stores) + the property oracle on the real code.

One generated *repository spec* = schema (node class hierarchy + random binary/ternary association
classes with subclasses, recased REF class names, optional non-key ends) + nodes in up to three
namespaces + association instances (created through CreateInstance; anomalies loaded with
add_cimobjects) + deletions.  For every repository: every source object x sampled filter tuples; the four
traditional operations on both levels plus the Open…/Iter… variants.
"""
import json
import random

import common

PROP = 'C13'

NSS = ['root/a', 'root/b', 'Root/C']
QUALS = '''
Qualifier Key : boolean = false, Scope(property, reference), Flavor(DisableOverride, ToSubclass);
Qualifier Association : boolean = false, Scope(association), Flavor(DisableOverride, ToSubclass);
'''
# node classes: (name, superclass)
NODE_CLASSES = [('C13_Node', None), ('C13_Sub', 'C13_Node'), ('C13_SubSub', 'C13_Sub'),
                ('C13_Other', None), ('c13_lower', 'C13_Other')]
ROLES = ['Antecedent', 'Dependent', 'parent', 'child', 'Member', 'GroupComponent', 'opt', 'x']
ANOMALIES = [None, None, None, None, 'no_ns', 'host', 'dangling', 'one_sided', 'recased', 'dangling_ns']


def recase(s, rng):
    if not s:
        return s
    k = rng.randrange(4)
    if k == 0:
        return s.upper()
    if k == 1:
        return s.lower()
    if k == 2:
        return s.swapcase()
    return ''.join(c.upper() if rng.random() < 0.5 else c.lower() for c in s)


# --------------------------------------------------------------------------- generation of repository specs

def gen_schema(rng, idkeyed=None):
    """association classes: [name, super|None, [[role, refclass as written, iskey]…]].
    With probability `idkeyed` a base class gets no key reference at all: it is then declared with
    `[Key] string InstanceID` (see id_keyed) and every end can be NULL or re-pointed by ModifyInstance."""
    node_names = [n for n, _ in NODE_CLASSES]
    assocs = []
    nbase = rng.randint(1, 4)
    for i in range(nbase):
        name = rng.choice(['C13_L%d', 'c13_l%d', 'C13_Assoc%d']) % i
        arity = 2 if rng.random() < 0.65 else 3
        roles = rng.sample(ROLES, arity)
        refs = []
        for j, r in enumerate(roles):
            rc = rng.choice(node_names)
            if rng.random() < 0.25:
                rc = recase(rc, rng)
            iskey = True if j == 0 else (rng.random() < 0.7)
            if rng.random() < 0.2:
                r = recase(r, rng)
            refs.append([r, rc, iskey])
        if idkeyed is not None and rng.random() < idkeyed:
            for ref in refs:
                ref[2] = False
        assocs.append([name, None, refs])
        nsub = rng.choice([0, 0, 1, 1, 2])
        parent = name
        for k in range(nsub):
            sub = '%s_S%d' % (name, k)
            sup = parent if rng.random() < 0.6 else name
            if rng.random() < 0.2:
                sup = recase(sup, rng)
            assocs.append([sub, sup, []])
            parent = sub
    return assocs


def schema_mof(assocs):
    out = [QUALS]
    for n, s in NODE_CLASSES:
        out.append('class %s%s { %s };' % (n, (' : ' + s) if s else '', '' if s else '[Key] string id;'))
    for name, sup, refs in assocs:
        body = ' '.join('%s%s REF %s;' % ('[Key] ' if k else '', rc, r) for r, rc, k in refs)
        if id_keyed(refs):
            body = '[Key] string InstanceID; ' + body
        if not refs:
            body = 'string note_%s;' % name
        out.append('[Association] class %s%s { %s };' % (name, (' : ' + sup) if sup else '', body))
    return '\n'.join(out)


def node_subtree(cls, node_classes=None):
    """node classes that are `cls` (case-insensitively) or below it"""
    node_classes = node_classes or NODE_CLASSES
    res = [n for n, _ in node_classes if n.lower() == cls.lower()]
    changed = True
    while changed:
        changed = False
        for n, s in node_classes:
            if s and s.lower() in [r.lower() for r in res] and n not in res:
                res.append(n)
                changed = True
    return res


def id_keyed(refs):
    """the class has no key reference: its key is the string property InstanceID"""
    return bool(refs) and not any(k for _, _, k in refs)


def assoc_refs(assocs, name):
    """effective reference declarations of association class `name` (inherited from its base)"""
    d = {a[0].lower(): a for a in assocs}
    a = d[name.lower()]
    while not a[2]:
        a = d[a[1].lower()]
    return a[2]


def gen_spec(rng, thorough, idkeyed=0.2):
    assocs = gen_schema(rng, idkeyed)
    nns = rng.choice([1, 2, 2, 3])
    nss = NSS[:nns]
    nnodes = rng.choice([1, 3, 5, 8, 8, 12, 12] + ([20, 30] if thorough else [16]))
    nodes = []
    for i in range(nnodes):
        cls = rng.choice([n for n, _ in NODE_CLASSES])
        ns = rng.choice(nss)
        nid = 'n%d' % rng.randrange(max(2, nnodes // 2 + 1))      # ids collide across classes/namespaces on purpose
        if [ns, cls, nid] not in nodes:
            nodes.append([ns, cls, nid])
    anomaly = rng.choice(ANOMALIES)
    links = []
    nlinks = rng.choice([0, 2, 4, 8, 12, 20, 30] + ([40, 60] if thorough else []))
    for _ in range(nlinks):
        a = rng.choice(assocs)
        refs = assoc_refs(assocs, a[0])
        ns = rng.choice(nss)
        ends = {}
        selfnode = None
        for role, rc, iskey in refs:
            cands = [i for i, nd in enumerate(nodes) if nd[1] in node_subtree(rc)]
            if rng.random() < 0.1:
                cands = list(range(len(nodes)))                    # end of a class the declaration does not allow
            local = [i for i in cands if nodes[i][0] == ns]
            if not iskey and rng.random() < 0.3:
                ends[role] = None                                  # NULL end
                continue
            pick = None
            if selfnode is not None and rng.random() < 0.15 and selfnode in cands:
                pick = selfnode                                    # both ends the same object
            elif local and rng.random() < 0.7:
                pick = rng.choice(local)
            elif cands:
                pick = rng.choice(cands)
            if pick is None:
                ends = None
                break
            selfnode = pick if selfnode is None else selfnode
            ends[role] = pick
        if ends is None:
            continue
        mode = 'create'
        if anomaly in ('no_ns', 'host', 'one_sided', 'recased') and rng.random() < 0.4:
            mode = anomaly
        links.append({'cls': a[0], 'ns': ns, 'ends': ends, 'mode': mode, 'seed': rng.randrange(1 << 30)})
    deletions = []
    if anomaly == 'dangling' and nodes:
        deletions = sorted(set(rng.randrange(len(nodes)) for _ in range(rng.randint(1, 3))))
    return {'assocs': assocs, 'nss': nss, 'nodes': nodes, 'links': links, 'anomaly': anomaly,
            'deletions': deletions, 'qseed': rng.randrange(1 << 30),
            'pull': rng.choice([False, None, True])}      # use_pull_operations of the connection (Iter... variants)


# --------------------------------------------------------------------------- building the real repository

def node_path(nd, ns=True, rng=None):
    """path of a node; with `rng`: the namespace is written in another lexical case in 35 % of the calls
    (namespace names are case-insensitive: reference values of write requests must be accepted and
    treated alike however they spell it)"""
    import pywbem
    n = nd[0] if ns else None
    if n is not None and rng is not None and rng.random() < 0.35:
        n = recase(n, rng)
    return pywbem.CIMInstanceName(nd[1], keybindings={'id': nd[2]}, namespace=n)


def build(spec):
    """-> (conn, notes) : the real repository for a spec"""
    import pywbem
    import mockutil
    notes = {}
    conn = mockutil.new_conn(schema_mof(spec['assocs']), spec['nss'], use_pull_operations=spec.get('pull', False))
    for nd in spec['nodes']:
        inst = pywbem.CIMInstance(nd[1], properties={'id': nd[2]})
        try:
            conn.CreateInstance(inst, namespace=nd[0])
        except pywbem.Error:
            notes['node_rejected'] = notes.get('node_rejected', 0) + 1
    for ln in spec['links']:
        refs = assoc_refs(spec['assocs'], ln['cls'])
        lr = random.Random(ln['seed'])
        props = []
        keyb = {}
        mode = ln['mode']
        for role, rc, iskey in refs:
            tgt = ln['ends'].get(role)
            if tgt is None:
                val = None
            else:
                val = node_path(spec['nodes'][tgt])
                if mode == 'no_ns' and lr.random() < 0.6:
                    val.namespace = None
                elif mode == 'host' and lr.random() < 0.6:
                    val.host = conn.host
                elif mode == 'recased':
                    val = pywbem.CIMInstanceName(recase(val.classname, lr), keybindings={recase('id', lr): val.keybindings['id']},
                                                 namespace=recase(val.namespace, lr))
                elif mode == 'dangling_ns':
                    pass
            props.append(pywbem.CIMProperty(role, val, type='reference', reference_class=rc))
            if iskey:
                keyb[role] = val
        if id_keyed(refs):
            props.append(pywbem.CIMProperty('InstanceID', 'L%d' % ln['seed']))
            keyb['InstanceID'] = 'L%d' % ln['seed']
        inst = pywbem.CIMInstance(ln['cls'], properties=props)
        if mode == 'create':
            try:
                conn.CreateInstance(inst, namespace=ln['ns'])
                continue
            except pywbem.CIMError as e:
                notes['create:CIMError%d' % e.status_code] = notes.get('create:CIMError%d' % e.status_code, 0) + 1
                continue
            except AttributeError:
                # CreateInstance with a NULL end (defect counted under C10): load the instance directly
                if all(v is not None for v in ln['ends'].values()):
                    raise
                notes['create_null_end:AttributeError'] = notes.get('create_null_end:AttributeError', 0) + 1
            except Exception as e:  # noqa   (not judged here: C10)
                notes['create:' + type(e).__name__] = notes.get('create:' + type(e).__name__, 0) + 1
                continue
        inst.path = pywbem.CIMInstanceName(ln['cls'], keybindings=keyb, namespace=ln['ns'])
        try:
            conn.add_cimobjects(inst, namespace=ln['ns'])
            notes['loaded:' + mode] = notes.get('loaded:' + mode, 0) + 1
        except ValueError:
            notes['load_duplicate'] = notes.get('load_duplicate', 0) + 1
    if spec['anomaly'] == 'dangling_ns' and spec['nodes'] and spec['assocs']:
        # one association whose second end names a namespace that does not exist
        a = spec['assocs'][0]
        refs = assoc_refs(spec['assocs'], a[0])
        nd = spec['nodes'][0]
        props, keyb = [], {}
        for j, (role, rc, iskey) in enumerate(refs):
            val = node_path(nd)
            if j == 1:
                val.namespace = 'root/zz'
            props.append(pywbem.CIMProperty(role, val, type='reference', reference_class=rc))
            if iskey:
                keyb[role] = val
        if id_keyed(refs):
            props.append(pywbem.CIMProperty('InstanceID', 'dangling_ns'))
            keyb['InstanceID'] = 'dangling_ns'
        inst = pywbem.CIMInstance(a[0], properties=props)
        inst.path = pywbem.CIMInstanceName(a[0], keybindings=keyb, namespace=nd[0])
        try:
            conn.add_cimobjects(inst, namespace=nd[0])
            notes['loaded:dangling_ns'] = 1
        except ValueError:
            pass
    for i in spec['deletions']:
        try:
            conn.DeleteInstance(node_path(spec['nodes'][i]))
            notes['deleted'] = notes.get('deleted', 0) + 1
        except Exception:  # noqa
            pass
    return conn, notes


# --------------------------------------------------------------------------- canonical forms

class Keys:
    """ids for keybinding equivalence classes, decided by the real NocaseDict/CIMInstanceName equality"""

    def __init__(self):
        self.tab = {}

    def kid(self, path):
        import pywbem
        k = pywbem.CIMInstanceName('k', keybindings=path.keybindings)
        return self.tab.setdefault(k, len(self.tab))


def pj(path, keys):
    """a real CIMInstanceName as the model's Path JSON"""
    if path is None:
        return None
    return {'c': path.classname, 'n': path.namespace, 'h': path.host, 'k': keys.kid(path)}


def canon_p(p):
    """canonical (hashable) form of a Path JSON: the normal form under CIMInstanceName equality"""
    return (p['c'].lower(), None if p['n'] is None else p['n'].lower(), None if p['h'] is None else p['h'].lower(), p['k'])


def dump_repo(conn, keys):
    repo = []
    for ns in conn.namespaces:
        cs, is_ = [], []
        for c in conn.cimrepository.get_class_store(ns).iter_values(copy=False):
            cs.append({'name': c.classname, 'super': c.superclass, 'assoc': 'Association' in c.qualifiers,
                       'props': [{'name': p.name, 'ref': p.type == 'reference', 'rc': p.reference_class or ''}
                                 for p in c.properties.values()]})
        for i in conn.cimrepository.get_instance_store(ns).iter_values(copy=False):
            is_.append({'cls': i.classname, 'path': pj(i.path, keys),
                        'props': [{'name': p.name, 'ref': p.type == 'reference',
                                   'v': pj(p.value, keys) if p.type == 'reference' else None}
                                  for p in i.properties.values()]})
        repo.append({'name': ns, 'classes': cs, 'insts': is_})
    return repo


def real_call(conn, req, keys):
    """one traditional operation on the real code -> canonical outcome"""
    import pywbem
    kw = {}
    for k, name in (('ac', 'AssocClass'), ('rc', 'ResultClass'), ('role', 'Role'), ('rrole', 'ResultRole')):
        if req.get(k) is not None:
            if req['op'] in ('RN', 'R') and k in ('ac', 'rrole'):
                continue
            kw[name] = req[k]
    meth = {'RN': 'ReferenceNames', 'R': 'References', 'AN': 'AssociatorNames', 'A': 'Associators'}[req['op']]
    if req['lvl'] == 'c':
        src = pywbem.CIMClassName(req['src'], namespace=req['ns'])
    else:
        src = req['_path'].copy()
        src.namespace = req['ns']
    try:
        res = getattr(conn, meth)(src, **kw)
    except Exception as e:  # noqa
        return common.exc_json(e)
    return {'ok': canon_result(res, req, keys)}


def canon_result(res, req, keys):
    import pywbem
    out = []
    for r in res:
        if req['lvl'] == 'c':
            if isinstance(r, tuple):
                out.append([r[0].classname, r[1].classname, r[0].namespace, r[0].host])
            else:
                out.append([r.classname, r.namespace, r.host])
        else:
            p = r.path if isinstance(r, pywbem.CIMInstance) else r
            out.append(pj(p, keys))
    return out


# --------------------------------------------------------------------------- the oracle (real outputs + raw stores only)

def has_ns(conn, ns):
    return ns is not None and ns.lower() in [n.lower() for n in conn.namespaces]


def class_index(conn, ns):
    return {c.classname.lower(): c for c in conn.cimrepository.get_class_store(ns).iter_values(copy=False)}

def is_sub_or_same(cidx, cls, anc):
    """cls is anc or a descendant of it (walking UP the superclass links; independent of the code's descent)"""
    cur = cls.lower()
    seen = set()
    while cur is not None and cur not in seen:
        if cur == anc.lower():
            return True
        seen.add(cur)
        c = cidx.get(cur)
        cur = c.superclass.lower() if c is not None and c.superclass else None
    return False


def denote(v, store_ns, conn, literal):
    """the object a stored reference value denotes.  semantic reading: a missing namespace means the
    namespace of the containing instance, the server's own host is no information.  literal reading:
    the value as it is."""
    if v is None:
        return None
    if literal:
        return v
    w = v.copy()
    if w.namespace is None:
        w.namespace = store_ns
    if w.host is not None and w.host.lower() == conn.host.lower():
        w.host = None
    return w


def active(f):
    return f is not None and f != ''


def expected_instance_level(conn, req, literal):
    """(expected ReferenceNames set, expected AssociatorNames set) as lists of real paths (host None),
    or None when a class filter or the source class does not exist (then only 'error or empty' is required)"""
    ns = req['ns']
    if not has_ns(conn, ns):
        return None
    cidx = class_index(conn, ns)
    x = req['_path'].copy()
    x.namespace = ns
    x.host = None
    is_assoc_op = req['op'] in ('AN', 'A')
    cls_filters = [req.get('ac'), req.get('rc')] if is_assoc_op else [req.get('rc')]
    if x.classname.lower() not in cidx or any(active(f) and f.lower() not in cidx for f in cls_filters):
        return None
    out = []
    store = conn.cimrepository.get_instance_store(ns)
    for a in store.iter_values(copy=False):
        refs = [(p.name, denote(p.value, ns, conn, literal)) for p in a.properties.values() if p.type == 'reference']
        for pn, pv in refs:
            if pv is None or pv != x:
                continue
            if active(req.get('role')) and pn.lower() != req['role'].lower():
                continue
            if not is_assoc_op:
                if active(req.get('rc')) and not is_sub_or_same(cidx, a.classname, req['rc']):
                    continue
                out.append(a.path)
                continue
            if active(req.get('ac')) and not is_sub_or_same(cidx, a.classname, req['ac']):
                continue
            for qn, qv in refs:
                if qn.lower() == pn.lower() or qv is None or qv == x:
                    continue
                if active(req.get('rrole')) and qn.lower() != req['rrole'].lower():
                    continue
                if active(req.get('rc')) and not is_sub_or_same(cidx, qv.classname, req['rc']):
                    continue
                out.append(qv)
    return out


def norm_real_path(p, conn):
    q = p.copy()
    if q.host is not None and q.host.lower() == conn.host.lower():
        q.host = None
    return q


def pset(paths, keys):
    return set(canon_p(pj(p, keys)) for p in paths)


def anomalies_of(conn, ns, paths, keys):
    """which kinds of non-normalised stored reference values / dangling ends are involved in `paths`
    (paths = symmetric difference between real and expected, or the names the full operation choked on)"""
    kinds = set()
    want = set(paths)
    # results carry the server's host where the stored values have none
    want |= set((c, n, None, k) for c, n, h, k in paths if h == conn.host.lower())
    if not has_ns(conn, ns):
        return kinds
    store = conn.cimrepository.get_instance_store(ns)
    for a in store.iter_values(copy=False):
        vals = [p.value for p in a.properties.values() if p.type == 'reference' and p.value is not None]
        touched = canon_p(pj(a.path, keys)) in want
        for v in vals:
            for lit in (True, False):
                d = denote(v, ns, conn, lit)
                e = d.copy()
                e.host = None
                if canon_p(pj(d, keys)) in want or canon_p(pj(e, keys)) in want:
                    touched = True
        if not touched:
            continue
        for v in vals:
            if v.namespace is None:
                kinds.add('ref_without_namespace')
            if v.host is not None:
                kinds.add('ref_with_host')
    return kinds


def exists_instance(conn, p):
    if not has_ns(conn, p.namespace):
        return False
    q = p.copy()
    q.host = None
    return conn.cimrepository.get_instance_store(p.namespace).object_exists(q)


class Oracle:
    def __init__(self, conn, spec, keys, violate, count, call):
        self.conn, self.spec, self.keys, self.violate, self.count, self.call = conn, spec, keys, violate, count, call

    phase = None
    dropped = ()

    def case(self, req):
        r = {k: v for k, v in req.items() if not k.startswith('_')}
        c = {'spec': self.spec, 'req': r}
        if self.phase is not None:
            c['phase'] = self.phase
        return c

    def check_instance(self, req, names_out, full_out):
        """req: an 'RN' or 'AN' request; names_out/full_out: canonical real outcomes of Names and full op"""
        conn, keys = self.conn, self.keys
        opn = req['op']
        # (1) Names = paths of full
        if 'ok' in names_out and 'ok' in full_out:
            a, b = [canon_p(p) for p in names_out['ok']], [canon_p(p) for p in full_out['ok']]
            if len(set(a)) != len(a) or len(set(b)) != len(b):
                self.violate({'kind': 'duplicate_results', 'op': opn, 'level': 'instance'}, self.case(req),
                             {'names': names_out, 'full': full_out})
            if set(a) != set(b):
                nh = lambda t: (t[0], t[1], None, t[3])     # noqa: E731
                cause = 'paths_differ'
                if set(map(nh, a)) == set(map(nh, b)) and all(t[2] is None for t in b) and \
                        all(t[2] == conn.host.lower() for t in a):
                    cause = 'host_missing_in_full'
                self.violate({'kind': 'names_vs_full', 'op': opn, 'level': 'instance', 'cause': cause},
                             self.case(req), {'names': sorted(map(str, a)), 'full': sorted(map(str, b))})
        elif 'ok' in names_out or 'ok' in full_out:
            cause = 'other'
            if 'ok' in names_out:
                bad = [p for p in names_out['ok']]
                realp = [self._to_path(p) for p in bad]
                an = anomalies_of(conn, req['ns'], set(canon_p(p) for p in bad), keys)
                if an:
                    cause = sorted(an)[0]
                elif any(not exists_instance(conn, p) for p in realp):
                    cause = 'dangling_endpoint'
            self.violate({'kind': 'names_vs_full', 'op': opn, 'level': 'instance', 'cause': cause,
                          'names': names_out.get('exc', 'ok'), 'full': full_out.get('exc', 'ok')},
                         self.case(req), {'names': names_out, 'full': full_out})
        else:
            if names_out != full_out:
                self.violate({'kind': 'names_vs_full', 'op': opn, 'level': 'instance', 'cause': 'errors_differ'},
                             self.case(req), {'names': names_out, 'full': full_out})
        # undocumented exception classes
        for which, o in (('names', names_out), ('full', full_out)):
            if 'exc' in o and o['exc'] != 'CIMError':
                cause = 'other'
                if which == 'full' and 'ok' in names_out:
                    an = anomalies_of(conn, req['ns'], set(canon_p(p) for p in names_out['ok']), keys)
                    realp = [self._to_path(p) for p in names_out['ok']]
                    if an:
                        cause = sorted(an)[0]
                    elif any(not exists_instance(conn, p) for p in realp):
                        cause = 'dangling_endpoint'
                self.violate({'kind': 'undocumented_exception', 'op': opn, 'which': which, 'exc': o['exc'],
                              'level': 'instance', 'cause': cause}, self.case(req), o)
        # (2) characterisation against the raw store
        exp = expected_instance_level(conn, req, literal=False)
        if exp is None:
            if 'ok' in names_out and names_out['ok']:
                self.violate({'kind': 'results_for_nonexistent_class', 'op': opn, 'level': 'instance'},
                             self.case(req), names_out)
            self.count('oracle:nonexistent_class_filter')
            return
        if 'ok' not in names_out:
            self.violate({'kind': 'characterisation', 'op': opn, 'level': 'instance', 'cause': 'error',
                          'exc': names_out.get('exc'), 'code': names_out.get('code')}, self.case(req), names_out)
            return
        got = set(canon_p(pj(norm_real_path(self._to_path(p), conn), keys)) for p in names_out['ok'])
        want = pset(exp, keys)
        if got != want:
            lit = pset([norm_real_path(p, conn) for p in expected_instance_level(conn, req, literal=True)], keys)
            cause = 'other'
            if got == lit:
                an = anomalies_of(conn, req['ns'], got ^ want, keys)
                if an:
                    cause = sorted(an)[0]
            direction = 'extra' if not (want - got) else ('missing' if not (got - want) else 'both')
            self.violate({'kind': 'characterisation', 'op': opn, 'level': 'instance', 'cause': cause,
                          'direction': direction}, self.case(req),
                         {'got': sorted(map(str, got)), 'expected': sorted(map(str, want))})
        self.count('oracle:characterised')
        if want:
            self.count('oracle:characterised_nonempty')

    def _to_path(self, p):
        import pywbem
        # rebuild a real path from the Path JSON (keybindings looked up by id)
        for k, i in self.keys.tab.items():
            if i == p['k']:
                return pywbem.CIMInstanceName(p['c'], keybindings=k.keybindings, namespace=p['n'], host=p['h'])
        raise KeyError(p)

    def check_monotone(self, req, out, parent_req, parent_out, level):
        if 'ok' in out and 'ok' in parent_out:
            if level == 'instance':
                a, b = set(canon_p(p) for p in out['ok']), set(canon_p(p) for p in parent_out['ok'])
            else:
                a, b = set(r[0].lower() for r in out['ok']), set(r[0].lower() for r in parent_out['ok'])
            if not a <= b:
                self.violate({'kind': 'filter_adds_results', 'op': req['op'], 'level': level}, self.case(req),
                             {'with_filter': sorted(map(str, a)), 'without': sorted(map(str, b)),
                              'parent': {k: v for k, v in parent_req.items() if not k.startswith('_')}})
            self.count('oracle:monotone_pairs')

    def check_case(self, req, out, req2, out2, level):
        """recasing names in the request does not change the outcome"""
        def norm(o):
            if 'ok' not in o:
                return o
            if level == 'instance':
                return sorted(map(str, set(canon_p(p) for p in o['ok'])))
            return sorted(set(r[0].lower() for r in o['ok']))
        if norm(out) != norm(out2):
            self.violate({'kind': 'case_sensitive', 'op': req['op'], 'level': level}, self.case(req),
                         {'original': norm(out), 'recased': norm(out2),
                          'recased_req': {k: v for k, v in req2.items() if not k.startswith('_')}})
        self.count('oracle:case_pairs')

    def check_class(self, req, names_out, full_out):
        opn = req['op']
        if 'ok' in names_out and 'ok' in full_out:
            a = sorted(r[0].lower() for r in names_out['ok'])
            b = sorted(r[0].lower() for r in full_out['ok'])
            if a != b:
                self.violate({'kind': 'names_vs_full', 'op': opn, 'level': 'class', 'cause': 'names_differ'},
                             self.case(req), {'names': a, 'full': b})
            for r in full_out['ok']:
                if r[0].lower() != r[1].lower():
                    self.violate({'kind': 'names_vs_full', 'op': opn, 'level': 'class', 'cause': 'tuple_mismatch'},
                                 self.case(req), r)
            for r in names_out['ok']:
                if (r[1] or '').lower() != req['ns'].lower() or r[2] != self.conn.host:
                    self.violate({'kind': 'class_path_wrong', 'op': opn, 'level': 'class'}, self.case(req), r)
            for r in full_out['ok']:
                if (r[2] or '').lower() != req['ns'].lower() or r[3] != self.conn.host:
                    self.violate({'kind': 'class_path_wrong', 'op': opn, 'level': 'class'}, self.case(req), r)
        elif names_out != full_out:
            self.violate({'kind': 'names_vs_full', 'op': opn, 'level': 'class', 'cause': 'outcomes_differ',
                          'names': names_out.get('exc', 'ok'), 'full': full_out.get('exc', 'ok')},
                         self.case(req), {'names': names_out, 'full': full_out})
        for o in (names_out, full_out):
            if 'exc' in o and o['exc'] != 'CIMError':
                self.violate({'kind': 'undocumented_exception', 'op': opn, 'exc': o['exc'], 'level': 'class'},
                             self.case(req), o)

    def check_symmetry(self, req, out, results):
        """y in AN(x; ac, role=r, rrole=rr)  <=>  x in AN(y; ac, role=rr, rrole=r)   (ResultClass unused)"""
        import pywbem
        conn, keys = self.conn, self.keys
        if 'ok' not in out:
            return
        x = req['_path'].copy()
        x.namespace = req['ns']
        x.host = None
        xk = canon_p(pj(x, keys))
        for p in out['ok']:
            y = norm_real_path(self._to_path(p), conn)
            if y.namespace is None or y.host is not None:
                continue            # non-normalised end: reported by the characterisation check
            if not has_ns(conn, y.namespace):
                self.count('oracle:symmetry_skipped_foreign_namespace')
                continue
            if self.loaded and y.namespace.lower() != req['ns'].lower() and \
                    not self._shadowed(req['ns'], y.namespace, x, y):
                # only repositories into which instances were loaded with add_cimobjects can legitimately hold a
                # cross-namespace association in one namespace only; CreateInstance must write both copies
                self.count('oracle:symmetry_skipped_one_sided')
                continue
            r2 = {'op': 'AN', 'lvl': 'i', 'ns': y.namespace, '_path': y, 'src': src_uri(y, y.namespace),
                  'ac': req.get('ac'), 'rc': None, 'role': req.get('rrole'), 'rrole': req.get('role')}
            o2 = self.call(r2)
            self.count('oracle:symmetry_pairs')
            if 'ok' not in o2 or xk not in set(canon_p(pj(norm_real_path(self._to_path(q), conn), keys)) for q in o2['ok']):
                an = anomalies_of(conn, y.namespace, {xk, canon_p(pj(y, keys))}, keys) | \
                    anomalies_of(conn, req['ns'], {xk, canon_p(pj(y, keys))}, keys)
                cause = sorted(an)[0] if an else self._shadow_diagnosis(req['ns'], y.namespace, x, y)
                self.violate({'kind': 'asymmetric', 'op': 'AN', 'level': 'instance',
                              'cause': cause}, self.case(req),
                             {'y': str(y), 'reverse': o2})

    def _shadow_diagnosis(self, ns1, ns2, x, y):
        """why is y an associator of x in ns1 but x none of y in ns2?  Looks at the raw stores:
        'shadow_missing'  - an instance of ns1 linking x and y has no copy in ns2
        'stale_copy_in_dropped_namespace' - it has a copy in ns2 with other ends, and that copy names no object
                            of ns1 any more (the instance was re-pointed away from ns1, its ns1 copy stayed)
        'shadow_differs'  - it has a copy in ns2 with other ends that still names ns1
        'other'           - none of these"""
        conn = self.conn
        if not has_ns(conn, ns2) or ns1.lower() == ns2.lower():
            return 'other'
        s2 = conn.cimrepository.get_instance_store(ns2)
        found = 'other'
        for a in conn.cimrepository.get_instance_store(ns1).iter_values(copy=False):
            vals = [p.value for p in a.properties.values() if p.type == 'reference' and p.value is not None]
            if not (any(v == x for v in vals) and any(v == y for v in vals)):
                continue
            # input class: this instance was re-pointed away from ns1 by an earlier ModifyInstance of the history
            for dp, dns in self.dropped:
                d1 = dp.copy()
                d1.namespace = ns1
                if ns1.lower() in dns and d1 == a.path:
                    return 'stale_copy_in_dropped_namespace'
            q = a.path.copy()
            q.namespace = ns2
            if not s2.object_exists(q):
                return 'shadow_missing'
            b = s2.get(q, copy=False)
            bvals = [p.value for p in b.properties.values() if p.type == 'reference' and p.value is not None]
            if sorted(str(v).lower() for v in vals) != sorted(str(v).lower() for v in bvals):
                if not any(v.namespace is not None and v.namespace.lower() == ns1.lower() for v in bvals):
                    found = 'stale_copy_in_dropped_namespace'
                else:
                    return 'shadow_differs'
        return found

    def _shadowed(self, ns1, ns2, x, y):
        """every association instance stored in ns1 that links x and y is also stored in ns2"""
        conn = self.conn
        s2 = conn.cimrepository.get_instance_store(ns2)
        for a in conn.cimrepository.get_instance_store(ns1).iter_values(copy=False):
            vals = [denote(p.value, ns1, conn, False) for p in a.properties.values()
                    if p.type == 'reference' and p.value is not None]
            if any(v == x for v in vals) and any(v == y for v in vals):
                q = a.path.copy()
                q.namespace = ns2
                if not s2.object_exists(q):
                    return False
                b = s2.get(q, copy=False)        # same key is not enough: the copy must have the same ends
                ra = sorted((p.name.lower(), str(p.value).lower()) for p in a.properties.values() if p.type == 'reference')
                rb = sorted((p.name.lower(), str(p.value).lower()) for p in b.properties.values() if p.type == 'reference')
                if ra != rb:
                    return False
        return True


# --------------------------------------------------------------------------- requests for one repository

def filter_values(rng, existing, nonexist):
    """None / '' / existing / recased existing / non-existing"""
    r = rng.random()
    if r < 0.36:
        return None
    if r < 0.40:
        return ''
    if not existing:
        return nonexist if r < 0.7 else None
    if r < 0.64:
        return rng.choice(existing)
    if r < 0.88:
        return recase(rng.choice(existing), rng)
    return nonexist


def ancestors(conn, ns, cls):
    """cls and its superclasses as stored (names as spelled in the class store)"""
    cidx = class_index(conn, ns)
    out, cur, seen = [], cls.lower(), set()
    while cur is not None and cur in cidx and cur not in seen:
        seen.add(cur)
        out.append(cidx[cur].classname)
        cur = cidx[cur].superclass.lower() if cidx[cur].superclass else None
    return out or [cls]


def relevant_filter(conn, ns, x, rng):
    """a filter tuple derived from a stored association instance that references x (so that the result is
    usually non-empty with several filters active), each component then kept / dropped / recased"""
    if not has_ns(conn, ns):
        return None
    y = x.copy()
    y.namespace = ns
    y.host = None
    hits = []
    for a in conn.cimrepository.get_instance_store(ns).iter_values(copy=False):
        refs = [(p.name, p.value) for p in a.properties.values() if p.type == 'reference' and p.value is not None]
        for pn, pv in refs:
            if pv == y:
                others = [(qn, qv) for qn, qv in refs if qn != pn]
                hits.append((a, pn, others))
    if not hits:
        return None
    a, pn, others = rng.choice(hits)
    f = {'ac': rng.choice(ancestors(conn, ns, a.classname)), 'role': pn, 'rc': None, 'rrole': None}
    if others:
        qn, qv = rng.choice(others)
        f['rrole'] = qn
        f['rc'] = rng.choice(ancestors(conn, ns, qv.classname))
    for k in f:
        r = rng.random()
        if f[k] is None:
            continue
        if r < 0.25:
            f[k] = None
        elif r < 0.50:
            f[k] = recase(f[k], rng)
    return f


def gen_requests(spec, conn, rng, thorough):
    """list of request groups; each group = dict(base=req(AN/RN), …) evaluated by run_repo"""
    import pywbem
    assoc_names = [a[0] for a in spec['assocs']]
    node_names = [n for n, _ in NODE_CLASSES]
    roles = sorted(set(r for a in spec['assocs'] for r, _, _ in a[2]))
    sources = []
    for ns in spec['nss']:
        for i in conn.cimrepository.get_instance_store(ns).iter_values(copy=False):
            sources.append((ns, i.path.copy()))
    # near-miss sources: deleted / never existing / recased / superclass-named
    for nd in spec['nodes'][:3]:
        p = node_path(nd)
        sources.append((nd[0], pywbem.CIMInstanceName(recase(p.classname, rng), keybindings={'ID': nd[2]}, namespace=None)))
        sources.append((nd[0], pywbem.CIMInstanceName('C13_Node', keybindings={'id': nd[2]}, namespace=None)))
    sources.append((spec['nss'][0], pywbem.CIMInstanceName('C13_Node', keybindings={'id': 'nope'})))
    sources.append((spec['nss'][0], pywbem.CIMInstanceName('C13_Nope', keybindings={'id': 'n0'})))
    sources.append(('root/nonexistent', pywbem.CIMInstanceName('C13_Node', keybindings={'id': 'n0'})))
    if len(spec['nss']) > 1:
        sources.append((recase(spec['nss'][1], rng), node_path(spec['nodes'][0])))
    per_src = 6 if not thorough else 10
    if len(sources) > 40:
        per_src = max(2, per_src * 40 // len(sources))
    groups = []
    for ns, p in sources:
        for t in range(per_src):
            f = None
            if t == 0:
                f = {'ac': None, 'rc': None, 'role': None, 'rrole': None}
            elif t % 2 == 1:
                f = relevant_filter(conn, ns, p, rng)
            if f is None:
                f = {'ac': filter_values(rng, assoc_names, 'C13_NoAssoc'),
                     'rc': filter_values(rng, node_names, 'C13_NoNode'),
                     'role': filter_values(rng, roles, 'norole'),
                     'rrole': filter_values(rng, roles, 'norole')}
            groups.append({'lvl': 'i', 'ns': ns, '_path': p, 'f': f,
                           'rf': {'rc': filter_values(rng, assoc_names, 'C13_NoAssoc') if t else None,
                                  'role': f['role']}})
    class_sources = node_names + assoc_names + [recase(n, rng) for n in node_names[:3]] + ['C13_Nope']
    for cn in class_sources:
        for t in range(3 if not thorough else 6):
            ns = rng.choice(spec['nss'])
            if t == 0:
                f = {'ac': None, 'rc': None, 'role': None, 'rrole': None}
            else:
                f = {'ac': filter_values(rng, assoc_names, 'C13_NoAssoc'),
                     'rc': filter_values(rng, node_names, 'C13_NoNode'),
                     'role': filter_values(rng, roles, 'norole'),
                     'rrole': filter_values(rng, roles, 'norole')}
            groups.append({'lvl': 'c', 'ns': ns, 'src': cn, 'f': f,
                           'rf': {'rc': filter_values(rng, assoc_names, 'C13_NoAssoc') if t else None,
                                  'role': f['role']}})
    return groups


def src_uri(path, ns):
    q = path.copy()
    q.namespace = ns
    q.host = None
    return q.to_wbem_uri()


def mkreq(g, op, f):
    r = {'op': op, 'lvl': g['lvl'], 'ns': g['ns'], 'ac': f.get('ac'), 'rc': f.get('rc'), 'role': f.get('role'),
         'rrole': f.get('rrole')}
    if g['lvl'] == 'c':
        r['src'] = g['src']
    else:
        r['_path'] = g['_path']
        r['src'] = src_uri(g['_path'], g['ns'])
    return r


def recase_req(req, rng):
    import pywbem
    r = dict(req)
    for k in ('ac', 'rc', 'role', 'rrole'):
        if r.get(k):
            r[k] = recase(r[k], rng)
    if r['lvl'] == 'c':
        r['src'] = recase(r['src'], rng)
    else:
        p = r['_path']
        r['_path'] = pywbem.CIMInstanceName(recase(p.classname, rng), keybindings=p.keybindings, namespace=p.namespace)
        r['src'] = src_uri(r['_path'], r['ns'])
    return r


def pull_variants(conn, req, keys, rng):
    """the Open…/Iter… variants of an instance-level request -> {variant: canonical outcome}"""
    import pywbem
    kw = {}
    for k, name in (('ac', 'AssocClass'), ('rc', 'ResultClass'), ('role', 'Role'), ('rrole', 'ResultRole')):
        if req.get(k) is not None and not (req['op'] in ('RN', 'R') and k in ('ac', 'rrole')):
            kw[name] = req[k]
    src = req['_path'].copy()
    src.namespace = req['ns']
    names = {'RN': ('OpenReferenceInstancePaths', 'PullInstancePaths', 'IterReferenceInstancePaths', 'paths'),
             'R': ('OpenReferenceInstances', 'PullInstancesWithPath', 'IterReferenceInstances', 'instances'),
             'AN': ('OpenAssociatorInstancePaths', 'PullInstancePaths', 'IterAssociatorInstancePaths', 'paths'),
             'A': ('OpenAssociatorInstances', 'PullInstancesWithPath', 'IterAssociatorInstances', 'instances')}[req['op']]
    out = {}
    try:
        mx = rng.choice([None, 1, 2, 100])
        r = getattr(conn, names[0])(src, MaxObjectCount=mx, **kw) if mx is not None else getattr(conn, names[0])(src, **kw)
        objs = list(getattr(r, names[3]))
        while not r.eos:
            r = getattr(conn, names[1])(r.context, rng.choice([1, 3, 100]))
            objs += list(getattr(r, names[3]))
        out['open'] = {'ok': canon_result(objs, req, keys)}
    except Exception as e:  # noqa
        out['open'] = common.exc_json(e)
    try:
        out['iter'] = {'ok': canon_result(list(getattr(conn, names[2])(src, **kw)), req, keys)}
    except Exception as e:  # noqa
        out['iter'] = common.exc_json(e)
    return out


def model_req(req):
    r = {k: v for k, v in req.items() if not k.startswith('_')}
    return r


def run_repo(spec, only_req=None):
    """worker: build the repository, run all requests on the real code, evaluate the oracle.
    -> dict(line=model request line, real=[canonical outcomes], viol=[(sig, case, observed)], counts, ncases)"""
    import pywbem
    rng = random.Random(spec['qseed'])
    conn, notes = build(spec)
    conn_pull = conn
    keys = Keys()
    viol, counts = [], {}

    def violate(sig, case, observed):
        viol.append((sig, case, observed))

    def count(k, n=1):
        counts[k] = counts.get(k, 0) + n
    for k, v in notes.items():
        count('build:' + k, v)
    count('anomaly:%s' % spec['anomaly'])
    count('use_pull_operations:%s' % spec.get('pull', False))
    reqs, reals, cases = [], [], []

    def do(req):
        o = real_call(conn, req, keys)
        reqs.append(req)
        reals.append(o)
        return o
    orc = Oracle(conn, spec, keys, violate, count, do)
    orc.loaded = any(k.startswith('loaded:') for k in notes)
    thorough = spec.get('thorough', False)
    lines = []
    start = [0]

    def flush():
        """model request line for the requests made since the last flush, with the stores as they are NOW"""
        line = {'host': conn.host, 'repo': dump_repo(conn, keys), 'reqs': []}
        for rq in reqs[start[0]:]:
            m = model_req(rq)
            if rq['lvl'] == 'i':
                m['src'] = pj(rq['_path'], keys)
                m['uri'] = rq['src']
            line['reqs'].append(m)
        lines.append((line, reals[start[0]:]))
        start[0] = len(reqs)

    def process(groups):
      for g in groups:
          lvl = 'instance' if g['lvl'] == 'i' else 'class'
          if 'f' not in g:      # replay of a single request
              base = dict(g)
              is_assoc = base['op'] in ('AN', 'A')
              g = {'lvl': base['lvl'], 'ns': base['ns'], 'f': {k: base.get(k) for k in ('ac', 'rc', 'role', 'rrole')},
                   'rf': {'rc': base.get('rc'), 'role': base.get('role')}, 'only': 'A' if is_assoc else 'R'}
              if lvl == 'instance':
                  g['_path'] = pywbem.CIMInstanceName.from_wbem_uri(base['src'])
              else:
                  g['src'] = base['src']
          for names_op, full_op, f in (('AN', 'A', g['f']), ('RN', 'R', g['rf'])):
              if g.get('only') and g['only'] != full_op:
                  continue
              rq_n, rq_f = mkreq(g, names_op, f), mkreq(g, full_op, f)
              o_n, o_f = do(rq_n), do(rq_f)
              count('op:%s:%s:%s' % (lvl, names_op, o_n.get('exc', 'ok') + str(o_n.get('code', ''))))
              nonempty = 'ok' in o_n and bool(o_n['ok'])
              cases.append((case_id(rq_n), nonempty))
              if nonempty:
                  count('nonempty:%s:%s' % (lvl, names_op))
              nact = sum(1 for k in ('ac', 'rc', 'role', 'rrole') if active(f.get(k)))
              count('filters_active:%d' % nact)
              if lvl == 'instance':
                  orc.check_instance(rq_n, o_n, o_f)
              else:
                  orc.check_class(rq_n, o_n, o_f)
              # monotonicity: drop each active filter in turn
              for k in ('ac', 'rc', 'role', 'rrole'):
                  if active(f.get(k)) and not g.get('light'):
                      f2 = dict(f)
                      f2[k] = None
                      rq_p = mkreq(g, names_op, f2)
                      o_p = do(rq_p)
                      orc.check_monotone(rq_n, o_n, rq_p, o_p, lvl)
              # case-insensitivity
              if rng.random() < 0.5 and not g.get('light'):
                  rq_c = recase_req(rq_n, rng)
                  o_c = do(rq_c)
                  orc.check_case(rq_n, o_n, rq_c, o_c, lvl)
              # symmetry (ResultClass left out: it filters the far end only)
              if lvl == 'instance' and names_op == 'AN' and not active(f.get('rc')):
                  orc.check_symmetry(rq_n, o_n, None)
              # Open.../Iter... variants
              if lvl == 'instance' and (rng.random() < (0.08 if 'history' in spec else 0.3) or g.get('only')):
                  for rq, o in ((rq_n, o_n), (rq_f, o_f)):
                      for var, ov in pull_variants(conn_pull, rq, keys, rng).items():
                          count('variant:%s' % var)
                          a = sorted(map(str, (canon_p(p) for p in o['ok']))) if 'ok' in o else o
                          b = sorted(map(str, (canon_p(p) for p in ov['ok']))) if 'ok' in ov else ov
                          if a != b:
                              violate({'kind': 'variant_differs', 'op': rq['op'], 'variant': var, 'level': 'instance'},
                                      orc.case(rq), {'traditional': a, 'variant': b})
    if only_req is not None and 'history' not in spec:
        process([only_req])
        flush()
    elif 'history' not in spec:
        process(gen_requests(spec, conn, rng, thorough))
        flush()
    else:
        # a history on ONE connection: queries, repository growth through every entry point, the same queries again
        count('history:repositories')
        state = HistoryState(spec)
        orc.dropped = state.dropped
        asked = history_queries(spec, conn, rng, state, first=True)
        orc.phase = 0
        process(asked)
        flush()
        for k, steps in enumerate(spec['history']):
            for st in steps:
                apply_step(conn, spec, state, st, count)
            orc.phase = k + 1
            fresh = history_queries(spec, conn, rng, state, first=False)
            # earlier queries are asked again, verbatim ('light': without their monotonicity / recasing companions)
            process([dict(g, light=True) for g in asked] + fresh)
            asked = asked + fresh
            flush()
    return {'line': lines[0][0], 'real': lines[0][1], 'lines': lines, 'viol': viol, 'counts': counts, 'cases': cases}


# --------------------------------------------------------------------------- histories (growth between queries)

ENTRY_POINTS = ['CreateClass', 'add_cimobjects', 'mof']


def gen_history_spec(rng, thorough):
    """a repository without anomalies + 2-3 phases of growth steps.  Steps:
      ['class', via, name, super, is_assoc]      new subclass through CreateClass / add_cimobjects / compile_mof_string
      ['node', ns, cls, id]                      CreateInstance of a node
      ['link', cls, ns, {role: node index}]      CreateInstance of an association instance
      ['modify', k, {role: node index}, mode]   ModifyInstance of the k-th association instance created by the history:
                                                 re-point non-key ends; mode 'pl' = only these properties + PropertyList,
                                                 'partial' = only these properties, no PropertyList, 'full' = all properties
      ['del_link', k]                            DeleteInstance of the k-th association instance created by the history
      ['del_class', name, ns|None]               DeleteClass of an association class (with subclasses and instances) in one
                                                 namespace or (None) in all"""
    for _ in range(50):
        spec = gen_spec(rng, thorough, idkeyed=0.5)
        if 3 <= len(spec['nodes']) <= 10 and 2 <= len(spec['links']) <= 12:
            break
    spec['anomaly'] = None
    spec['deletions'] = []
    for ln in spec['links']:
        ln['mode'] = 'create'
    node_classes = list(NODE_CLASSES)
    assocs = [list(a) for a in spec['assocs']]
    nodes = [list(n) for n in spec['nodes']]
    new_assoc, nlinks, history = [], 0, []
    glinks = []          # [cls, ns, ends] of the links created by the history, as they should be now
    for ph in range(rng.choice([2, 2, 3])):
        steps = []
        for _ in range(rng.choice([1, 2, 2, 3])):
            via = rng.choice(ENTRY_POINTS)
            name = 'C13_New%d_%d' % (ph, len(steps))
            if rng.random() < 0.5:
                sup = rng.choice(assocs)[0]
                assocs.append([name, sup, []])
                new_assoc.append(name)
                steps.append(['class', via, name, sup if rng.random() < 0.8 else recase(sup, rng), True])
            else:
                sup = rng.choice(node_classes)[0]
                node_classes.append((name, sup))
                steps.append(['class', via, name, sup if rng.random() < 0.8 else recase(sup, rng), False])
        for _ in range(rng.choice([1, 2, 3])):
            cls = node_classes[-1][0] if rng.random() < 0.6 else rng.choice(node_classes)[0]
            nd = [rng.choice(spec['nss']), cls, 'h%d' % len(nodes)]
            nodes.append(nd)
            steps.append(['node'] + nd)
        for _ in range(rng.choice([2, 3, 4, 6])):
            a = assocs[-1] if (new_assoc and assocs[-1][0] in new_assoc and rng.random() < 0.5) else rng.choice(assocs)
            refs = assoc_refs(assocs, a[0])
            ns = rng.choice(spec['nss'])
            ends = {}
            for role, rc, iskey in refs:
                cands = [i for i, nd in enumerate(nodes) if nd[1] in node_subtree(rc, node_classes)]
                newer = [i for i in cands if i >= len(spec['nodes'])]
                local = [i for i in cands if nodes[i][0] == ns]
                if not cands:
                    ends = None
                    break
                r = rng.random()
                ends[role] = rng.choice(newer) if (newer and r < 0.45) else \
                    (rng.choice(local) if (local and r < 0.85) else rng.choice(cands))
            if ends:
                steps.append(['link', a[0], ns, ends])
                glinks.append([a[0], ns, dict(ends)])
                nlinks += 1
        # ModifyInstance: re-point non-key ends, mostly ONE end that stays in / comes into the namespace of the request
        for _ in range(rng.choice([0, 1, 2, 3])):
            alive = set(a_[0] for a_ in assocs)
            cand = [k for k, (cls, ns, ends) in enumerate(glinks)
                    if cls in alive and any(not iskey for _, _, iskey in assoc_refs(assocs, cls))]
            if not cand:
                break
            cross = [k for k in cand if any(nodes[i][0] != glinks[k][1] for i in glinks[k][2].values())]
            k = rng.choice(cross) if (cross and rng.random() < 0.7) else rng.choice(cand)
            cls, ns, ends = glinks[k]
            nonkey = [(role, rc) for role, rc, iskey in assoc_refs(assocs, cls) if not iskey]
            rng.shuffle(nonkey)
            change = {}
            for role, rc in nonkey[:1 if rng.random() < 0.7 else 2]:
                cands = [i for i, nd in enumerate(nodes) if nd[1] in node_subtree(rc, node_classes) and i != ends[role]]
                local = [i for i in cands if nodes[i][0] == ns]
                if local and rng.random() < 0.75:
                    change[role] = rng.choice(local)
                elif cands:
                    change[role] = rng.choice(cands)
            if change:
                steps.append(['modify', k, change, rng.choice(['pl', 'pl', 'partial', 'full'])])
                ends.update(change)
        if nlinks and rng.random() < 0.4:
            steps.append(['del_link', rng.randrange(nlinks)])
        if len(assocs) > 1 and rng.random() < 0.3:
            victim = rng.choice(assocs)[0]
            gone = [victim.lower()]
            changed = True
            while changed:                      # the subtree goes with it
                changed = False
                for b in assocs:
                    if b[1] and b[1].lower() in gone and b[0].lower() not in gone:
                        gone.append(b[0].lower())
                        changed = True
            if len(gone) < len(assocs):
                # DeleteClass in ONE namespace (its cross-namespace instances must disappear everywhere) or in all
                steps.append(['del_class', victim, rng.choice(spec['nss']) if rng.random() < 0.7 else None])
                new_assoc[:] = [n for n in new_assoc if n.lower() not in gone]
                assocs[:] = [b for b in assocs if b[0].lower() not in gone]
        history.append(steps)
    spec['history'] = history
    return spec


class HistoryState:
    def __init__(self, spec):
        self.nodes = [list(n) for n in spec['nodes']]
        self.assocs = [list(a) for a in spec['assocs']]
        self.link_paths = []
        self.link_info = []      # [cls, ns, ends] per history link
        self.dropped = []        # (link path, namespaces dropped by a ModifyInstance) - input class for signatures
        self.new_nodes = []


def apply_step(conn, spec, state, st, count):
    """one growth step on the real connection; failures of the step itself are counted, not judged"""
    import pywbem
    kind = st[0]
    try:
        if kind == 'class':
            _, via, name, sup, is_assoc = st
            if is_assoc:
                state.assocs.append([name, sup, []])
            for ns in spec['nss']:
                if via == 'mof':
                    conn.compile_mof_string('%sclass %s : %s { };' % ('[Association] ' if is_assoc else '', name, sup),
                                            namespace=ns)
                else:
                    c = pywbem.CIMClass(name, superclass=sup,
                                        qualifiers=[pywbem.CIMQualifier('Association', True)] if is_assoc else [])
                    if via == 'CreateClass':
                        conn.CreateClass(c, namespace=ns)
                    else:
                        conn.add_cimobjects(c, namespace=ns)
            count('history:class:' + via)
        elif kind == 'node':
            _, ns, cls, nid = st
            state.nodes.append([ns, cls, nid])
            state.new_nodes.append([ns, cls, nid])
            conn.CreateInstance(pywbem.CIMInstance(cls, properties={'id': nid}), namespace=ns)
            count('history:node')
        elif kind == 'link':
            _, cls, ns, ends = st
            refs = assoc_refs(state.assocs, cls)
            lr = random.Random(len(state.link_paths) * 7 + 1)
            props = [pywbem.CIMProperty(role, node_path(state.nodes[ends[role]], rng=lr), type='reference',
                                        reference_class=rc) for role, rc, iskey in refs]
            if id_keyed(refs):
                props.append(pywbem.CIMProperty('InstanceID', 'h%d' % len(state.link_paths)))
            state.link_paths.append(None)
            state.link_info.append([cls, ns, dict(ends)])
            state.link_paths[-1] = conn.CreateInstance(pywbem.CIMInstance(cls, properties=props), namespace=ns)
            count('history:link')
        elif kind == 'modify':
            _, k, change, mode = st
            p = state.link_paths[k] if k < len(state.link_paths) else None
            if p is not None:
                cls, ns, ends = state.link_info[k]
                refs = assoc_refs(state.assocs, cls)
                rcs = {role: rc for role, rc, _ in refs}
                # the ends before and after are sources of the next query phase, in their own namespaces
                for role in change:
                    for i in (ends.get(role), change[role]):
                        if i is not None and state.nodes[i] not in state.new_nodes:
                            state.new_nodes.append(state.nodes[i])
                for i in ends.values():
                    if i is not None and state.nodes[i] not in state.new_nodes:
                        state.new_nodes.append(state.nodes[i])
                lr = random.Random(k * 13 + len(change) + 5)
                newprops = [pywbem.CIMProperty(role, node_path(state.nodes[i], rng=lr), type='reference',
                                               reference_class=rcs[role]) for role, i in change.items()]
                if mode == 'full':
                    inst = conn.GetInstance(p)
                    for np_ in newprops:
                        inst.properties[np_.name] = np_
                    inst.path = p
                    conn.ModifyInstance(inst)
                else:
                    inst = pywbem.CIMInstance(cls, properties=newprops, path=p)
                    if mode == 'pl':
                        conn.ModifyInstance(inst, PropertyList=[np_.name for np_ in newprops])
                    else:
                        conn.ModifyInstance(inst)
                before = set(state.nodes[i][0].lower() for i in ends.values() if i is not None)
                ends.update(change)
                after = set(state.nodes[i][0].lower() for i in ends.values() if i is not None) | {ns.lower()}
                if before - after:
                    state.dropped.append((p.copy(), before - after))
                    count('history:modify_drops_namespace')
                count('history:modify:' + mode)
        elif kind == 'del_link':
            p = state.link_paths[st[1]] if st[1] < len(state.link_paths) else None
            if p is not None:
                conn.DeleteInstance(p)
                state.link_paths[st[1]] = None
                count('history:del_link')
        elif kind == 'del_class':
            gone = [st[1].lower()]
            changed = True
            while changed:
                changed = False
                for b in state.assocs:
                    if b[1] and b[1].lower() in gone and b[0].lower() not in gone:
                        gone.append(b[0].lower())
                        changed = True
            # the ends of the instances that (should) disappear are sources of the next query phase
            for info in state.link_info:
                if info[0].lower() in gone:
                    for i in info[2].values():
                        if i is not None and state.nodes[i] not in state.new_nodes:
                            state.new_nodes.append(state.nodes[i])
            state.assocs[:] = [b for b in state.assocs if b[0].lower() not in gone]
            for ns in ([st[2]] if len(st) > 2 and st[2] else spec['nss']):
                conn.DeleteClass(st[1], namespace=ns)
            count('history:del_class:%s' % ('one_namespace' if len(st) > 2 and st[2] else 'all'))
    except Exception as e:  # noqa   (the step itself is not judged here: C10/C11/C12; a corrupted store shows in the queries)
        count('history:step_failed:%s:%s' % (kind, type(e).__name__))


def history_queries(spec, conn, rng, state, first):
    """request groups of one phase: sources that are referenced by some stored association (first phase) or the
    nodes the last growth steps added, with filter tuples that have the class filters active (ancestor names of
    what is stored now, so that later subclasses fall under them); plus class-level requests"""
    import pywbem
    groups = []
    if first:
        srcs = []
        for ns in spec['nss']:
            for i in conn.cimrepository.get_instance_store(ns).iter_values(copy=False):
                if not any(p.type == 'reference' for p in i.properties.values()):
                    srcs.append((ns, i.path.copy()))
        rng.shuffle(srcs)
        srcs = srcs[:8]
    else:
        srcs = [(nd[0], node_path(nd)) for nd in state.new_nodes]
        state.new_nodes = []
    assoc_names = [a[0] for a in state.assocs]
    roots = [a[0] for a in spec['assocs'] if not a[1]]
    for ns, p in srcs:
        fs = [{'ac': None, 'rc': None, 'role': None, 'rrole': None}]
        for _ in range(2):
            f = relevant_filter(conn, ns, p, rng)
            if f is not None:
                fs.append(f)
        # class filters that name the top of a hierarchy: everything added below later must be found
        fs.append({'ac': rng.choice(roots) if roots else None, 'rc': rng.choice(['C13_Node', 'C13_Other', 'c13_node']),
                   'role': None, 'rrole': None})
        fs.append({'ac': rng.choice(assoc_names), 'rc': None, 'role': None, 'rrole': None})
        fs.append({'ac': None, 'rc': rng.choice([n for n, _ in NODE_CLASSES]), 'role': None, 'rrole': None})
        for f in fs:
            groups.append({'lvl': 'i', 'ns': ns, '_path': p, 'f': f,
                           'rf': {'rc': f['ac'], 'role': f['role']}})
    if first:
        for cn in [n for n, _ in NODE_CLASSES] + roots:
            groups.append({'lvl': 'c', 'ns': rng.choice(spec['nss']), 'src': cn,
                           'f': {'ac': rng.choice(roots + [None]) if roots else None, 'rc': None, 'role': None, 'rrole': None},
                           'rf': {'rc': rng.choice(roots + [None]) if roots else None, 'role': None}})
    return groups


def case_id(req):
    return {k: v for k, v in req.items() if not k.startswith('_')}


def canon_model_out(o, req):
    if 'ok' not in o:
        return o
    if req['lvl'] == 'c':
        return {'ok': sorted(set(x.lower() if isinstance(x, str) else x[0].lower() for x in o['ok']))}
    return {'ok': sorted(map(str, (canon_p(p) for p in o['ok'])))}       # with multiplicity (model: dedupPaths)


def canon_real_out(o, req):
    if 'ok' not in o:
        return o
    if req['lvl'] == 'c':
        return {'ok': sorted(set(x[0].lower() for x in o['ok']))}
    return {'ok': sorted(map(str, (canon_p(p) for p in o['ok'])))}


def _work(spec):
    try:
        return run_repo(spec)
    except Exception as e:  # noqa
        import traceback
        return {'crash': traceback.format_exc()[-1500:], 'spec': spec}


def run(run):
    rng = run.rng
    n = 150 if run.thorough else 50
    run.rule = ('seeded random repositories: 5 node classes in 2 hierarchies, 1-4 random binary/ternary association '
                'classes (random roles incl. recased, REF classes incl. recased, optional non-key ends) with 0-2 '
                'subclasses each, 1-3 namespaces, up to 16 (thorough 30) nodes with colliding ids, up to 20 (40) '
                'association instances created through CreateInstance (self-associations, cross-namespace ends, NULL ends, '
                'ends outside the declared class) plus one anomaly kind per repository loaded with add_cimobjects or '
                'produced by DeleteInstance (reference without namespace / with host / recased / dangling end / unknown '
                'namespace / one-sided cross-namespace); every stored instance and near-miss paths as source x sampled '
                'tuples of the four filters from {None, "", existing, recased, non-existing}, half of them derived from a '
                'stored association instance that references the source (then kept / dropped / recased per component); every class and near-miss '
                'names at class level; each tuple also with each active filter removed (monotonicity), recased '
                '(case-insensitivity), reversed (symmetry) and through the Open/Pull and Iter variants (connections with use_pull_operations False / None / True); a case = one '
                '(repository, source, operation pair, filter tuple); non-trivial = non-empty result.  Second stream: '
                'histories on ONE connection - a query set with active class filters (ancestor names), then 2-3 phases of '
                'growth (new association / node subclasses through CreateClass, add_cimobjects or compile_mof_string, new nodes '
                'and association instances of old and new classes, ModifyInstance re-pointing non-key ends of (cross-namespace) '
                'association instances with PropertyList / partial / full instances, DeleteInstance, DeleteClass), after each phase the SAME '
                'queries again plus queries for the new nodes, each judged against the raw stores of that moment')
    run.assumptions += [
        'keybinding equality of instance paths is decided by the real CIMInstanceName/NocaseDict equality in the harness '
        '(model: id per equivalence class); it is the subject of C05',
        'names are ASCII (model lower = ASCII str.lower)',
        'the model is fed with the real class and instance stores read from conn.cimrepository after the repository was built',
        'the class stores have no superclass cycle (C12)',
    ]
    specs = []
    for i in range(n):
        s = gen_spec(rng, run.thorough)
        s['thorough'] = run.thorough
        specs.append(s)
    # histories: queries interleaved with repository growth on one connection (own generator so that the
    # repositories above stay the same for a given seed)
    hrng = random.Random(run.seed * 7919 + 13)
    for i in range(100 if run.thorough else 28):
        s = gen_history_spec(hrng, False)
        s['thorough'] = False
        specs.append(s)
    results = common.pmap(_work, specs, procs=4, chunksize=2)
    lines = []
    for r in results:
        if 'crash' in r:
            raise RuntimeError('worker crashed: ' + r['crash'])
        lines += [ln for ln, _ in r['lines']]
    answers = iter(common.run_driver(PROP, lines))
    for spec, r in zip(specs, results):
        for k, v in r['counts'].items():
            run.count(k, v)
        for cid, nonempty in r['cases']:
            run.case({'repo': spec['qseed'], 'req': cid}, nontrivial=nonempty)
        for phase, (line, reals) in enumerate(r['lines']):
            outs = next(answers).get('outs', [])
            for rq, real, mo in zip(line['reqs'], reals, outs):
                a, b = canon_model_out(mo, rq), canon_real_out(real, rq)
                if a != b:
                    run.disagree({'spec': spec, 'req': rq, 'phase': phase}, a, b,
                                 'traversal %s level %s' % (rq['op'], rq['lvl']))
        for sig, case, obs in r['viol']:
            run.violate(sig, case, obs)
    create_k(run)
    write_k(run)


def gen_create_spec(rng):
    """a repository of nodes + a sequence of CreateInstance calls of association instances whose ends all
    carry a namespace in its stored spelling (NULL / namespace-less ends: C10)"""
    assocs = gen_schema(rng)
    nss = NSS[:rng.choice([1, 2, 3, 3])]
    nodes = []
    for i in range(rng.choice([2, 4, 6, 9])):
        nd = [rng.choice(nss), rng.choice([n for n, _ in NODE_CLASSES]), 'n%d' % rng.randrange(5)]
        if nd not in nodes:
            nodes.append(nd)
    drop = []          # (class, namespace): association classes removed from one namespace before the creates
    leafs = [a[0] for a in assocs if not any(b[1] and b[1].lower() == a[0].lower() for b in assocs)]
    if len(nss) > 1 and leafs and rng.random() < 0.4:
        drop.append([rng.choice(leafs), rng.choice(nss[1:])])
    creates = []
    for _ in range(rng.choice([1, 3, 6, 10])):
        a = rng.choice(assocs)
        refs = assoc_refs(assocs, a[0])
        ends = {}
        for role, rc, iskey in refs:
            r = rng.random()
            if r < 0.78 and nodes:
                ends[role] = ['node', rng.randrange(len(nodes))]
            elif r < 0.86:
                ends[role] = ['missing', rng.choice(nss)]               # end that does not exist
            elif r < 0.92:
                ends[role] = ['badns', None]                             # end in an unknown namespace
            elif r < 0.96 and nodes:
                ends[role] = ['host', rng.randrange(len(nodes))]
            elif nodes:
                ends[role] = ['node', rng.randrange(len(nodes))]
            else:
                ends[role] = ['missing', rng.choice(nss)]
        ns = rng.choice(nss + ['root/nonexistent'] if rng.random() < 0.08 else nss)
        creates.append({'cls': a[0] if rng.random() < 0.8 else recase(a[0], rng), 'ns': ns, 'ends': ends})
        if rng.random() < 0.25:
            creates.append(dict(creates[-1]))                           # duplicate: ALREADY_EXISTS
    return {'assocs': assocs, 'nss': nss, 'nodes': nodes, 'drop': drop, 'creates': creates}


def run_create(spec):
    """-> (model line, real outcomes, real final paths per namespace, violations)"""
    import pywbem
    import mockutil
    conn = mockutil.new_conn(schema_mof(spec['assocs']), spec['nss'])
    for nd in spec['nodes']:
        conn.CreateInstance(pywbem.CIMInstance(nd[1], properties={'id': nd[2]}), namespace=nd[0])
    for cn, ns in spec['drop']:
        conn.DeleteClass(cn, namespace=ns)
    keys = Keys()
    line = {'host': conn.host, 'repo': dump_repo(conn, keys), 'reqs': []}
    outs, viol = [], []
    for cr in spec['creates']:
        refs = assoc_refs(spec['assocs'], cr['cls'])
        props, keyb = [], {}
        for role, rc, iskey in refs:
            kind, arg = cr['ends'][role]
            if kind in ('node', 'host'):
                val = node_path(spec['nodes'][arg])
                if kind == 'host':
                    val.host = 'some.host'
            elif kind == 'missing':
                val = pywbem.CIMInstanceName('C13_Node', keybindings={'id': 'missing'}, namespace=arg)
            else:
                val = pywbem.CIMInstanceName('C13_Node', keybindings={'id': 'n0'}, namespace='root/zz')
            props.append(pywbem.CIMProperty(role, val, type='reference', reference_class=rc))
            if iskey:
                keyb[role] = val
        inst = pywbem.CIMInstance(cr['cls'], properties=props)
        mpath = pywbem.CIMInstanceName(cr['cls'], keybindings=keyb)
        line['reqs'].append({'op': 'create', 'ns': cr['ns'],
                             'inst': {'cls': cr['cls'], 'path': pj(mpath, keys),
                                      'props': [{'name': p.name, 'ref': True, 'v': pj(p.value, keys)} for p in props]}})
        before = store_paths(conn, keys)
        try:
            rp = conn.CreateInstance(inst, namespace=cr['ns'])
            outs.append({'ok': None})
            # oracle (storing side of the property): the new instance is stored in the target namespace
            # and in the namespace of every end, and nowhere else
            after = store_paths(conn, keys)
            want = set([cr['ns'].lower()] + [p.value.namespace.lower() for p in props])
            kid = keys.kid(rp)
            for ns in after:
                new = after[ns] - before[ns]
                exp = {(cr['cls'].lower(), ns, None, kid)} if ns in want else set()
                if set((c, n, h, k) for c, n, h, k in new) != exp:
                    viol.append(({'kind': 'shadow_instances_wrong', 'op': 'create', 'level': 'instance'},
                                 {'create_spec': spec}, {'namespace': ns, 'new': sorted(map(str, new)),
                                                         'expected': sorted(map(str, exp))}))
        except Exception as e:  # noqa
            outs.append(common.exc_json(e))
            if store_paths(conn, keys) != before:
                viol.append(({'kind': 'failed_create_changed_store', 'op': 'create', 'level': 'instance'},
                             {'create_spec': spec}, common.exc_json(e)))
    final = {ns: sorted(map(str, ps)) for ns, ps in store_paths(conn, keys).items()}
    return line, outs, final, viol


def store_paths(conn, keys):
    return {ns.lower(): set(canon_p(pj(i.path, keys)) for i in
                           conn.cimrepository.get_instance_store(ns).iter_values(copy=False))
            for ns in conn.namespaces}


def create_k(run):
    """K for the storing side: CreateInstance of association instances (multi-namespace shadows)"""
    n = 400 if run.thorough else 120
    specs = [gen_create_spec(run.rng) for _ in range(n)]
    rows = [run_create(s) for s in specs]
    answers = common.run_driver(PROP, [r[0] for r in rows])
    for spec, (line, outs, final, viol), ans in zip(specs, rows, answers):
        mo = ans.get('outs')
        mp = {r['name'].lower(): sorted(map(str, (canon_p(p) for p in r['paths']))) for r in ans.get('repo', [])}
        run.case({'create': spec['creates'], 'nodes': spec['nodes'], 'drop': spec['drop']},
                 nontrivial=any('ok' in o for o in outs))
        for o in outs:
            run.count('create:' + o.get('exc', 'ok') + str(o.get('code', '')))
        if mo != outs or mp != final:
            run.disagree({'create_spec': spec}, {'outs': mo, 'repo': mp}, {'outs': outs, 'repo': final},
                         'CreateInstance of association instances')
        for sig, case, obs in viol:
            run.violate(sig, case, obs)


# --------------------------------------------------------------------------- K for the write path (create/modify/delete)

def gen_write_spec(rng):
    """nodes in 2-3 namespaces + a sequence of CreateInstance / ModifyInstance / DeleteInstance requests for
    association instances (half of the classes id-keyed: every end re-pointable), requests sent through any
    namespace that holds or does not hold a copy"""
    assocs = gen_schema(rng, idkeyed=0.6)
    nss = NSS[:rng.choice([2, 3, 3])]
    nodes = []
    for i in range(rng.choice([3, 5, 7, 9])):
        nd = [rng.choice(nss), rng.choice([n for n, _ in NODE_CLASSES]), 'n%d' % rng.randrange(6)]
        if nd not in nodes:
            nodes.append(nd)
    ops, created = [], []          # created: [cls, {role: node idx|None}]
    for _ in range(rng.choice([3, 6, 10, 14])):
        r = rng.random()
        if r < 0.45 or not created:
            a = rng.choice(assocs)
            refs = assoc_refs(assocs, a[0])
            ends = {}
            for role, rc, iskey in refs:
                if not iskey and rng.random() < 0.15:
                    ends[role] = None
                else:
                    ends[role] = rng.randrange(len(nodes))
            ns = rng.choice(nss) if rng.random() < 0.35 else rng.choice(
                [nodes[i][0] for i in ends.values() if i is not None] or nss)
            iid = 'w%d' % (len(created) if rng.random() < 0.85 else rng.randrange(len(created) + 1))
            ops.append(['create', ns, a[0], ends, iid])
            created.append([a[0], dict(ends), iid])
        elif r < 0.80:
            k = rng.randrange(len(created))
            cls, ends, iid = created[k]
            refs = assoc_refs(assocs, cls)
            cand = [(role, rc) for role, rc, iskey in refs if not iskey]     # key changes: C10's subject
            if not cand:
                continue
            rng.shuffle(cand)
            change = {}
            for role, rc in cand[:rng.choice([1, 1, 2])]:
                q = rng.random()
                if q < 0.10:
                    change[role] = 'missing'
                else:
                    change[role] = rng.randrange(len(nodes))
            via = rng.choice(nss)
            ops.append(['modify', via, k, change, rng.choice(['pl', 'partial', 'full'])])
            if all(isinstance(v, int) for v in change.values()):
                ends.update(change)                          # what it should be if accepted (bookkeeping only)
        elif r < 0.93:
            k = rng.randrange(len(created))
            ops.append(['delete', rng.choice(nss), k])
        else:
            cls = rng.choice(assocs)[0]
            ops.append(['delclass', rng.choice(nss), cls if rng.random() < 0.8 else recase(cls, rng)])
    return {'assocs': assocs, 'nss': nss, 'nodes': nodes, 'ops': ops}


def store_contents(conn, keys):
    """per namespace: sorted list of (path normal form, class, [(role, end normal form|None)…]) + the class names"""
    out = {}
    for ns in conn.namespaces:
        rows = [['classes'] + sorted(c.classname.lower() for c in
                                     conn.cimrepository.get_class_store(ns).iter_values(copy=False))]
        for i in conn.cimrepository.get_instance_store(ns).iter_values(copy=False):
            refs = sorted((p.name.lower(), str(canon_p(pj(p.value, keys))) if p.value is not None else None)
                          for p in i.properties.values() if p.type == 'reference')
            rows.append([str(canon_p(pj(i.path, keys))), i.classname.lower(), [list(r) for r in refs]])
        out[ns.lower()] = sorted(rows, key=str)
    return out


def model_contents(repo):
    out = {}
    for r in repo:
        rows = [['classes'] + sorted(c.lower() for c in r.get('classes', []))]
        for i in r.get('insts', []):
            refs = sorted((n.lower(), str(canon_p(v)) if v is not None else None) for n, v in i['refs'])
            rows.append([str(canon_p(i['path'])), i['cls'].lower(), [list(x) for x in refs]])
        out[r['name'].lower()] = sorted(rows, key=str)
    return out


def run_write(spec):
    """-> (model line, real outcomes, real final store contents, violations)"""
    import pywbem
    import mockutil
    conn = mockutil.new_conn(schema_mof(spec['assocs']), spec['nss'])
    for nd in spec['nodes']:
        conn.CreateInstance(pywbem.CIMInstance(nd[1], properties={'id': nd[2]}), namespace=nd[0])
    keys = Keys()
    line = {'host': conn.host, 'repo': dump_repo(conn, keys), 'reqs': []}
    outs, viol = [], []
    paths = []                       # per created index: the path (without namespace) the instance has / would have
    vrng = random.Random(len(spec['ops']) * 31 + len(spec['nodes']))     # spelling of namespaces in reference values

    def ref_val(tgt):
        if tgt is None:
            return None
        if tgt == 'missing':
            return pywbem.CIMInstanceName('C13_Node', keybindings={'id': 'missing'}, namespace=spec['nss'][0])
        return node_path(spec['nodes'][tgt], rng=vrng)

    def mprops(props):
        return [{'name': p.name, 'ref': p.type == 'reference', 'v': pj(p.value, keys) if p.type == 'reference' else None}
                for p in props]
    for op in spec['ops']:
        try:
            if op[0] == 'create':
                _, ns, cls, ends, iid = op
                refs = assoc_refs(spec['assocs'], cls)
                props, keyb = [], {}
                for role, rc, iskey in refs:
                    val = ref_val(ends[role])
                    props.append(pywbem.CIMProperty(role, val, type='reference', reference_class=rc))
                    if iskey:
                        keyb[role] = val
                if id_keyed(refs):
                    props.append(pywbem.CIMProperty('InstanceID', iid))
                    keyb['InstanceID'] = iid
                mpath = pywbem.CIMInstanceName(cls, keybindings=keyb)
                paths.append(mpath)
                line['reqs'].append({'op': 'create', 'ns': ns,
                                     'inst': {'cls': cls, 'path': pj(mpath, keys), 'props': mprops(props)}})
                conn.CreateInstance(pywbem.CIMInstance(cls, properties=props), namespace=ns)
            elif op[0] == 'modify':
                _, via, k, change, mode = op
                cls = next(o for o in [o for o in spec['ops'] if o[0] == 'create'][k:k + 1])[2]
                refs = assoc_refs(spec['assocs'], cls)
                rcs = {role: rc for role, rc, _ in refs}
                p = paths[k].copy()
                p.namespace = via
                newprops = [pywbem.CIMProperty(role, ref_val(t), type='reference', reference_class=rcs[role])
                            for role, t in change.items()]
                if mode == 'full':
                    try:
                        inst = conn.GetInstance(p)
                        for np_ in newprops:
                            inst.properties[np_.name] = np_
                        inst.path = p
                        chg = list(inst.properties.values())
                    except pywbem.CIMError:
                        inst = pywbem.CIMInstance(cls, properties=newprops, path=p)
                        chg = newprops
                    line['reqs'].append({'op': 'modify', 'ns': via, 'path': pj(paths[k], keys), 'chg': mprops(chg)})
                    conn.ModifyInstance(inst)
                else:
                    inst = pywbem.CIMInstance(cls, properties=newprops, path=p)
                    line['reqs'].append({'op': 'modify', 'ns': via, 'path': pj(paths[k], keys), 'chg': mprops(newprops)})
                    if mode == 'pl':
                        conn.ModifyInstance(inst, PropertyList=[np_.name for np_ in newprops])
                    else:
                        conn.ModifyInstance(inst)
            elif op[0] == 'delclass':
                _, ns, cls = op
                line['reqs'].append({'op': 'delclass', 'ns': ns, 'cls': cls})
                conn.DeleteClass(cls, namespace=ns)
            else:
                _, via, k = op
                p = paths[k].copy()
                p.namespace = via
                line['reqs'].append({'op': 'delete', 'ns': via, 'path': pj(paths[k], keys)})
                conn.DeleteInstance(p)
            outs.append({'ok': None})
        except Exception as e:  # noqa
            outs.append(common.exc_json(e))
    # oracle on the real outputs: traversal is symmetric across namespaces after the history
    counts = {}
    orc = Oracle(conn, {'write_spec': spec}, keys, lambda sig, case, obs: viol.append((sig, {'write_spec': spec}, obs)),
                 lambda k, n=1: counts.__setitem__(k, counts.get(k, 0) + n), lambda r: real_call(conn, r, keys))
    orc.loaded = False
    seen = set()
    for ns in conn.namespaces:
        for a in conn.cimrepository.get_instance_store(ns).iter_values(copy=False):
            for pr in a.properties.values():
                if pr.type == 'reference' and pr.value is not None and has_ns(conn, pr.value.namespace):
                    x = pr.value
                    kx = canon_p(pj(x, keys))
                    if kx in seen:
                        continue
                    seen.add(kx)
                    rq = {'op': 'AN', 'lvl': 'i', 'ns': x.namespace, '_path': x, 'src': src_uri(x, x.namespace),
                          'ac': None, 'rc': None, 'role': None, 'rrole': None}
                    orc.check_symmetry(rq, real_call(conn, rq, keys), None)
    return line, outs, store_contents(conn, keys), viol


def write_k(run):
    """K for the write path: CreateInstance / ModifyInstance / DeleteInstance of association instances"""
    n = 300 if run.thorough else 80
    wrng = random.Random(run.seed * 104729 + 13)
    specs = [gen_write_spec(wrng) for _ in range(n)]
    rows = [run_write(s) for s in specs]
    answers = common.run_driver(PROP, [r[0] for r in rows])
    for spec, (line, outs, final, viol), ans in zip(specs, rows, answers):
        mo = ans.get('outs')
        mp = model_contents(ans.get('repo', []))
        run.case({'write': spec['ops'], 'nodes': spec['nodes']}, nontrivial=sum(1 for o in outs if 'ok' in o) >= 2)
        for op, o in zip(spec['ops'], outs):
            run.count('write:%s:%s' % (op[0], o.get('exc', 'ok') + str(o.get('code', ''))))
        if mo != outs or mp != final:
            run.disagree({'write_spec': spec}, {'outs': mo, 'repo': mp}, {'outs': outs, 'repo': final},
                         'Create/Modify/DeleteInstance of association instances')
        # the hypotheses and the conclusion of C13_write_history_keeps_discipline_partial on this history
        # (stores of model and real code agree, see above): how often the request conditions hold, and that
        # the discipline then holds on the final stores
        run.count('discipline:initial_%s' % ans.get('winv0'))
        run.count('discipline:histok_%s:final_%s' % (ans.get('histok'), ans.get('winv')))
        if ans.get('winv0') and ans.get('histok') and not ans.get('winv'):
            run.disagree({'write_spec': spec}, {'winv': ans.get('winv')}, {'expected': True},
                         'shadow-copy discipline lost although the request conditions held (contradicts the theorem)')
        for sig, case, obs in viol:
            run.violate(sig, case, obs)


def search(run):
    """proof or K broke and the oracle saw nothing: widen the oracle-only search on the real code"""
    before = len(run.violations)
    rng = run.rng
    for i in range(150):
        s = gen_spec(rng, True)
        s['thorough'] = True
        r = run_repo(s)
        for sig, case, obs in r['viol']:
            run.violate(sig, case, obs)
        known = common.load_known_all()
        new = [v for v in run.violations[before:] if not any(common.matches(f, PROP, v['sig']) for f in known)]
        if new:
            return new
    return []


def replay(payload):
    case = payload['case']
    if 'write_spec' in case:
        line, outs, final, viol = run_write(case['write_spec'])
        known = common.load_known_all()
        bad = [v[0] for v in viol if not any(common.matches(f, PROP, v[0]) for f in known)]
        if bad:
            return False, 'property C13 FAILS after this write history: ' + json.dumps(bad[:3]) + \
                '\nreal outcomes: ' + json.dumps(outs)[:1000]
        return True, 'property C13 holds after this write history; real outcomes: ' + json.dumps(outs)[:1000]
    if 'create_spec' in case:
        line, outs, final, viol = run_create(case['create_spec'])
        if viol:
            return False, 'property C13 FAILS (storing side): ' + json.dumps([v[0] for v in viol][:3]) + \
                '\nreal outcomes: ' + json.dumps(outs)[:1000]
        return True, 'property C13 holds on this CreateInstance sequence; real outcomes: ' + json.dumps(outs)[:1000]
    r = run_repo(case['spec'], only_req=dict(case['req']))      # a history spec is re-run as a whole
    known = common.load_known_all()
    sigs = [sig for sig, _, _ in r['viol']]
    unmatched = [g for g in sigs if not any(common.matches(f, PROP, g) for f in known)]
    recorded = payload.get('sig')
    failing = [g for g in sigs if g == recorded] or unmatched
    tail = '\nreal outcomes: ' + json.dumps(r['real'][:4], default=str)[:1500]
    if failing:
        return False, 'property C13 FAILS on this repository/request: ' + json.dumps(failing[:3]) + tail
    if sigs:
        return True, 'property C13: only open known findings reproduce on this repository/request: ' + \
            json.dumps(sigs[:3]) + tail
    return True, 'property C13 holds on this repository/request' + tail
