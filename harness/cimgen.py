"""Type-directed generator of pywbem CIM objects (C01/C03/C04/C02/C05 share it).
Every random choice comes from the rng handed in."""
import math
import struct

INT_LIMITS = {'uint8': (0, 2**8 - 1), 'sint8': (-2**7, 2**7 - 1), 'uint16': (0, 2**16 - 1), 'sint16': (-2**15, 2**15 - 1),
              'uint32': (0, 2**32 - 1), 'sint32': (-2**31, 2**31 - 1), 'uint64': (0, 2**64 - 1),
              'sint64': (-2**63, 2**63 - 1)}
TYPES = ['string', 'char16', 'boolean', 'datetime', 'real32', 'real64'] + list(INT_LIMITS)

DANGEROUS = ['&', '<', '>', '"', "'", ']', ']]>', '\t', '\n', ' ', '&amp;', '&#13;', '<![CDATA[', '\\', '=', ',', '.', ':', '/']
CR = ['\r', '\r\n']
UNI = ['é', 'ß', 'İ', 'K', 'ﬁ', '٣', '中', '\U0001F600', '\U00010000', '￮', '\u0080', ' ']
LETTERS = 'abcXYZ012_'


class Gen:
    def __init__(self, rng, allow_cr=True, max_depth=3):
        self.r = rng
        self.allow_cr = allow_cr
        self.max_depth = max_depth

    # ---- strings / names
    def string(self, maxlen=12):
        r = self.r
        n = r.choice([0, 0, 1, 1, 2, 3, 5, 8, maxlen])
        out = []
        for _ in range(n):
            x = r.random()
            if x < 0.45:
                out.append(r.choice(LETTERS))
            elif x < 0.80:
                out.append(r.choice(DANGEROUS))
            elif x < 0.86 and self.allow_cr:
                out.append(r.choice(CR))
            else:
                out.append(r.choice(UNI))
        s = ''.join(out)
        if r.random() < 0.15:
            s = ' ' + s
        if r.random() < 0.15:
            s = s + r.choice([' ', '\n', '\t'])
        return s

    def name(self, prefix='N'):
        r = self.r
        s = prefix + ''.join(r.choice('abcDEF_0') for _ in range(r.randint(0, 4)))
        return r.choice([s, s.upper(), s.lower(), s.swapcase()])

    def namespace(self):
        r = self.r
        return '/'.join(self.name('ns') for _ in range(r.choice([1, 1, 2, 3])))

    def host(self):
        return self.r.choice(['h', 'host.example.com', '10.0.0.1:5988', '[::1]:5989', 'my-host', 'HoSt'])

    # ---- atoms
    def real(self, w64):
        r = self.r
        x = r.random()
        if x < 0.08:
            return r.choice([float('inf'), float('-inf')])
        if x < 0.12:
            return float('nan')
        if x < 0.3:
            return r.choice([0.0, -0.0, 1.0, 1.5, 0.1, 1e16, 1e-7, 123456789.0, 2.5e-300, 1.7976931348623157e308,
                             5e-324, 3.4028234663852886e38, 1.401298464324817e-45])
        if w64:
            b = r.getrandbits(64)
            v = struct.unpack('<d', struct.pack('<Q', b))[0]
        else:
            b = r.getrandbits(32)
            v = struct.unpack('<f', struct.pack('<I', b))[0]
        if math.isnan(v):
            v = float('nan')
        return v

    def datetime(self):
        import pywbem
        r = self.r
        x = r.random()
        if x < 0.5:
            y, mo, d = r.choice([1, 1999, 2000, 2024, 9999]), r.randint(1, 12), r.randint(1, 28)
            s = '%04d%02d%02d%02d%02d%02d.%06d%s%03d' % (y, mo, d, r.randint(0, 23), r.randint(0, 59), r.randint(0, 59),
                                                          r.choice([0, 1, 999999, 123000]), r.choice('+-'),
                                                          r.choice([0, 60, 120, 720, 999, 1]))
        elif x < 0.8:
            s = '%08d%02d%02d%02d.%06d:000' % (r.choice([0, 1, 12345678, 99999999]), r.randint(0, 23), r.randint(0, 59),
                                                r.randint(0, 59), r.choice([0, 5, 999999]))
        else:
            s = r.choice(['20140924193040.654***+120', '201409241930**.******+000', '2014092419****.******-300',
                          '00000001******.******:000', '************************:000'.replace('*' * 24, '0000000012****.**' + '****'),
                          '20000229000000.000000+000'])
        try:
            return pywbem.CIMDateTime(s)
        except Exception:  # noqa
            return pywbem.CIMDateTime('20140924193040.654321+120')

    def atom(self, ty):
        import pywbem
        r = self.r
        if ty == 'string':
            return self.string()
        if ty == 'char16':
            return pywbem.Char16(r.choice(['a', 'Z', '<', '&', ' ', '\n', 'é', '￮', '"']))
        if ty == 'boolean':
            return r.random() < 0.5
        if ty == 'datetime':
            return self.datetime()
        if ty in ('real32', 'real64'):
            w = ty == 'real64'
            return (pywbem.Real64 if w else pywbem.Real32)(self.real(w))
        lo, hi = INT_LIMITS[ty]
        v = r.choice([lo, hi, lo + 1, hi - 1, 0, 1, r.randint(lo, hi)])
        return pywbem.cimtype  and pywbem._cim_types.type_from_name(ty)(v)

    def value(self, ty, array=None, allow_null=True):
        r = self.r
        if array is None:
            array = r.random() < 0.35
        if allow_null and r.random() < 0.12:
            return None, array
        if array:
            n = r.choice([0, 1, 2, 3, 5])
            return [None if (allow_null and r.random() < 0.2) else self.atom(ty) for _ in range(n)], True
        return self.atom(ty), False

    # ---- paths
    def instancename(self, depth=0, with_ns=None):
        import pywbem
        r = self.r
        kbs = {}
        for _ in range(r.choice([1, 1, 2, 3])):
            k = self.name('k')
            x = r.random()
            if x < 0.15 and depth < self.max_depth:
                kbs[k] = self.instancename(depth + 1)
            elif x < 0.25:
                kbs[k] = r.choice([0, 1, -5, 2**70, 1.5, 1e16, 0.1, float('inf')])
            else:
                kbs[k] = self.atom(r.choice(TYPES))
        if r.random() < 0.03:
            kbs = {}
        ns = host = None
        if with_ns is None:
            with_ns = r.random() < 0.5
        if with_ns:
            ns = self.namespace()
            if r.random() < 0.5:
                host = self.host()
        return pywbem.CIMInstanceName(self.name('C'), kbs, namespace=ns, host=host)

    def classname(self):
        import pywbem
        r = self.r
        ns = host = None
        if r.random() < 0.6:
            ns = self.namespace()
            if r.random() < 0.5:
                host = self.host()
        return pywbem.CIMClassName(self.name('C'), namespace=ns, host=host)

    def flavor(self):
        return self.r.choice([None, None, True, False])

    def qualifier(self):
        import pywbem
        r = self.r
        ty = r.choice(TYPES)
        v, arr = self.value(ty)
        try:
            return pywbem.CIMQualifier(self.name('Q'), v, type=ty, propagated=self.flavor(), overridable=self.flavor(),
                                       tosubclass=self.flavor(), toinstance=self.flavor(), translatable=self.flavor())
        except (TypeError, ValueError):
            return pywbem.CIMQualifier(self.name('Q'), 'x')

    def qualifiers(self, n=None):
        r = self.r
        if n is None:
            n = r.choice([0, 0, 0, 1, 2])
        out = {}
        for _ in range(n):
            q = self.qualifier()
            out[q.name] = q
        return list(out.values())

    def embedded(self, depth, with_path=False):
        import pywbem
        r = self.r
        if r.random() < 0.75:
            i = self.instance(depth + 1, with_path=False)
            if with_path:
                i.path = self.instancename(depth + 1, with_ns=False)
            return i, r.choice(['instance', 'instance', 'object'])
        return self.klass(depth + 1), 'object'

    def prop(self, depth=0, decl=False, emb_with_path=False):
        import pywbem
        r = self.r
        x = r.random()
        nm = self.name('P')
        common = dict(class_origin=r.choice([None, None, self.name('C')]), propagated=self.flavor(),
                      qualifiers=self.qualifiers())
        try:
            if x < 0.12:
                v = None if r.random() < 0.3 else (self.instancename(depth + 1) if r.random() < 0.85 else self.classname())
                return pywbem.CIMProperty(nm, v, type='reference', reference_class=r.choice([None, self.name('C')]), **common)
            if x < 0.27 and depth < self.max_depth:
                if r.random() < 0.3:
                    n = r.choice([0, 1, 2])
                    vals = []
                    emb = None
                    for _ in range(n):
                        v, e = self.embedded(depth, emb_with_path)
                        if emb is None:
                            emb = e
                        if e == emb or emb == 'object':
                            vals.append(v)
                    if not vals:
                        return pywbem.CIMProperty(nm, [], type='string', embedded_object='instance', is_array=True, **common)
                    if r.random() < 0.3:
                        vals.append(None)
                    return pywbem.CIMProperty(nm, vals, type='string', embedded_object=emb, is_array=True, **common)
                v, e = self.embedded(depth, emb_with_path)
                return pywbem.CIMProperty(nm, v, type='string', embedded_object=e, **common)
            ty = r.choice(TYPES)
            v, arr = self.value(ty)
            asz = r.choice([None, None, 3]) if arr else None
            return pywbem.CIMProperty(nm, v, type=ty, is_array=arr, array_size=asz, **common)
        except (TypeError, ValueError):
            return pywbem.CIMProperty(nm, 'fallback', **common)

    def props(self, depth, decl=False, emb_with_path=False):
        r = self.r
        out = {}
        for _ in range(r.choice([0, 1, 2, 3, 4])):
            p = self.prop(depth, decl, emb_with_path)
            out[p.name] = p
        return list(out.values())

    def instance(self, depth=0, with_path=None, emb_with_path=False):
        import pywbem
        r = self.r
        path = None
        if with_path is None:
            with_path = r.random() < 0.5
        if with_path:
            path = self.instancename(depth + 1)
        i = pywbem.CIMInstance(self.name('C'), properties=self.props(depth, emb_with_path=emb_with_path),
                               qualifiers=self.qualifiers(), path=path)
        return i

    def parameter(self, depth=0, as_value=False):
        import pywbem
        r = self.r
        nm = self.name('A')
        x = r.random()
        try:
            if x < 0.2:
                arr = r.random() < 0.4
                v = None
                if as_value:
                    v = [self.instancename(depth + 1), None] if arr else self.instancename(depth + 1)
                return pywbem.CIMParameter(nm, 'reference', reference_class=r.choice([None, self.name('C')]), is_array=arr,
                                           array_size=r.choice([None, 2]) if arr else None, qualifiers=self.qualifiers(),
                                           value=v)
            ty = r.choice(TYPES)
            v, arr = self.value(ty)
            if not as_value:
                v = None
            return pywbem.CIMParameter(nm, ty, is_array=arr, array_size=r.choice([None, 4]) if arr else None,
                                       qualifiers=self.qualifiers(), value=v)
        except (TypeError, ValueError):
            return pywbem.CIMParameter(nm, 'string')

    def method(self, depth=0):
        import pywbem
        r = self.r
        ps = {}
        for _ in range(r.choice([0, 1, 2, 3])):
            p = self.parameter(depth)
            ps[p.name] = p
        return pywbem.CIMMethod(self.name('M'), return_type=r.choice([t for t in TYPES]), parameters=list(ps.values()),
                                class_origin=r.choice([None, self.name('C')]), propagated=self.flavor(),
                                qualifiers=self.qualifiers())

    def klass(self, depth=0):
        import pywbem
        r = self.r
        ms = {}
        for _ in range(r.choice([0, 0, 1, 2])):
            m = self.method(depth)
            ms[m.name] = m
        c = pywbem.CIMClass(self.name('C'), properties=self.props(depth, decl=True), methods=list(ms.values()),
                            superclass=r.choice([None, self.name('S')]), qualifiers=self.qualifiers())
        if r.random() < 0.2:
            c.path = self.classname()
        return c

    def qualdecl(self):
        import pywbem
        r = self.r
        ty = r.choice(TYPES)
        v, arr = self.value(ty)
        scopes = {}
        for k in r.sample(['CLASS', 'ASSOCIATION', 'REFERENCE', 'PROPERTY', 'METHOD', 'PARAMETER', 'INDICATION', 'ANY'],
                          r.choice([0, 1, 2, 4])):
            scopes[r.choice([k, k.lower(), k.title()])] = r.random() < 0.7
        try:
            return pywbem.CIMQualifierDeclaration(self.name('Q'), ty, value=v, is_array=arr,
                                                  array_size=r.choice([None, 5]) if arr else None, scopes=scopes,
                                                  overridable=self.flavor(), tosubclass=self.flavor(),
                                                  toinstance=self.flavor(), translatable=self.flavor())
        except (TypeError, ValueError):
            return pywbem.CIMQualifierDeclaration(self.name('Q'), 'string')

    def any(self, emb_with_path=False):
        r = self.r
        k = r.choice(['instname', 'instname', 'classname', 'inst', 'inst', 'inst', 'cls', 'cls', 'prop', 'prop', 'meth',
                      'param', 'qual', 'qdecl'])
        if k == 'instname':
            return self.instancename()
        if k == 'classname':
            return self.classname()
        if k == 'inst':
            return self.instance(emb_with_path=emb_with_path)
        if k == 'cls':
            return self.klass()
        if k == 'prop':
            return self.prop(emb_with_path=emb_with_path)
        if k == 'meth':
            return self.method()
        if k == 'param':
            return self.parameter()
        if k == 'qual':
            return self.qualifier()
        return self.qualdecl()
