"""Shared machinery of every per-property check (see DESIGN.md §3-§5, §11).

A per-property module harness/cXX.py defines

    PROP = 'Cxx'
    def run(ctx):  ...    # fills ctx (a Run) with K disagreements / oracle violations / statistics

and ./check calls common.main(module).  The verdict logic lives here, once.
"""
import atexit
import fcntl
import shutil
import hashlib
import json
import os
import random
import re
import subprocess
import sys
import time
import traceback

VERIF = os.path.dirname(os.path.dirname(os.path.abspath(__file__)))
LEAN = os.path.join(VERIF, 'lean')
REPO = os.environ.get('VERIF_REPO', '/repo')
GUARD = 'PYWBEM_VERIF'
ALLOWED_AXIOMS = {'propext', 'Classical.choice', 'Quot.sound'}
FORBIDDEN = re.compile(r'\b(sorry|admit|native_decide|bv_decide|implemented_by)\b|^\s*axiom\s|\bunsafe\s|maxHeartbeats\s+0\b',
                       re.M)

TRUSTED_BASE_COMMON = [
    "Lean 4.33.0 kernel (thorough tier: leanchecker replay of the .olean files)",
    "axioms allowed in property theorems: propext, Classical.choice, Quot.sound (audited by #print axioms on every run); "
    "no sorry/admit/native_decide/bv_decide/user axioms (grep on every run)",
    "hand-written model <-> code tie = the differential correspondence run K of this run only (bounded; generator statistics in coverage)",
    "tools/extract.py reads the constant tables it claims to read from /repo's source text",
    "harness generators/canonicalisers do not mask differences (DESIGN.md §4.1)",
]


def use_repo():
    """make `import pywbem` resolve to the working tree under REPO, hooks on"""
    os.environ[GUARD] = '1'
    if REPO not in sys.path:
        sys.path.insert(0, REPO)
    import warnings
    warnings.simplefilter('ignore')


# --------------------------------------------------------------------------- lean side

_CHARLIT = re.compile(r"'(?:\\(?:x[0-9a-fA-F]{2}|u[0-9a-fA-F]{4}|.)|[^\\'\n])'")


def _strip_comments(src):
    """Lean source without comments, with string and character literals blanked: a small lexer (nested /- -/ block
    comments, -- line comments, "..." strings with escapes, 'c' character literals - a quote that follows an
    identifier character is part of the identifier, e.g. h')."""
    out = []
    i, n = 0, len(src)
    depth = 0
    while i < n:
        c = src[i]
        two = src[i:i + 2]
        if depth:
            if two == '/-':
                depth += 1
                i += 2
            elif two == '-/':
                depth -= 1
                i += 2
            else:
                if c == '\n':
                    out.append('\n')
                i += 1
            continue
        if two == '/-':
            depth = 1
            i += 2
            out.append(' ')
        elif two == '--':
            j = src.find('\n', i)
            i = n if j < 0 else j
            out.append(' ')
        elif c == '"':
            j = i + 1
            while j < n and src[j] != '"':
                j += 2 if src[j] == '\\' else 1
            out.append('""')
            out.append('\n' * src.count('\n', i, j))
            i = j + 1
        elif c == "'":
            prev = src[i - 1] if i else ' '
            m = None if (prev.isalnum() or prev in "_'!?" or ord(prev) > 127) else _CHARLIT.match(src, i)
            if m:
                out.append("' '")
                i = m.end()
            else:
                out.append(c)
                i += 1
        else:
            out.append(c)
            i += 1
    return ''.join(out)


class LeanResult:
    def __init__(self):
        self.build_ok = False
        self.build_log = ''
        self.hygiene = []          # forbidden tokens found
        self.theorems = {}         # name -> list of axioms | None
        self.bad_axioms = {}       # name -> offending axioms
        self.extract_report = {}
        self.extract_rc = 0
        self.wall_s = 0.0
        self.leanchecker = None
        self.files = []
        self.aux_theorems = 0

    @property
    def ok(self):
        return (self.build_ok and not self.hygiene and not self.bad_axioms and self.theorems
                and all(v is not None for v in self.theorems.values()) and self.extract_rc == 0
                and self.leanchecker in (None, True))

    def broken_what(self):
        out = []
        if self.extract_rc != 0:
            out.append('extractor: ' + json.dumps(self.extract_report)[:400])
        if not self.build_ok:
            errs = [l for l in self.build_log.splitlines() if 'error' in l][:8]
            out.append('lake build failed: ' + ' | '.join(errs))
        if self.hygiene:
            out.append('forbidden tokens: %s' % self.hygiene)
        if self.bad_axioms:
            out.append('axioms outside the allowed set: %s' % self.bad_axioms)
        missing = [k for k, v in self.theorems.items() if v is None]
        if missing:
            out.append('theorems that no longer check: %s' % missing)
        if self.leanchecker is False:
            out.append('leanchecker rejected the compiled modules')
        return out


def lake(args, timeout=3000, before=None, after=None):
    """lake under an exclusive lock (several checks / agents may share the build dir); `before` (e.g. the table
    extraction) runs under the same lock so that Generated/*.lean and the build belong to the same repo tree;
    `after(returncode)` (axiom audit, private copy of the driver) runs under it too, so that what is audited and
    what is run is what this call built - not what a concurrent check of another tree builds a moment later"""
    os.makedirs(os.path.join(LEAN, '.lake'), exist_ok=True)
    with open(os.path.join(LEAN, '.lake', 'verif.lock'), 'w') as lk:
        fcntl.flock(lk, fcntl.LOCK_EX)
        pre = before() if before is not None else None
        p = subprocess.run(['lake'] + args, cwd=LEAN, stdout=subprocess.PIPE, stderr=subprocess.STDOUT,
                           text=True, timeout=timeout)
        if after is not None:
            after(p.returncode)
    if before is not None:
        return p.returncode, p.stdout, pre
    return p.returncode, p.stdout


def model_sources(prop):
    """Lean files whose content decides prop: transitive local imports of Proofs/Props/<prop>.lean"""
    seen, todo = [], ['Proofs.Props.' + prop, 'Driver.' + prop]
    while todo:
        m = todo.pop()
        path = os.path.join(LEAN, *m.split('.')) + '.lean'
        if m in seen or not os.path.exists(path):
            continue
        seen.append(m)
        with open(path) as f:
            for line in f:
                mm = re.match(r'\s*import\s+((?:Pywbem|Proofs|Driver)\.[\w.]+)', line)
                if mm:
                    todo.append(mm.group(1))
    return seen


def _audit_and_pin(prop, r, rc, thorough):
    """runs under the build lock, right after the build: private copy of the driver, axiom audit, leanchecker"""
    if rc == 0:
        src = os.path.join(LEAN, '.lake', 'build', 'bin', 'drv_' + prop.lower())
        if os.path.exists(src):
            d = os.path.join(LEAN, '.lake', 'run')
            os.makedirs(d, exist_ok=True)
            for fn in os.listdir(d):      # copies left behind by killed runs
                fp = os.path.join(d, fn)
                try:
                    if time.time() - os.path.getmtime(fp) > 4 * 3600:
                        os.unlink(fp)
                except OSError:
                    pass
            dst = os.path.join(d, 'drv_%s.%d' % (prop.lower(), os.getpid()))
            shutil.copy(src, dst)       # (not copy2: the copy's age, not the build output's, decides the clean-up above)
            os.utime(dst, None)
            _PRIVATE_DRV[prop] = dst
            owner = os.getpid()
            # (forked pool workers inherit the handler: only the process that made the copy removes it)
            atexit.register(lambda: os.getpid() == owner and os.path.exists(dst) and os.unlink(dst))
    # theorem names.  Authoritative list: every theorem constant that Lean's environment records for the property's
    # Props module(s) - enumerated by a generated audit file, so it does not depend on parsing the source text.  The
    # `theorem <name>` declarations found in the source (comments/strings/char literals removed by a lexer) are a
    # cross-check: a declared name the environment does not have counts as a theorem that no longer checks.
    ppath = os.path.join(LEAN, 'Proofs', 'Props', prop + '.lean')
    with open(ppath) as f:
        psrc = _strip_comments(f.read())

    def _thms(src):
        names = re.findall(r'^\s*(?:@\[[^\]]*\]\s*)?(?:private\s+|protected\s+)?theorem\s+([^\s:({\[]+)', src, flags=re.M)
        ns = re.search(r'^\s*namespace\s+([\w.]+)', src, flags=re.M)
        return [(ns.group(1) + '.' + n) if ns else n for n in names]
    declared = _thms(psrc)
    mods = ['Proofs.Props.' + prop]
    # property-theorem files this one imports (shared layers such as Proofs/Props/XmlSyntax.lean) are audited with it
    for dep in re.findall(r'^\s*import\s+Proofs\.Props\.(\w+)', psrc, flags=re.M):
        if dep != prop:
            mods.append('Proofs.Props.' + dep)
            with open(os.path.join(LEAN, 'Proofs', 'Props', dep + '.lean')) as f:
                declared += _thms(_strip_comments(f.read()))
    r.theorems = {n: None for n in declared}
    r.aux_theorems = 0
    if rc == 0:
        audit = os.path.join(LEAN, '.lake', 'audit_%s_%d.lean' % (prop, os.getpid()))
        with open(audit, 'w') as f:
            f.write('import Lean\n' + ''.join('import %s\n' % m for m in mods))
            f.write('open Lean Elab Command in\nrun_cmd do\n  let env ← getEnv\n  for modName in [%s] do\n'
                    % ', '.join('`' + m for m in mods))
            f.write('    let some idx := env.getModuleIdx? modName | throwError "module not found"\n'
                    '    let names := env.constants.fold (init := (#[] : Array Name)) fun acc n ci =>\n'
                    '      if env.getModuleIdxFor? n == some idx then\n'
                    '        match ci with\n        | .thmInfo _ => acc.push n\n        | _ => acc\n'
                    '      else acc\n'
                    '    for n in names do\n'
                    '      let ax ← collectAxioms n\n'
                    '      IO.println s!"AX|{n}|{n.isInternalDetail}|{ax.toList}"\n')
        try:
            p = subprocess.run(['lake', 'env', 'lean', audit], cwd=LEAN, stdout=subprocess.PIPE,
                               stderr=subprocess.STDOUT, text=True, timeout=1500)
            for line in p.stdout.splitlines():
                if not line.startswith('AX|'):
                    continue
                _, name, internal, axs = line.split('|', 3)
                ax = [a.strip() for a in axs.strip()[1:-1].split(',') if a.strip()]
                if internal == 'true':
                    # auxiliary theorems generated by the elaborator (…._proof_i, equation lemmas): audited, not counted
                    r.aux_theorems += 1
                    bad = [a for a in ax if a not in ALLOWED_AXIOMS]
                    if bad:
                        r.bad_axioms[name] = bad
                else:
                    r.theorems[name] = ax
            if p.returncode != 0:
                r.build_log += '\naxiom audit failed: ' + p.stdout[-1500:]
        finally:
            os.unlink(audit)
        for n, ax in r.theorems.items():
            if ax is not None:
                bad = [a for a in ax if a not in ALLOWED_AXIOMS]
                if bad:
                    r.bad_axioms[n] = bad
    if thorough and rc == 0:
        mods = [m for m in model_sources(prop) if not m.startswith('Driver.')]
        try:
            p = subprocess.run(['lake', 'env', 'leanchecker'] + mods, cwd=LEAN, stdout=subprocess.PIPE,
                               stderr=subprocess.STDOUT, text=True, timeout=1500)
            r.leanchecker = (p.returncode == 0)
            if p.returncode != 0:
                r.build_log += '\nleanchecker: ' + p.stdout[-2000:]
        except Exception as e:  # tool failure is not a verdict
            r.leanchecker = None
            r.build_log += '\nleanchecker not run: %r' % (e,)


def lean_check(prop, thorough=False):
    """extract tables, build the property's proof module + driver, hygiene grep, axiom audit"""
    t0 = time.time()
    r = LeanResult()
    sys.path.insert(0, os.path.join(VERIF, 'tools'))
    import extract
    rc, log, (rc_all, r.extract_report) = lake(['build', 'Proofs.Props.' + prop, 'drv_' + prop.lower()],
                                               before=lambda: extract.main(REPO),
                                               after=lambda rc_: _audit_and_pin(prop, r, rc_, thorough))
    r.files = model_sources(prop)
    # an extractor that fails matters to this property only if it produces a Generated table this property imports
    needed = {m.split('.')[-1] + '.lean' for m in r.files if m.startswith('Pywbem.Generated.')}
    r.extract_rc = 0
    for fn, rep in r.extract_report.items():
        if isinstance(rep, dict) and 'error' in rep:
            try:
                with open(os.path.join(VERIF, 'tools', 'extractors', fn)) as f:
                    outs = set(re.findall(r"['\"]([A-Za-z0-9_]+\.lean)['\"]", f.read()))
            except OSError:
                outs = set()
            if not outs or (outs & needed):
                r.extract_rc = 2
    r.extract_report = {k: v for k, v in r.extract_report.items()
                        if ('error' in v and r.extract_rc) or any(n in needed for n in v)}
    r.build_ok = (rc == 0)
    r.build_log = log + r.build_log      # (_audit_and_pin may have appended audit / leanchecker output)
    r.files = model_sources(prop)
    for m in r.files:
        path = os.path.join(LEAN, *m.split('.')) + '.lean'
        with open(path) as f:
            src = _strip_comments(f.read())
        for mm in FORBIDDEN.finditer(src):
            r.hygiene.append('%s: %s' % (m, mm.group(0).strip()))
    r.wall_s = time.time() - t0
    return r


_PRIVATE_DRV = {}


def driver_path(prop):
    """the driver this run built (private copy made under the build lock), else the shared build output"""
    return _PRIVATE_DRV.get(prop) or os.path.join(LEAN, '.lake', 'build', 'bin', 'drv_' + prop.lower())


def run_driver(prop, requests, timeout=1200):
    """pipe JSON lines through the native model driver; returns list of decoded answers"""
    exe = driver_path(prop)
    data = '\n'.join(json.dumps(r, separators=(',', ':')) for r in requests) + '\n'
    p = subprocess.run([exe], input=data, stdout=subprocess.PIPE, stderr=subprocess.PIPE, text=True,
                       timeout=timeout)
    if p.returncode != 0:
        raise RuntimeError('driver %s failed: %s' % (exe, p.stderr[-500:]))
    outs = [json.loads(l) for l in p.stdout.splitlines() if l.strip()]
    if len(outs) != len(requests):
        raise RuntimeError('driver answered %d lines for %d requests' % (len(outs), len(requests)))
    return outs


# --------------------------------------------------------------------------- known findings

def load_known():
    path = os.path.join(VERIF, 'known_findings.json')
    if not os.path.exists(path):
        return []
    with open(path) as f:
        return json.load(f).get('findings', [])


def matches(finding, prop, sig):
    """a violation signature (dict) matches an OPEN finding when every key of finding['match'] is
    present in sig with an equal value (lists in the finding mean 'one of')"""
    if finding.get('property') != prop or finding.get('status') != 'open':
        return False
    for k, v in finding.get('match', {}).items():
        if k not in sig:
            return False
        if isinstance(v, list):
            if sig[k] not in v:
                return False
        elif sig[k] != v:
            return False
    return True


# --------------------------------------------------------------------------- one run

class Run:
    def __init__(self, prop, tier, seed):
        self.prop, self.tier, self.seed = prop, tier, seed
        self.rng = random.Random(seed * 1000003 + int(prop[1:]))
        self.t0 = time.time()
        self.lean = None
        self.evaluations = 0
        self.nontrivial = set()
        self.samples = []
        self.distribution = {}
        self.disagreements = []     # K: model vs code  (dicts with 'case', 'model', 'impl')
        self.violations = []        # oracle on the real code (dicts with 'sig', 'case', 'observed')
        self.notes = []
        self.extra = {}
        self.assumptions = []
        self.rule = ''
        self.exhaustive = False

    @property
    def thorough(self):
        return self.tier == 'thorough'

    def count(self, key, n=1):
        self.distribution[key] = self.distribution.get(key, 0) + n

    def case(self, canonical, nontrivial=True):
        """register one explored case; canonical = any JSON-able value identifying it"""
        self.evaluations += 1
        if nontrivial:
            self.nontrivial.add(hashlib.sha1(json.dumps(canonical, sort_keys=True, default=str).encode()).digest()[:8])
        if len(self.samples) < 5:
            self.samples.append(canonical)

    def disagree(self, case, model, impl, what=''):
        self.disagreements.append({'what': what, 'case': case, 'model': model, 'impl': impl})

    def violate(self, sig, case, observed):
        """the PROPERTY fails on the real code for `case`; sig classifies it for known-finding matching"""
        self.violations.append({'sig': sig, 'case': case, 'observed': observed})


def write_replay(prop, payload):
    d = os.path.join(VERIF, 'replays')
    os.makedirs(d, exist_ok=True)
    blob = json.dumps(payload, sort_keys=True, default=str, indent=1)
    name = '%s-%s.json' % (prop, hashlib.sha1(blob.encode()).hexdigest()[:10])
    path = os.path.join(d, name)
    with open(path, 'w') as f:
        f.write(blob)
    return path


def finish(run, search=None):
    """verdict (DESIGN §5), evidence file, exit code"""
    prop = run.prop
    known = load_known_all()
    exit_code = 0
    lines = []
    hit = {}
    unmatched = []
    for v in run.violations:
        f = next((f for f in known if matches(f, prop, v['sig'])), None)
        if f is not None:
            hit.setdefault(f['id'], (f, 0))
            hit[f['id']] = (f, hit[f['id']][1] + 1)
        else:
            unmatched.append(v)
    for fid, (f, n) in sorted(hit.items()):
        lines.append('KNOWN-FINDING: property=%s %s [%s, %d case(s) this run]' % (prop, f['what'], fid, n))
    proof_broken = run.lean is not None and not run.lean.ok
    k_broken = bool(run.disagreements)
    if unmatched:
        # distinct signatures, one VIOLATION line each (first replay per signature)
        seen = set()
        for v in unmatched:
            key = json.dumps(v['sig'], sort_keys=True, default=str)
            if key in seen:
                continue
            seen.add(key)
            path = write_replay(prop, {'property': prop, 'kind': 'failing-input', 'sig': v['sig'],
                                       'case': v['case'], 'observed': v['observed'], 'seed': run.seed})
            lines.append('VIOLATION property=%s replay=%s' % (prop, path))
        exit_code = 1
    elif proof_broken or k_broken:
        found = None
        if search is not None:
            try:
                found = search(run)       # may add to run.violations; returns list of new unmatched violations
            except Exception:
                run.notes.append('search crashed: ' + traceback.format_exc()[-800:])
        new_unmatched = []
        for v in (found or []):
            f = next((f for f in known if matches(f, prop, v['sig'])), None)
            if f is None:
                new_unmatched.append(v)
        if new_unmatched:
            v = new_unmatched[0]
            path = write_replay(prop, {'property': prop, 'kind': 'failing-input', 'sig': v['sig'],
                                       'case': v['case'], 'observed': v['observed'], 'seed': run.seed,
                                       'found_by': 'search after broken proof/correspondence'})
            lines.append('VIOLATION property=%s replay=%s' % (prop, path))
        else:
            payload = {'property': prop, 'kind': 'no-failing-input-found', 'seed': run.seed,
                       'proof_obligations_broken': run.lean.broken_what() if run.lean else [],
                       'correspondence_disagreements': run.disagreements[:5],
                       'n_disagreements': len(run.disagreements)}
            path = write_replay(prop, payload)
            lines.append('VIOLATION property=%s replay=%s no-failing-input-found' % (prop, path))
        exit_code = 1
    write_evidence(run, exit_code, sorted(hit))
    for l in lines:
        print(l)
    if exit_code == 0:
        print('OK property=%s tier=%s seed=%d theorems=%d K-cases=%d nontrivial=%d wall=%.1fs' % (
            prop, run.tier, run.seed, len(run.lean.theorems) if run.lean else 0, run.evaluations,
            len(run.nontrivial), time.time() - run.t0))
    sys.stdout.flush()
    return exit_code


def write_evidence(run, exit_code, known_hit):
    lean = run.lean
    n_ob = len(lean.theorems) if lean else 0
    n_ok = 0
    if lean and lean.build_ok:
        n_ok = sum(1 for n, ax in lean.theorems.items() if ax is not None and n not in lean.bad_axioms)
        if lean.hygiene:
            n_ok = 0
    ev = {
        'property_id': run.prop,
        'tier': run.tier,
        'seed': run.seed,
        'level': 'proof',
        'coverage': {
            'obligations': max(n_ob, 1),
            'discharged': n_ok,
            'checker_cmd': 'cd lean && lake build Proofs.Props.%s drv_%s  &&  #print axioms audit of every theorem '
                           '(harness/common.py: lean_check)' % (run.prop, run.prop.lower())
                           + ('  &&  lake env leanchecker <modules>' if run.thorough else ''),
            'trusted_base': TRUSTED_BASE_COMMON + run.assumptions,
            'theorems': {k: v for k, v in (lean.theorems.items() if lean else [])},
            'lean_files': lean.files if lean else [],
            'lean_wall_s': round(lean.wall_s, 2) if lean else None,
            'leanchecker': lean.leanchecker if lean else None,
            'generated_tables': lean.extract_report if lean else {},
            'evaluations': max(run.evaluations, 0),
            'distinct_nontrivial': len(run.nontrivial),
            'rule': run.rule,
            'samples': run.samples[:5] or ['(no correspondence case was run)'],
            'exhaustive': run.exhaustive,
            'correspondence': {'disagreements': len(run.disagreements),
                               'first': run.disagreements[:2]},
            'oracle': {'violations': len(run.violations), 'known_findings_hit': known_hit},
            'distribution': run.distribution,
            'notes': run.notes,
        },
        'assumptions': run.assumptions,
        'wall_s': round(time.time() - run.t0, 2),
        'violations': len(run.violations) - 0 if exit_code else 0,
    }
    ev['coverage'].update(run.extra)
    os.makedirs(os.path.join(VERIF, 'evidence'), exist_ok=True)
    path = os.path.join(VERIF, 'evidence', run.prop + '.json')
    with open(path, 'w') as f:
        json.dump(ev, f, indent=1, sort_keys=True, default=str)


def main(mod, argv):
    """entry used by ./check:  argv = [--tier quick|thorough] [--replay file]"""
    tier = os.environ.get('VERIF_TIER', 'quick')
    replay = None
    i = 0
    while i < len(argv):
        if argv[i] == '--tier':
            tier = argv[i + 1]; i += 2
        elif argv[i] == '--replay':
            replay = argv[i + 1]; i += 2
        else:
            i += 1
    seed = int(os.environ.get('VERIF_SEED', '1'))
    if replay:
        use_repo()
        with open(replay) as f:
            payload = json.load(f)
        if payload.get('kind') == 'no-failing-input-found' or not hasattr(mod, 'replay'):
            print(json.dumps(payload, indent=1)[:4000])
            return 1
        ok, msg = mod.replay(payload)
        print(msg)
        return 0 if ok else 1
    run = Run(mod.PROP, tier, seed)
    try:
        run.lean = lean_check(mod.PROP, thorough=(tier == 'thorough'))
        use_repo()
        if run.lean.build_ok:
            mod.run(run)
        else:
            # no model to compare with: still evaluate the property oracle on the real code
            if hasattr(mod, 'oracle_only'):
                mod.oracle_only(run)
        return finish(run, getattr(mod, 'search', None))
    except Exception:
        traceback.print_exc()
        print('TOOL-FAILURE property=%s (exit 2, not a verdict)' % mod.PROP)
        return 2


# --------------------------------------------------------------------------- utilities for per-property modules

def load_known_all():
    """known_findings.json plus per-property fragments known_findings.d/*.json (merged view)"""
    out = list(load_known())
    d = os.path.join(VERIF, 'known_findings.d')
    if os.path.isdir(d):
        for fn in sorted(os.listdir(d)):
            if fn.endswith('.json'):
                with open(os.path.join(d, fn)) as f:
                    out += json.load(f).get('findings', [])
    return out


def shrink_list(items, still_fails, max_rounds=200):
    """delta-debugging on a list: smallest sub-list (order kept) for which still_fails(sub) is True"""
    items = list(items)
    n = 2
    rounds = 0
    while len(items) >= 2 and rounds < max_rounds:
        rounds += 1
        chunk = max(1, len(items) // n)
        reduced = False
        for i in range(0, len(items), chunk):
            cand = items[:i] + items[i + chunk:]
            if cand and still_fails(cand):
                items = cand
                n = max(n - 1, 2)
                reduced = True
                break
        if not reduced:
            if chunk == 1:
                break
            n = min(n * 2, len(items))
    return items


def pmap(func, items, procs=None, chunksize=8):
    """order-preserving parallel map over picklable items with a fork pool (func must be module-level)"""
    import multiprocessing as mp
    procs = procs or min(12, os.cpu_count() or 4)
    if procs <= 1 or len(items) < 2 * procs:
        return [func(x) for x in items]
    ctx = mp.get_context('fork')
    with ctx.Pool(procs) as pool:
        return pool.map(func, items, chunksize)


def exc_json(e):
    """canonical outcome for an exception raised by the real code: class name (+ CIM status), never message text"""
    try:
        import pywbem
        if isinstance(e, pywbem.CIMError):
            return {'exc': 'CIMError', 'code': e.status_code}
    except Exception:
        pass
    return {'exc': type(e).__name__}


def cps(s):
    """python str -> list of code points (how strings travel on the line protocol)"""
    return [ord(c) for c in s]


def from_cps(a):
    return ''.join(chr(c) for c in a)
