"""C20 — ValueMapping implements the DSP0004 ValueMap/Values semantics.

K: the Lean model (Model/ValueMap.lean, Model/IntLit.lean through drv_c20) and the real
pywbem.ValueMapping (built through for_property/for_method/for_parameter on a mock connection) are run
on the same generated qualifier pairs; construction outcome, items(), tobinary() and tovalues() for every
value of the type (8-bit: always, 16-bit: thorough) are diffed.
Oracle: an independent reading of the property statement (hand-written DSP0004 entry parser without
regular expressions, neighbour/type-limit resolution, priority exact > range > unclaimed) evaluated on
the real outputs only.
"""
import json
import random

import common

PROP = 'C20'

INT_TYPES = {
    'uint8': (0, 2 ** 8 - 1), 'sint8': (-2 ** 7, 2 ** 7 - 1),
    'uint16': (0, 2 ** 16 - 1), 'sint16': (-2 ** 15, 2 ** 15 - 1),
    'uint32': (0, 2 ** 32 - 1), 'sint32': (-2 ** 31, 2 ** 31 - 1),
    'uint64': (0, 2 ** 64 - 1), 'sint64': (-2 ** 63, 2 ** 63 - 1),
}
OTHER_TYPES = ['string', 'boolean', 'real32', 'real64', 'datetime', 'char16']
SCOPES = dict(CLASS=False, ASSOCIATION=False, INDICATION=False, PROPERTY=True, REFERENCE=False,
              METHOD=True, PARAMETER=True, ANY=False)

# ----------------------------------------------------------------------------- oracle (independent of pywbem)

_DEC = '0123456789'
_HEX = '0123456789abcdefABCDEF'


def _acc(digits, base):
    n = 0
    for c in digits:
        n = n * base + _HEX.index(c.lower() if c.isalpha() else c)
    return n


def dsp_int(s, octal_zero=True):
    """DSP0004 integerValue -> int, or None.  octal_zero=False = the grammar without octal literals that
    contain the digit 0 after the leading 0 (what pywbem currently recognises; known finding C20-KF1)."""
    if not s:
        return None
    neg = False
    body = s
    if s[0] in '+-':
        neg = s[0] == '-'
        body = s[1:]
    if not body:
        return None
    val = None
    if body[-1] in 'bB' and len(body) > 1 and all(c in '01' for c in body[:-1]):
        val = _acc(body[:-1], 2)                                  # binaryValue
    elif len(body) > 2 and body[0] == '0' and body[1] in 'xX' and all(c in _HEX for c in body[2:]):
        val = _acc(body[2:], 16)                                  # hexValue
    elif body == '0':
        val = 0                                                   # decimalValue "0"
    elif body[0] == '0' and all(c in '01234567' for c in body[1:]):
        if not octal_zero and '0' in body[1:]:
            return None
        val = _acc(body[1:], 8)                                   # octalValue
    elif body[0] in '123456789' and all(c in _DEC for c in body[1:]):
        val = _acc(body, 10)                                      # decimalValue
    if val is None:
        return None
    return -val if neg else val


def parse_entry(s, octal_zero=True):
    """-> ('u',) | ('s', n) | ('r', lo|None, hi|None) | None (malformed)"""
    if s == '..':
        return ('u',)
    k = s.find('..')
    if k < 0:
        n = dsp_int(s, octal_zero)
        return None if n is None else ('s', n)
    a, b = s[:k], s[k + 2:]
    lo = None if a == '' else dsp_int(a, octal_zero)
    hi = None if b == '' else dsp_int(b, octal_zero)
    if (a != '' and lo is None) or (b != '' and hi is None):
        return None
    return ('r', lo, hi)


def resolve(entries, typ):
    """spans per entry: None for unclaimed, (lo, hi, syntactic_single) else; returns None if an open end
    faces an entry that offers no closed end"""
    tmin, tmax = INT_TYPES[typ]
    out = []
    n = len(entries)
    for i, e in enumerate(entries):
        if e[0] == 'u':
            out.append(None)
            continue
        if e[0] == 's':
            out.append((e[1], e[1], True))
            continue
        lo, hi = e[1], e[2]
        if lo is None:
            if i == 0:
                lo = tmin
            else:
                p = entries[i - 1]
                if p[0] == 's':
                    lo = p[1] + 1
                elif p[0] == 'r' and p[2] is not None:
                    lo = p[2] + 1
                else:
                    return None
        if hi is None:
            if i == n - 1:
                hi = tmax
            else:
                p = entries[i + 1]
                if p[0] == 's':
                    hi = p[1] - 1
                elif p[0] == 'r' and p[1] is not None:
                    hi = p[1] - 1
                else:
                    return None
        out.append((lo, hi, False))
    return out


def expect(case, octal_zero=True):
    """what the property statement demands for this case:
       ('exc', {allowed class names}, reason) or ('ok', spans, values)"""
    lk = case.get('lookup') or {}
    if lk.get('cls', 'ok') != 'ok':
        return ('exc', {'CIMError'}, 'class_not_retrievable')
    want = {'property': ['P'], 'method': ['M'], 'parameter': ['M', 'A']}[case['kind']]
    names = lk.get('names', want)
    if [n.casefold() for n in names] != [n.casefold() for n in want]:
        # the only other elements of the generated class are decoys without the case's qualifiers: a name that
        # folds to a decoy is generated only as 'missing' (see gen_lookup), so any mismatch = no such element
        return ('exc', {'KeyError'}, 'no_such_element')
    if case['typ'] not in INT_TYPES:
        return ('exc', {'ModelError'}, 'not_integer_typed')
    if case['values'] is None and not case.get('values_null'):
        return ('exc', {'ValueError'}, 'no_values_qualifier')
    if case.get('values_null') or case.get('valuemap_null'):
        return ('exc', {'ModelError', 'ValueError'}, 'null_qualifier_value')
    values = list(case['values'])
    vmap = case['valuemap']
    if vmap is None:
        vmap = [str(i) for i in range(len(values))]
    if len(vmap) != len(values):
        if case['vd'] is None:
            return ('exc', {'ModelError'}, 'size_mismatch')
        if len(vmap) > len(values):
            values = values + [case['vd']] * (len(vmap) - len(values))
        else:
            values = values[:len(vmap)]
    if case.get('valuemap_none_at'):
        return ('exc', {'ModelError', 'ValueError'}, 'null_valuemap_element')
    entries = [parse_entry(s, octal_zero) for s in vmap]
    if any(e is None for e in entries):
        return ('exc', {'ModelError'}, 'malformed_entry')
    spans = resolve(entries, case['typ'])
    if spans is None:
        return ('exc', {'ModelError'}, 'open_ends_face_each_other')
    return ('ok', spans, values)


def acceptable(spans, values, v, loose=False):
    """set of Values strings the statement allows for v, or None for ValueError.
    Among overlapping proper ranges the FIRST enclosing one in qualifier order claims v (DESIGN §8 `claims`,
    quantifier "overlapping and unordered entries"); ties the statement leaves open stay open: repeated exact
    entries, a degenerate range "3..3" vs an enclosing proper range, repeated unclaimed markers.
    loose=True: every enclosing range (used only to label a violation)."""
    syn = [values[i] for i, s in enumerate(spans) if s is not None and s[2] and s[0] == v]
    deg = [values[i] for i, s in enumerate(spans) if s is not None and not s[2] and s[0] == s[1] == v]
    rng = [values[i] for i, s in enumerate(spans) if s is not None and s[0] != s[1] and s[0] <= v <= s[1]]
    unc = [values[i] for i, s in enumerate(spans) if s is None]
    if syn:
        return set(syn + deg), 'exact'
    if deg or rng:
        return set(deg + (rng if loose else rng[:1])), 'range'
    if unc:
        return set(unc), 'unclaimed'
    return None, 'none'


def norm_bin(b):
    """items()/tobinary() value -> canonical span: None | (lo, hi)"""
    if b is None:
        return None
    if isinstance(b, list):
        return (int(b[0]), int(b[1]))
    return (int(b), int(b))


def out_str(o):
    """tovalues outcome from the canonical JSON: python str, or ('exc', name)"""
    if isinstance(o, dict):
        return ('exc', o['exc'])
    return common.from_cps(o)


def oracle(run, case, real):
    """evaluate the property on the REAL outputs.  Violations carry a precise signature."""
    exp = expect(case)
    kf_exp = expect(case, octal_zero=False)
    cause = 'octal_literal_with_digit_0' if (exp[0] == 'ok' and kf_exp[0] == 'exc') else 'other'
    if exp[0] == 'exc':
        if 'ok' in real:
            run.violate({'kind': 'ctor_accepts_malformed', 'why': exp[2]}, case, {'items': real['ok']['items']})
        elif exp[2] == 'class_not_retrievable':
            if real != case.get('getclass'):
                run.violate({'kind': 'factory_does_not_pass_connection_error_through'}, case,
                            {'getclass': case.get('getclass'), 'got': real})
        elif exp[2] == 'no_such_element':
            if real['exc'] != 'KeyError':
                run.violate({'kind': 'factory_missing_element_not_KeyError', 'exc': real['exc']}, case, real)
        elif real['exc'] not in ('ModelError', 'ValueError'):
            run.violate({'kind': 'ctor_leak', 'exc': real['exc'], 'why': exp[2]}, case, real)
        elif real['exc'] not in exp[1]:
            run.violate({'kind': 'ctor_wrong_error', 'exc': real['exc'], 'why': exp[2]}, case, real)
        return exp[2]
    _, spans, values = exp
    if 'exc' in real:
        if real['exc'] in ('ModelError', 'ValueError'):
            run.violate({'kind': 'ctor_rejects_valid', 'exc': real['exc'], 'cause': cause}, case, real)
        else:
            run.violate({'kind': 'ctor_leak', 'exc': real['exc'], 'why': 'valid_input',
                         'valuemap_entries_ge_900': len(case['valuemap'] or []) >= 900}, case, real)
        return 'rejected'
    r = real['ok']
    # items(): every entry, in qualifier order
    got_items = [(norm_bin(b), common.from_cps(s)) for b, s in r['items']]
    want_items = [(None if s is None else (s[0], s[1]), values[i]) for i, s in enumerate(spans)]
    if got_items != want_items:
        same_strings = [s for _, s in got_items] == [s for _, s in want_items]
        run.violate({'kind': 'items_wrong_resolved_value_or_range' if same_strings
                     else 'items_not_entries_in_qualifier_order',
                     'dup_values': len(set(values)) != len(values)}, case,
                    {'items': [[list(b) if b else None, s] for b, s in got_items],
                     'expected': [[list(b) if b else None, s] for b, s in want_items]})
    # tovalues(v) for every probed v
    pts = []
    if r['scan'] is not None and case['scan'] is not None:
        v = case['scan'][0]
        for n, o in r['scan']:
            o = out_str(o)
            for _ in range(n):
                pts.append((v, o))
                v += 1
    pts += list(zip(case['vs'], [out_str(o) for o in r['tv']]))
    tv = {}
    for v, o in pts:
        tv[v] = o
        acc, how = acceptable(spans, values, v)
        if acc is None:
            if o != ('exc', 'ValueError'):
                run.violate({'kind': 'tovalues_unclaimed_value_not_ValueError',
                             'got': o[1] if isinstance(o, tuple) else 'str'}, case, {'v': v, 'got': o})
                break
        elif isinstance(o, tuple):
            run.violate({'kind': 'tovalues_raises_for_claimed_value', 'exc': o[1], 'claimed_by': how}, case,
                        {'v': v, 'got': o, 'acceptable': sorted(acc)})
            break
        elif o not in acc:
            if o in acceptable(spans, values, v, loose=True)[0]:
                run.violate({'kind': 'tovalues_not_first_enclosing_range_in_qualifier_order'}, case,
                            {'v': v, 'got': o, 'first_enclosing': sorted(acc)})
            else:
                run.violate({'kind': 'tovalues_wrong_entry', 'claimed_by': how}, case,
                            {'v': v, 'got': o, 'acceptable': sorted(acc)})
            break
    # tobinary(s)
    for s, o in zip(case['strs'], r['tb']):
        holders = [None if sp is None else (sp[0], sp[1]) for i, sp in enumerate(spans) if values[i] == s]
        if not holders:
            if o != {'exc': 'ValueError'}:
                run.violate({'kind': 'tobinary_unknown_string_not_ValueError'}, case, {'s': s, 'got': o})
            continue
        if 'exc' in o:
            run.violate({'kind': 'tobinary_raises_for_values_string', 'exc': o['exc']}, case, {'s': s, 'got': o})
            continue
        b = norm_bin(o['b'])
        if b not in holders:
            run.violate({'kind': 'tobinary_not_an_entry_of_that_string'}, case,
                        {'s': s, 'got': o, 'entries': [list(h) if h else None for h in holders]})
            continue
        if b is not None:
            # members map back to s unless another entry has priority for them
            for v in range(b[0], min(b[1], b[0] + 400) + 1):
                if v in tv and tv[v] != s:
                    acc, _ = acceptable(spans, values, v, loose=True)
                    if acc == {s}:
                        run.violate({'kind': 'tobinary_member_does_not_map_back'}, case, {'s': s, 'v': v, 'got': tv[v]})
                        break
    # argument forms of tovalues(): None, list/tuple (item-wise, first failing item decides), bool and CIMInt are
    # ints, anything else TypeError; tobinary(): only str
    def exp_scalar(x):
        if isinstance(x, dict) and ('int' in x or 'cimint' in x or 'bool' in x):
            v = int(x.get('int', x.get('cimint', 0))) if 'bool' not in x else int(bool(x['bool']))
            acc, _ = acceptable(spans, values, v)
            return ('exc', 'ValueError') if acc is None else acc
        return ('exc', 'TypeError')
    for a, o in zip(case.get('args', []), r.get('args', [])):
        if a is None:
            ok = o is None
        elif isinstance(a, dict) and 'list' in a:
            exps = [exp_scalar(x) for x in a['list']]
            bad = next((e for e in exps if isinstance(e, tuple)), None)
            if bad is not None:
                ok = o == {'exc': bad[1]}
            else:
                ok = isinstance(o, dict) and 'list' in o and len(o['list']) == len(exps) and \
                    all(common.from_cps(g) in e for g, e in zip(o['list'], exps))
        else:
            e = exp_scalar(a)
            ok = (o == {'exc': e[1]}) if isinstance(e, tuple) else (isinstance(o, list) and common.from_cps(o) in e)
        if not ok:
            run.violate({'kind': 'tovalues_argument_form', 'form': 'None' if a is None else
                         ('list' if isinstance(a, dict) and 'list' in a else 'scalar')}, case, {'arg': a, 'got': o})
            break
    for a, o in zip(case.get('tbargs', []), r.get('tbargs', [])):
        if isinstance(a, dict) and 'str' in a:
            holders = [1 for i, sp in enumerate(spans) if values[i] == a['str']]
            ok = ('b' in o) if holders else (o == {'exc': 'ValueError'})
        else:
            ok = o == {'exc': 'TypeError'}
        if not ok:
            run.violate({'kind': 'tobinary_argument_form'}, case, {'arg': a, 'got': o})
            break
    return 'ok'


# ----------------------------------------------------------------------------- real side

DECOY_Q = {'Values': ('arr', ['dq0', 'dq1', 'dq2']), 'ValueMap': ('arr', ['7', '8..9', '..'])}


def vmap_items(case):
    """the ValueMap array as delivered: the strings of the case, None at the positions `valuemap_none_at`"""
    na = case.get('valuemap_none_at') or []
    return [None if i in na else x for i, x in enumerate(case['valuemap'])]


def class_desc(case):
    """the CIM class of a case as plain data (used for the real objects AND for the model request):
       {'props': [(name, elem)], 'methods': [(name, elem, [(pname, elem)])]},
       elem = {'typ', 'is_array', 'quals': [(qualifier name, None | ('arr', [str]) | ('scalar', str))]}"""
    qn = case.get('qnames') or {}
    quals = []
    if case['valuemap'] is not None or case.get('valuemap_null'):
        v = None if case.get('valuemap_null') else \
            (('scalar', ''.join(case['valuemap'])) if case.get('valuemap_scalar') else ('arr', vmap_items(case)))
        quals.append((qn.get('ValueMap', 'ValueMap'), v))
    if case['values'] is not None or case.get('values_null'):
        v = None if case.get('values_null') else \
            (('scalar', ''.join(case['values'])) if case.get('values_scalar') else ('arr', list(case['values'])))
        quals.append((qn.get('Values', 'Values'), v))
    if case.get('quals_reversed'):
        quals.reverse()
    typ, arr = case['typ'], case['is_array']
    target = {'typ': typ, 'is_array': arr, 'quals': quals}
    plain = {'typ': 'uint32', 'is_array': False, 'quals': []}
    decoy = {'typ': 'uint8', 'is_array': False, 'quals': list(DECOY_Q.items())}
    props, meths = [], []
    d = bool(case.get('decoys'))
    first = bool(case.get('decoy_first'))
    if case['kind'] == 'property':
        props = [('P', target)]
        meths = [('M', plain, [])]
        if d:
            props = ([('Q', decoy)] + props) if first else (props + [('Q', decoy)])
            props.append(('PP', dict(decoy, typ='string')))
            meths = [('M', dict(decoy), [('P', decoy)])]      # same names in other dictionaries must not matter
    elif case['kind'] == 'method':
        meths = [('M', target, [])]
        if d:
            meths = [('M', target, [('M', decoy), ('A', decoy)])]
            meths = ([('N', decoy, [])] + meths) if first else (meths + [('N', decoy, [])])
            props = [('M', decoy)]
    else:
        meths = [('M', plain, [('A', target)])]
        if d:
            ps = ([('B', decoy), ('A', target)]) if first else ([('A', target), ('B', decoy)])
            meths = [('M', dict(decoy, typ='uint32'), ps), ('N', decoy, [('A', decoy)])]
            if first:
                meths.reverse()
            props = [('A', decoy)]
    return {'props': props, 'methods': meths}


def build_class(case):
    import pywbem

    def q(elem):
        return [pywbem.CIMQualifier(n, None if v is None else (v[1] if v[0] == 'scalar' else list(v[1])), type='string')
                for n, v in elem['quals']]
    cd = class_desc(case)
    props = [pywbem.CIMProperty(n, None, type=e['typ'], is_array=e['is_array'], qualifiers=q(e)) for n, e in cd['props']]
    meths = [pywbem.CIMMethod(n, return_type=e['typ'], qualifiers=q(e), parameters=[
        pywbem.CIMParameter(pn, type=pe['typ'], is_array=pe['is_array'], qualifiers=q(pe)) for pn, pe in ps])
        for n, e, ps in cd['methods']]
    return pywbem.CIMClass('TST_C', properties=props, methods=meths)


def mof_string(s):
    out = ['"']
    for c in s:
        if c in '"\\':
            out.append('\\' + c)
        else:
            out.append(c)
    out.append('"')
    return ''.join(out)


def mof_safe(case):
    strs = (case['values'] or []) + (case['valuemap'] or [])
    return all(all(32 <= ord(c) < 127 for c in s) for s in strs) and \
        (case['values'] is None or case['values']) and (case['valuemap'] is None or case['valuemap'])


def build_mof(case):
    ql = []
    if case.get('valuemap_null'):
        ql.append('ValueMap')
    elif case['valuemap'] is not None:
        ql.append('ValueMap{%s}' % ', '.join(mof_string(s) for s in case['valuemap']))
    if case.get('values_null'):
        ql.append('Values')
    elif case['values'] is not None:
        ql.append('Values{%s}' % ', '.join(mof_string(s) for s in case['values']))
    qs = ('[%s] ' % ', '.join(ql)) if ql else ''
    typ = case['typ']
    arr = '[]' if case['is_array'] else ''
    if case['kind'] == 'property':
        body = '%s%s P%s; uint32 M();' % (qs, typ, arr)
    elif case['kind'] == 'method':
        body = '%s%s M();' % (qs, typ)
    else:
        body = 'uint32 M(%s%s A%s);' % (qs, typ, arr)
    return ('Qualifier Values : string[], Scope(property, method, parameter);\n'
            'Qualifier ValueMap : string[], Scope(property, method, parameter);\n'
            'class TST_C { %s };\n' % body)


def enc_bin(b):
    if b is None:
        return None
    if isinstance(b, tuple):
        return [str(int(b[0])), str(int(b[1]))]
    return str(int(b))


def enc_out(f, v):
    try:
        r = f(v)
    except Exception as e:  # noqa
        return common.exc_json(e)
    if not isinstance(r, str):
        return {'notstr': repr(r)}
    return common.cps(r)


def real_eval(case):
    """the case on the real code -> canonical JSON (same shape as the driver's model part) + side checks"""
    import pywbem
    import pywbem_mock
    side = []
    try:
        conn = pywbem_mock.FakedWBEMConnection(default_namespace='root/a')
        if case.get('via') == 'mof':
            conn.compile_mof_string(build_mof(case))
        else:
            conn.add_cimobjects([
                pywbem.CIMQualifierDeclaration('Values', 'string', is_array=True, scopes=SCOPES),
                pywbem.CIMQualifierDeclaration('ValueMap', 'string', is_array=True, scopes=SCOPES)])
            conn.add_cimobjects([build_class(case)])
    except Exception as e:  # noqa  (the repository refused the class: not a ValueMapping outcome)
        return {'setup_failed': type(e).__name__ + ': ' + str(e)[:200]}, side
    server = pywbem.WBEMServer(conn) if case.get('server') else conn
    lk = case.get('lookup') or {}
    ns = None if case.get('ns_none') and case['kind'] == 'property' else 'root/a'
    if lk.get('cls') == 'badns':
        ns = 'root/nonexistent'
    cn = 'TST_Missing' if lk.get('cls') == 'missing' else ('tst_c' if lk.get('cls_lower') else 'TST_C')
    names = lk.get('names') or {'property': ['P'], 'method': ['M'], 'parameter': ['M', 'A']}[case['kind']]
    # what the connection answers for the GetClass the factory issues (input of the model)
    try:
        conn.GetClass(ClassName=cn, namespace=ns, LocalOnly=False, IncludeQualifiers=True)
        case['getclass'] = None
    except Exception as e:  # noqa
        case['getclass'] = common.exc_json(e)
    kw = {}
    if case['vd'] is not None or case.get('pass_vd_none'):
        kw['values_default'] = case['vd']
    try:
        if case['kind'] == 'property':
            vm = pywbem.ValueMapping.for_property(server, ns, cn, names[0], **kw)
        elif case['kind'] == 'method':
            vm = pywbem.ValueMapping.for_method(server, ns, cn, names[0], **kw)
        else:
            vm = pywbem.ValueMapping.for_parameter(server, ns, cn, names[0], names[1], **kw)
    except Exception as e:  # noqa
        return common.exc_json(e), side
    try:
        items = [[enc_bin(b), common.cps(s)] for b, s in vm.items()]
    except Exception as e:  # noqa
        return {'exc_items': type(e).__name__}, side
    tv = [enc_out(vm.tovalues, v) for v in case['vs']]
    scan = None
    if case['scan'] is not None:
        scan = []
        cur, cnt = None, 0
        for v in range(case['scan'][0], case['scan'][1] + 1):
            o = enc_out(vm.tovalues, v)
            if cnt and o == cur:
                cnt += 1
            else:
                if cnt:
                    scan.append([cnt, cur])
                cur, cnt = o, 1
        if cnt:
            scan.append([cnt, cur])
    tb = []
    for s in case['strs']:
        try:
            tb.append({'b': enc_bin(vm.tobinary(s))})
        except Exception as e:  # noqa
            tb.append(common.exc_json(e))
    # side checks of the public call forms (list/tuple argument, CIMInt argument, None)
    try:
        vs = [v for v in case['vs'][:6]]
        singles = [enc_out(vm.tovalues, v) for v in vs]
        if all(not isinstance(o, dict) for o in singles) and vs:
            if [common.cps(s) for s in vm.tovalues(list(vs))] != singles or \
                    [common.cps(s) for s in vm.tovalues(tuple(vs))] != singles:
                side.append('tovalues_list_differs_from_single_calls')
        if vm.tovalues(None) is not None:
            side.append('tovalues_None_not_None')
        lo, hi = INT_TYPES[case['typ']]
        ct = pywbem.type_from_name(case['typ'])
        for v in vs:
            if lo <= v <= hi and enc_out(vm.tovalues, ct(v)) != enc_out(vm.tovalues, v):
                side.append('tovalues_CIMInt_differs_from_int')
    except Exception as e:  # noqa
        side.append('side_check_crashed:' + type(e).__name__)
    args = []
    for a in case.get('args', []):
        try:
            r = vm.tovalues(py_arg(a, case['typ']))
            if r is None:
                args.append(None)
            elif isinstance(r, str):
                args.append(common.cps(r))
            elif isinstance(r, list) and all(isinstance(x, str) for x in r):
                args.append({'list': [common.cps(x) for x in r]})
            else:
                args.append({'odd': repr(r)[:80]})
        except Exception as e:  # noqa
            args.append(common.exc_json(e))
    tbargs = []
    for a in case.get('tbargs', []):
        try:
            tbargs.append({'b': enc_bin(vm.tobinary(py_scalar(a, case['typ'])))})
        except Exception as e:  # noqa
            tbargs.append(common.exc_json(e))
    return {'ok': {'items': items, 'tv': tv, 'scan': scan, 'tb': tb, 'args': args, 'tbargs': tbargs}}, side


def py_scalar(a, typ):
    import pywbem
    if a is None:
        return None
    if a == 'other':
        return 1.5
    if 'int' in a:
        return int(a['int'])
    if 'cimint' in a:
        return pywbem.type_from_name(typ)(int(a['cimint']))
    if 'bool' in a:
        return bool(a['bool'])
    if 'str' in a:
        return a['str']
    raise ValueError(a)


def py_arg(a, typ):
    if isinstance(a, dict) and 'list' in a:
        xs = [[1] if x == 'nested' else py_scalar(x, typ) for x in a['list']]
        return tuple(xs) if a.get('tuple') else xs
    return py_scalar(a, typ)


# ----------------------------------------------------------------------------- generators

def lit(rng, n, stats=None):
    """integer n in a random DSP0004 notation"""
    r = rng.random()
    sign = '-' if n < 0 else ('+' if rng.random() < 0.15 else '')
    a = abs(n)
    if r < 0.55:
        nota, body = 'dec', str(a)
    elif r < 0.70:
        nota, body = 'hex', rng.choice(['0x', '0X']) + (('%x' if rng.random() < 0.5 else '%X') % a)
        if rng.random() < 0.2:
            body = body[:2] + '0' + body[2:]
    elif r < 0.85:
        nota, body = 'bin', bin(a)[2:] + rng.choice('bB')
        if rng.random() < 0.2:
            body = '0' + body
    else:
        nota, body = 'oct', '0' + oct(a)[2:] if a else '0'
        if '0' in body[1:] and rng.random() < 0.8:      # octal with a digit 0 hits known finding C20-KF1: keep it rare
            nota, body = 'dec', str(a)
    if stats is not None:
        stats.append('notation:' + nota)
    return sign + body


NEAR_MISS = ['', ' ', '1 ', ' 1', '1..5 ', '1...5', '....', '...', '1..2..3', '..5..', '0x', '0b', 'b', '+', '-', '+-1',
             '--1', '1e3', '1.5', '08', '09', '0x1G', '12A', '1102b', '1_0', '٣', '１', '1\n', '\n1', '1..5\n', '..\n',
             '\n..', '1\n..5', '0o17', '0B1', 'x10', '1b1', '1..b', 'a..5', '..+', '5..-', '1 .. 5', '1. .5', '²',
             '0x..5', '00', '-0', '+0', '0..', '..0', '-..5', '1..-', '+1..+5', '-5..-1', '010', '0100', '007', '-010']


def anchors(typ, rng):
    lo, hi = INT_TYPES[typ]
    pts = [lo, hi, 0, lo + 1, hi - 1]
    if hi - lo > 300:
        mid = rng.randint(lo, hi)
        pts += [mid, rng.randint(lo, hi)]
    return pts


def gen_valuemap(rng, typ, stats):
    lo, hi = INT_TYPES[typ]
    r = rng.random()
    small = hi - lo < 300

    def near(a, spread=12):
        return a + rng.randint(-spread, spread)

    if r < 0.40:
        stats.append('style:partition')
        # consecutive entries along an increasing sequence of cut points
        start = rng.choice([lo, lo, near(rng.choice(anchors(typ, rng)), 6), lo - 2])
        n = rng.randint(1, 8)
        cur = start
        ents = []
        for k in range(n):
            w = rng.choice([0, 0, 1, 2, 5, 20 if small else 1000])
            a, b = cur, cur + w
            form = rng.random()
            if w == 0 and form < 0.7:
                ents.append(lit(rng, a, stats))
            elif form < 0.45:
                ents.append(lit(rng, a, stats) + '..' + lit(rng, b, stats))
            elif form < 0.70:
                ents.append('..' + lit(rng, b, stats))
            elif form < 0.92:
                ents.append(lit(rng, a, stats) + '..')
            else:
                ents.append(lit(rng, a, stats))
            if len(ents) >= 2 and ents[-2].endswith('..') and ents[-1].startswith('..') and rng.random() < 0.85:
                ents[-1] = lit(rng, a, stats) + ents[-1]     # mostly avoid open ends facing each other here
            cur = b + 1 + rng.choice([0, 0, 0, 1, 3])
            if cur > hi + 3:
                break
        if rng.random() < 0.35:
            ok = [k for k in range(len(ents) + 1)
                  if not (k > 0 and ents[k - 1].endswith('..')) and not (k < len(ents) and ents[k].startswith('..'))]
            ents.insert(rng.choice(ok) if ok and rng.random() < 0.85 else rng.randint(0, len(ents)), '..')
        if rng.random() < 0.1:
            rng.shuffle(ents)
        return ents
    if r < 0.65:
        stats.append('style:random')
        n = rng.randint(1, 7)
        ents = []
        pts = anchors(typ, rng)
        for k in range(n):
            a = near(rng.choice(pts))
            b = a + rng.choice([0, 1, 2, 7, -1, -3, 30])
            f = rng.random()
            if f < 0.35:
                ents.append(lit(rng, a, stats))
            elif f < 0.60:
                ents.append(lit(rng, a, stats) + '..' + lit(rng, b, stats))
            elif f < 0.75:
                ents.append('..' + lit(rng, b, stats))
            elif f < 0.90:
                ents.append(lit(rng, a, stats) + '..')
            else:
                ents.append('..')
        if rng.random() < 0.2 and ents:
            ents.append(rng.choice(ents))          # duplicate entry
        return ents
    if r < 0.77:
        stats.append('style:open-chains')
        a = near(rng.choice(anchors(typ, rng)))
        k = rng.random()
        if k < 0.2:
            return [lit(rng, a, stats) + '..', '..' + lit(rng, a + 5, stats)]
        if k < 0.35:
            return ['..', '..' + lit(rng, a, stats)] + ([lit(rng, a + 3, stats)] if rng.random() < 0.5 else [])
        if k < 0.5:
            return ([lit(rng, a - 3, stats)] if rng.random() < 0.5 else []) + [lit(rng, a, stats) + '..', '..']
        if k < 0.7:
            return ['..' + lit(rng, a + 3 * i, stats) for i in range(rng.randint(2, 6))]
        if k < 0.9:
            return [lit(rng, a + 3 * i, stats) + '..' for i in range(rng.randint(2, 6))]
        return ['..' + lit(rng, a, stats), '..', lit(rng, a + 9, stats) + '..']
    if r < 0.93:
        stats.append('style:malformed')
        base = gen_valuemap(rng, typ, [])
        if not base:
            base = ['1']
        i = rng.randrange(len(base))
        k = rng.random()
        if k < 0.5:
            base[i] = rng.choice(NEAR_MISS)
        else:
            s = base[i]
            pos = rng.randint(0, len(s))
            ch = rng.choice(['.', ' ', 'x', 'b', '8', '9', '0', 'g', '-', '+', '\n', '_', 'é', 'F'])
            m = rng.random()
            if m < 0.4:
                s = s[:pos] + ch + s[pos:]
            elif m < 0.7 and s:
                s = s[:max(pos - 1, 0)] + s[max(pos - 1, 0) + 1:]
            elif s:
                s = s[:max(pos - 1, 0)] + ch + s[max(pos - 1, 0) + 1:]
            base[i] = s
        return base
    stats.append('style:edge')
    return rng.choice([[], ['..'], ['..', '..'], [lit(rng, lo, stats)], [lit(rng, hi, stats) + '..'],
                       ['..' + lit(rng, lo, stats)], [lit(rng, lo - 1, stats) + '..' + lit(rng, hi + 1, stats)],
                       ['..' + lit(rng, hi, stats), '..'], ['..', lit(rng, lo, stats) + '..']])


VALUE_POOL = ['zero', 'one', 'Other', 'Unknown', 'DMTF Reserved', 'Vendor Reserved', 'OK', '', 'a..b', '..', 'Ünï',
              'x"y', 'back\\slash', 'two words', '42']


def gen_case(rng, thorough, stats=None):
    stats = stats if stats is not None else []
    r = rng.random()
    if r < 0.06:
        typ = rng.choice(OTHER_TYPES)
        base_typ = 'uint8'
    else:
        typ = rng.choice(['uint8', 'sint8'] * 4 + ['uint16', 'sint16'] * 2 + ['uint32', 'sint32', 'uint64', 'sint64'])
        base_typ = typ
    kind = rng.choice(['property', 'method', 'parameter'])
    is_array = kind != 'method' and rng.random() < 0.3
    if typ in ('char16',) and kind == 'method':
        typ = 'string'
    vmap = None if rng.random() < 0.07 else gen_valuemap(rng, base_typ, stats)
    n = len(vmap) if vmap is not None else rng.randint(0, 5)
    s = rng.random()
    if s < 0.70:
        nv = n
    elif s < 0.85:
        nv = max(0, n - rng.randint(1, 3))
    else:
        nv = n + rng.randint(1, 4)
    dup = rng.random() < 0.2
    values = []
    for i in range(nv):
        if dup and values and rng.random() < 0.5:
            values.append(rng.choice(values))
        elif rng.random() < 0.3:
            values.append(rng.choice(VALUE_POOL))
        else:
            values.append('v%d' % i)
    if rng.random() < 0.04:
        values = None
    vd = None
    if rng.random() < (0.6 if values is not None and nv != n else 0.15):
        vd = rng.choice(['dflt', '', 'v0', 'Unknown'])
    values_null = valuemap_null = False
    if rng.random() < 0.015:                      # NULL-valued qualifier (known finding C20-KF2)
        if rng.random() < 0.5:
            values_null, values = True, None
        else:
            valuemap_null, vmap = True, None
    case = {'kind': kind, 'typ': typ, 'is_array': is_array, 'values': values, 'valuemap': vmap, 'vd': vd,
            'values_null': values_null, 'valuemap_null': valuemap_null,
            'server': rng.random() < 0.2, 'ns_none': rng.random() < 0.2, 'pass_vd_none': rng.random() < 0.3,
            'via': 'objects', 'scan': None, 'vs': [], 'strs': []}
    # probes
    if typ in INT_TYPES:
        lo, hi = INT_TYPES[typ]
        pts = set([lo, hi, lo - 1, hi + 1, 0, 1, -1])
        for e in (vmap or []):
            for part in e.split('..'):
                n_ = dsp_int(part)
                if n_ is not None:
                    pts.update([n_ - 1, n_, n_ + 1])
        for _ in range(12):
            pts.add(rng.randint(lo, hi))
        if hi - lo < 300:
            case['scan'] = [lo - 3, hi + 3]
            pts = set(p for p in pts if not (lo - 3 <= p <= hi + 3))
        elif hi - lo < 70000 and thorough and rng.random() < 0.5:
            case['scan'] = [lo - 1, hi + 1]
            pts = set(p for p in pts if not (lo - 1 <= p <= hi + 1))
        case['vs'] = sorted(pts)
    strs = list(dict.fromkeys((values or []) + ([vd] if vd is not None else [])))
    strs.append('not a Values string')
    case['strs'] = strs[:12]
    if rng.random() < 0.08 and mof_safe(case) and typ != 'char16':
        case['via'] = 'mof'
    gen_glue(rng, case)
    return case


SWAP = [str.lower, str.upper, str.swapcase, lambda x: x]
NO_SUCH = ['Nope', 'X1', 'P_', '', ' P', 'Values', 'M.A']


def gen_glue(rng, case):
    """factory-method glue (qualifier/element name case, decoy elements, failing lookups, scalar qualifier values)
    and the argument forms of tovalues()/tobinary()"""
    mof = case['via'] == 'mof'
    if not mof:
        if rng.random() < 0.3:
            case['qnames'] = {'Values': rng.choice(['values', 'VALUES', 'vaLues']),
                              'ValueMap': rng.choice(['valuemap', 'VALUEMAP', 'Valuemap'])}
        case['quals_reversed'] = rng.random() < 0.3
        case['decoys'] = rng.random() < 0.4
        case['decoy_first'] = rng.random() < 0.5
        if rng.random() < 0.04 and case['values'] is not None:
            case['values'] = list(rng.choice(['abc', 'ab', 'xyz1', 'q']))
            case['values_scalar'] = True
            case['strs'] = list(case['values']) + ['ab']
            if case['valuemap'] is not None and rng.random() < 0.7:
                case['valuemap'] = list(rng.choice(['123', '12', '1..', '0', '1b', '..', '321 ']))
                case['valuemap_scalar'] = True
    want = {'property': ['P'], 'method': ['M'], 'parameter': ['M', 'A']}[case['kind']]
    lk = {'cls': 'ok', 'names': list(want)}
    r = rng.random()
    if not mof and rng.random() < 0.02 and case['valuemap'] and case['values'] is not None \
            and not case.get('values_null') and not case.get('valuemap_scalar') and not case.get('values_scalar'):
        # NULL element(s) inside the ValueMap array (known finding C20-KF4); compared with the model at the
        # _create_for_element level (createI), so the lookup itself is kept successful
        n = len(case['valuemap'])
        case['valuemap_none_at'] = sorted(set(rng.randrange(n) for _ in range(rng.choice([1, 1, 2]))))
        r = 0.9
    if r < 0.03:
        lk['cls'] = 'missing'
    elif r < 0.06:
        lk['cls'] = 'badns'
    elif r < 0.13:
        lk['names'][rng.randrange(len(want))] = rng.choice(NO_SUCH)
    elif r < 0.45:
        lk['names'] = [rng.choice(SWAP)(n) for n in want]
    if rng.random() < 0.1:
        lk['cls_lower'] = True
    case['lookup'] = lk
    if case['typ'] in INT_TYPES:
        lo, hi = INT_TYPES[case['typ']]
        ints = [v for v in case['vs']] + ([rng.randint(case['scan'][0], case['scan'][1]) for _ in range(6)]
                                          if case['scan'] else [])
        ints = ints or [0]

        def sc():
            k = rng.random()
            v = rng.choice(ints)
            if k < 0.55:
                return {'int': str(v)}
            if k < 0.70 and lo <= v <= hi:
                return {'cimint': str(v)}
            if k < 0.80:
                return {'bool': rng.random() < 0.5}
            return rng.choice([None, {'str': '1'}, 'other', 'nested'])
        args = [None, {'bool': True}, {'str': '1'}, 'other', {'list': []}, {'list': [], 'tuple': True}]
        for _ in range(5):
            xs = [sc() for _ in range(rng.randint(1, 5))]
            args.append({'list': xs, 'tuple': rng.random() < 0.4})
        for _ in range(3):
            x = sc()
            args.append('other' if x == 'nested' else x)
        case['args'] = rng.sample(args, 7)
        case['tbargs'] = rng.sample([None, {'int': '1'}, 'other', {'bool': True},
                                     {'str': rng.choice(case['strs'])}, {'str': 'nope'}], 3)


def _m_scalar(x):
    if x == 'nested':
        return 'other'
    if isinstance(x, dict) and 'str' in x:
        return {'str': common.cps(x['str'])}
    return x


def _m_elem(e):
    def qv(v):
        if v is None:
            return None
        if v[0] == 'scalar':
            return {'scalar': common.cps(v[1])}
        return {'arr': [None if x is None else common.cps(x) for x in v[1]]}
    return {'typ': e['typ'], 'quals': [[common.cps(n), qv(v)] for n, v in e['quals']]}


def model_request(case):
    """the factory call of the case for the model: the class as data, the outcome of GetClass as observed on the
    real connection, the names looked up, the probes"""
    if case.get('valuemap_none_at'):
        return {'op': 'vmI', 'typ': case['typ'], 'values': [common.cps(x) for x in case['values']],
                'valuemap': [None if x is None else common.cps(x) for x in vmap_items(case)],
                'vd': None if case['vd'] is None else common.cps(case['vd'])}
    gc = case.get('getclass')
    if gc is not None:
        cls = gc
    else:
        cd = class_desc(case)
        cls = {'props': [[common.cps(n), _m_elem(e)] for n, e in cd['props']],
               'methods': [[common.cps(n), _m_elem(e), [[common.cps(pn), _m_elem(pe)] for pn, pe in ps]]
                           for n, e, ps in cd['methods']]}
    lk = case.get('lookup') or {}
    names = lk.get('names') or {'property': ['P'], 'method': ['M'], 'parameter': ['M', 'A']}[case['kind']]
    args = []
    for a in case.get('args', []):
        if isinstance(a, dict) and 'list' in a:
            args.append({'list': [_m_scalar(x) for x in a['list']]})
        else:
            args.append(_m_scalar(a))
    return {'op': 'api', 'cls': cls, 'call': case['kind'], 'names': [common.cps(n) for n in names],
            'vd': None if case['vd'] is None else common.cps(case['vd']),
            'vs': [str(v) for v in case['vs']], 'scan': case['scan'],
            'strs': [common.cps(s) for s in case['strs']],
            'args': args, 'tbargs': [_m_scalar(a) for a in case.get('tbargs', [])]}


def model_part(ans):
    if 'exc' in ans:
        out = {'exc': ans['exc']}
        if 'code' in ans:
            out['code'] = ans['code']
        return out
    return {'ok': ans.get('ok')}


def spec_part(ans):
    s = ans.get('spec', {})
    if 'exc' in s:
        return {'exc': s['exc']}
    return s


def _work(case):
    real, side = real_eval(case)
    return real, side, case.get('getclass')


def real_eval_gc(case):
    """real_eval in this process; case['getclass'] is set as a side effect"""
    return real_eval(case)


# ----------------------------------------------------------------------------- integer literal sub-check

def intlit_strings(rng, thorough):
    alpha = '+-01789abfxXB.g \n'
    out = set()
    # exhaustive up to length 3 (4 in thorough) over a 17-letter alphabet
    maxlen = 4 if thorough else 3

    def rec(prefix):
        out.add(prefix)
        if len(prefix) < maxlen:
            for c in alpha:
                rec(prefix + c)
    rec('')
    for _ in range(20000 if thorough else 4000):
        n = rng.choice([0, 1, 7, 8, 9, 10, 255, 256, 65535, 2 ** 31, 2 ** 63, 2 ** 64, rng.randint(0, 2 ** 70)])
        if rng.random() < 0.5:
            n = -n
        s = lit(rng, n)
        out.add(s)
        if s:
            pos = rng.randrange(len(s) + 1)
            out.add(s[:pos] + rng.choice(alpha + 'cdeACDEF56') + s[pos:])
            out.add(s[:pos] + s[pos + 1:])
    out.update(NEAR_MISS)
    return sorted(out)


def intlit_check(run):
    from pywbem._utils import _integerValue_to_int
    strs = intlit_strings(run.rng, run.thorough)
    answers = common.run_driver(PROP, [{'op': 'intlit', 's': common.cps(s)} for s in strs])
    for s, a in zip(strs, answers):
        try:
            real = _integerValue_to_int(s)
        except Exception as e:  # noqa
            real = type(e).__name__
        model = None if a.get('v') is None else int(a['v'])
        run.evaluations += 1
        if model != real:
            run.disagree({'intlit': s}, a.get('v'), None if real is None else str(real), '_integerValue_to_int')
        want = dsp_int(s)
        run.count('intlit:' + ('none' if want is None else 'value'))
        if want != real:
            kf = dsp_int(s, octal_zero=False)
            run.violate({'kind': 'intlit_differs_from_dsp0004',
                         'cause': 'octal_literal_with_digit_0' if kf == real else 'other'},
                        {'intlit': s}, {'real': None if real is None else str(real),
                                        'dsp0004': None if want is None else str(want)})
    # every code point substituted into the literal templates: real code vs the grammar
    n_cp = 0
    step = 1 if run.thorough else 7
    for cp in list(range(0, 0x3000)) + list(range(0x3000, 0x110000, step)):
        if 0xD800 <= cp < 0xE000:
            continue
        c = chr(cp)
        for tmpl in ('0x%s', '0%s1', '1%s', '%s', '0x1%s', '%s1', '01%s'):
            s = tmpl % c
            try:
                real = _integerValue_to_int(s)
            except Exception as e:  # noqa
                real = type(e).__name__
            want = dsp_int(s)
            n_cp += 1
            if want != real:
                kf = dsp_int(s, octal_zero=False)
                run.violate({'kind': 'intlit_differs_from_dsp0004',
                             'cause': 'octal_literal_with_digit_0' if kf == real else 'other'},
                            {'intlit': s}, {'real': None if real is None else str(real),
                                            'dsp0004': None if want is None else str(want)})
    run.count('intlit:codepoint_substitutions', n_cp)


# ----------------------------------------------------------------------------- run / search / replay

def check_case(run, case, real, side, ans, stats):
    run.case({k: case.get(k) for k in ('kind', 'typ', 'values', 'valuemap', 'vd', 'values_null', 'valuemap_null')},
             nontrivial=bool(case['valuemap']) and len(case['valuemap']) >= 2)
    for s in stats:
        run.count(s)
    run.count('type:' + case['typ'])
    run.count('kind:' + case['kind'] + ('[]' if case['is_array'] else ''))
    run.count('via:' + case['via'])
    lk = case.get('lookup') or {}
    run.count('lookup:class_' + lk.get('cls', 'ok'))
    if case.get('decoys'):
        run.count('class_with_decoy_elements')
    if case.get('qnames'):
        run.count('qualifier_names_other_case')
    if case.get('values_scalar') or case.get('valuemap_scalar'):
        run.count('scalar_qualifier_value')
    if 'setup_failed' in real:
        run.count('setup_failed')
        run.notes.append('mock repository refused a generated class: %s' % real['setup_failed'])
        return
    run.count('outcome:' + real.get('exc', 'ok'))
    if ans is not None and case.get('valuemap_none_at'):
        run.count('valuemap_with_null_element')
        m = {'exc': ans['exc']} if 'exc' in ans else {'ok': ans.get('ok')}
        if ('exc' in m) != ('exc' in real) or m.get('exc') != real.get('exc'):
            run.disagree(case, m, {'exc': real.get('exc')}, '_create_for_element on a ValueMap array with NULL elements')
    elif ans is not None:
        m = model_part(ans)
        if m != real:
            run.disagree(case, m, real, 'ValueMapping construction/items/tovalues/tobinary')
        # the short spec, run by the same driver, must agree with the model (theorem-backed; cheap cross-check)
        sp = ans.get('spec')
        if sp is None:
            pass        # no element to evaluate the spec on (class/element lookup failed) or a NULL-valued qualifier
                        # (C20-KF2): only model vs code is compared
        elif 'exc' in m:
            if sp.get('exc') != m['exc']:
                run.disagree(case, m, sp, 'model vs spec (exception class)')
        elif 'ok' in m and m['ok'] is not None:
            if sp.get('tv') != m['ok']['tv'] or sp.get('scan') != m['ok']['scan']:
                run.disagree(case, m, sp, 'model vs spec (tovalues)')
    for s in side:
        run.violate({'kind': 'call_form', 'what': s}, case, s)
    why = oracle(run, case, real)
    run.count('oracle:' + why)
    if why == 'ok':
        exp = expect(case)
        forms = set()
        for sp, raw in zip(exp[1], case['valuemap'] or []):
            if sp is None:
                forms.add('unclaimed')
            elif sp[2]:
                forms.add('single')
            elif raw.startswith('..'):
                forms.add('open-lo')
            elif raw.endswith('..'):
                forms.add('open-hi')
            else:
                forms.add('closed-range')
        for f in forms:
            run.count('form:' + f)
        if len(case['values']) != len(exp[2]):
            run.count('values_adjusted:' + ('padded' if len(case['values']) < len(exp[2]) else 'truncated'))
        if len(set(exp[2])) != len(exp[2]):
            run.count('values_with_duplicates')


def run(run):
    rng = run.rng
    n = 6000 if run.thorough else 1500
    run.rule = ('seeded qualifier pairs: ValueMap arrays from the DSP0004 entry grammar in 5 styles (ordered partitions with '
                'open ranges and an unclaimed marker, random unordered/overlapping/duplicate entries, chains of open ranges '
                'incl. open ends facing each other, one-edit malformed near misses, edge shapes) in decimal/hex/binary/octal '
                'notation x Values of equal/shorter/longer size (with duplicates) x values_default x 8 integer types + '
                'non-integer types x property/method/parameter (scalar/array) on a mock connection (CIM objects or compiled '
                'MOF, WBEMConnection or WBEMServer); tovalues() probed at every value of the type +-3 for 8-bit types '
                '(16-bit: exhaustive for half of the cases in the thorough tier), else at type limits, every entry end +-1 '
                'and random points; plus sequences of 3..6 mappings built in ONE process (same ValueMap array with open ends at '
                'the array border on elements of different integer types in random order, other arrays, other Values), each '
                'judged independently of the history; non-trivial = at least 2 ValueMap entries; distinct = distinct '
                '(kind,type,arrays,default)')
    run.assumptions += [
        'model budget for _values_tuple = length+1 frames (proved sufficient); CPython grants what is left of its recursion '
        'limit: chains of ~1000 consecutive open ranges raise RecursionError (known finding C20-KF3, probed every run)',
        'integer literals shorter than 4300 digits (CPython int() conversion limit)',
        'array elements of the Values/ValueMap qualifier values are strings (a NULL element is not generated); NULL '
        'qualifier VALUES are generated and modelled (createQ), see known finding C20-KF2',
    ]
    cases, statss = [], []
    for _ in range(n):
        st = []
        cases.append(gen_case(rng, run.thorough, st))
        statss.append(st)
    import c20 as _self          # importable name (harness/ is on sys.path) so that the fork pool can pickle it
    reals = common.pmap(_self._work, cases)
    for c, (_, _, gc) in zip(cases, reals):
        c['getclass'] = gc
    answers = common.run_driver(PROP, [model_request(c) for c in cases])
    for case, (real, side, gc), ans, st in zip(cases, reals, answers, statss):
        check_case(run, case, real, side, ans, st)
    sequence_stream(run, 400 if run.thorough else 80)
    long_chain_probes(run)
    intlit_check(run)
    run.exhaustive = False


def chain_case(n, left, typ='uint32'):
    vmap = [('..%d' % (10 * i)) if left else ('%d..' % (10 * i)) for i in range(1, n + 1)]
    return {'kind': 'property', 'typ': typ, 'is_array': False, 'values': ['v%d' % i for i in range(n)], 'valuemap': vmap,
            'vd': None, 'values_null': False, 'valuemap_null': False, 'server': False, 'ns_none': False,
            'pass_vd_none': False, 'via': 'objects', 'scan': None,
            'vs': [0, 5, 10, 11, 10 * n - 1, 10 * n, 10 * n + 1, 2 ** 32 - 1], 'strs': ['v0', 'v%d' % (n - 1)],
            'lookup': {'cls': 'ok', 'names': ['P']}, 'args': [], 'tbargs': []}


def long_chain_probes(run):
    """chains of consecutive open ranges: 300 entries (model vs code vs oracle) and 1100 entries (oracle only: the
    real recursion budget is what is left of CPython's recursion limit, known finding C20-KF3)"""
    small = [chain_case(300, True), chain_case(300, False)]
    reals = [real_eval(c) for c in small]
    answers = common.run_driver(PROP, [model_request(c) for c in small])
    for c, (real, side), ans in zip(small, reals, answers):
        check_case(run, c, real, side, ans, ['style:chain-300'])
    for c in (chain_case(1100, True), chain_case(1100, False)):
        real, side = real_eval(c)
        check_case(run, c, real, side, None, ['style:chain-1100'])


# ----------------------------------------------------------------------------- sequences in one process

def seq_member(rng, typ, vmap, values, kind, thorough):
    lo, hi = INT_TYPES[typ]
    pts = set([lo, hi, lo - 1, hi + 1, 0, 1, -1, lo + 1, hi - 1])
    for e in vmap:
        for part in e.split('..'):
            n_ = dsp_int(part)
            if n_ is not None:
                pts.update([n_ - 1, n_, n_ + 1])
    for _ in range(6):
        pts.add(rng.randint(lo, hi))
    scan = None
    if hi - lo < 300:
        scan = [lo - 3, hi + 3]
        pts = set(p for p in pts if not (lo - 3 <= p <= hi + 3))
    elif hi - lo < 70000 and thorough and rng.random() < 0.2:
        scan = [lo - 1, hi + 1]
        pts = set(p for p in pts if not (lo - 1 <= p <= hi + 1))
    want = {'property': ['P'], 'method': ['M'], 'parameter': ['M', 'A']}[kind]
    return {'kind': kind, 'typ': typ, 'is_array': False, 'values': list(values), 'valuemap': list(vmap), 'vd': None,
            'values_null': False, 'valuemap_null': False, 'server': False, 'ns_none': False, 'pass_vd_none': False,
            'via': 'objects', 'scan': scan, 'vs': sorted(pts), 'strs': list(dict.fromkeys(values))[:8],
            'lookup': {'cls': 'ok', 'names': want}, 'args': [], 'tbargs': []}


def gen_sequence(rng, thorough):
    """3..6 ValueMapping objects built one after the other in ONE process: the same ValueMap array (open ends at the
    first / last position, so that the type limits matter) on elements of different integer types in random order,
    mixed with other arrays on the same types, the same array with other Values, and exact repetitions"""
    def arr():
        a = rng.randint(1, 60)
        b = a + rng.randint(2, 40)
        mid = []
        if rng.random() < 0.7:
            mid.append(str(a + 1) if rng.random() < 0.5 else '%d..%d' % (a + 1, b - 1))
        if rng.random() < 0.3:
            mid.insert(rng.randint(0, len(mid)), '..')
        k = rng.random()
        first = ['..%d' % a] if k < 0.8 else ['%d' % a]
        last = ['%d..' % b] if k > 0.15 else ['%d' % b]
        return first + mid + last
    base = arr()
    other = arr()
    types = list(INT_TYPES)
    rng.shuffle(types)
    n = rng.randint(3, 6)
    seq = []
    for k in range(n):
        r = rng.random()
        vmap = base if r < 0.7 else other
        typ = types[k % len(types)] if rng.random() < 0.8 else rng.choice(types)
        values = ['s%d_%d' % (k if rng.random() < 0.5 else 0, i) for i in range(len(vmap))]
        seq.append(seq_member(rng, typ, vmap, values, rng.choice(['property', 'method', 'parameter']), thorough))
    return seq


def _work_seq(seq):
    """all members in this process, in order"""
    out = []
    for c in seq:
        real, side = real_eval(c)
        out.append((real, side, c.get('getclass')))
    return out


def sequence_stream(run, n):
    import c20 as _self
    seqs = [gen_sequence(run.rng, run.thorough) for _ in range(n)]
    results = common.pmap(_self._work_seq, seqs, chunksize=2)
    flat = [c for seq in seqs for c in seq]
    for seq, res in zip(seqs, results):
        for c, (_, _, gc) in zip(seq, res):
            c['getclass'] = gc
    answers = common.run_driver(PROP, [model_request(c) for c in flat])
    it = iter(answers)
    for seq, res in zip(seqs, results):
        types_seen = []
        for k, (c, (real, side, gc)) in enumerate(zip(seq, res)):
            ans = next(it)
            sub = common.Run(PROP, run.tier, run.seed)
            check_case(sub, c, real, side, ans, ['style:sequence-member'])
            run.evaluations += 1
            for key, v in sub.distribution.items():
                run.count(key, v)
            # a failing member is reported with its whole history: the sequence up to and including it
            hist = {'sequence': [dict(x) for x in seq[:k + 1]]}
            for d in sub.disagreements:
                run.disagree(hist, d['model'], d['impl'], d['what'] + ' (member %d of a sequence in one process)' % k)
            for v in sub.violations:
                sig = dict(v['sig'])
                if any(t != c['typ'] for t in types_seen) or k > 0:
                    sig['after_other_mappings_in_process'] = True
                run.violate(sig, hist, v['observed'])
            types_seen.append(c['typ'])
        run.count('sequences')


def oracle_only(run):
    rng = run.rng
    for _ in range(1500):
        case = gen_case(rng, False)
        real, side = real_eval(case)
        check_case(run, case, real, side, None, [])


def search(run):
    before = len(run.violations)
    rng = run.rng
    for i in range(6000):
        case = gen_case(rng, i % 4 == 0)
        real, side = real_eval(case)
        if 'setup_failed' in real:
            continue
        for s in side:
            run.violate({'kind': 'call_form', 'what': s}, case, s)
        oracle(run, case, real)
        known = common.load_known_all()
        new = [v for v in run.violations[before:] if not any(common.matches(f, PROP, v['sig']) for f in known)]
        if new:
            return new
    return []


def replay(payload):
    case = payload['case']
    r = common.Run(PROP, 'quick', 0)
    if 'intlit' in case:
        from pywbem._utils import _integerValue_to_int
        s = case['intlit']
        real, want = _integerValue_to_int(s), dsp_int(s)
        ok = real == want
        return ok, 'property C20 %s: _integerValue_to_int(%r) = %r, DSP0004 value = %r' % (
            'holds' if ok else 'FAILS', s, real, want)
    if 'sequence' in case:
        # rebuild every mapping of the history in this process, in order; the property must hold for each of them
        for k, c in enumerate(case['sequence']):
            real, side = real_eval(c)
            if 'setup_failed' not in real:
                oracle(r, c, real)
            if r.violations:
                v = r.violations[0]
                return False, ('property C20 FAILS on mapping %d of this sequence (%s %s, ValueMap %s) built after %s in the '
                               'same process: %s\nobserved: %s') % (
                    k, c['kind'], c['typ'], json.dumps(c['valuemap']),
                    json.dumps([(x['typ'], x['valuemap']) for x in case['sequence'][:k]]),
                    json.dumps(v['sig']), json.dumps(v['observed'], default=str)[:600])
        return True, 'property C20 holds on every mapping of this sequence (%d mappings built in one process)' % len(case['sequence'])
    real, side = real_eval(case)
    for s in side:
        r.violate({'kind': 'call_form', 'what': s}, case, s)
    if 'setup_failed' not in real:
        oracle(r, case, real)
    summary = json.dumps(real)[:600]
    if r.violations:
        v = r.violations[0]
        return False, 'property C20 FAILS on this case: %s\nobserved: %s\nreal outputs: %s' % (
            json.dumps(v['sig']), json.dumps(v['observed'], default=str)[:600], summary)
    return True, 'property C20 holds on this case; real outputs: ' + summary
