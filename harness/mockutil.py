"""fast construction of FakedWBEMConnection repositories (the PLY tables are rebuilt by every
MOFCompiler(), ~150 ms; so MOF is compiled once per process and the resulting objects are re-added)"""
import copy

_CACHE = {}


def compiled_objects(mof):
    """(qualifier declarations, classes) obtained by compiling `mof` once into a scratch mock connection"""
    if mof not in _CACHE:
        import pywbem_mock
        c = pywbem_mock.FakedWBEMConnection(default_namespace='root/scratch')
        c.compile_mof_string(mof, namespace='root/scratch')
        quals = c.EnumerateQualifiers(namespace='root/scratch')
        # classes in an order that respects inheritance: as stored, un-resolved form (LocalOnly)
        classes = []
        names = c.EnumerateClassNames(namespace='root/scratch', DeepInheritance=True)
        depth = {}

        def d(n):
            if n not in depth:
                cl = c.GetClass(n, namespace='root/scratch', LocalOnly=True, IncludeQualifiers=True)
                depth[n] = 0 if cl.superclass is None else d(cl.superclass) + 1
            return depth[n]
        for n in sorted(names, key=lambda n: (d(n), n)):
            classes.append(c.GetClass(n, namespace='root/scratch', LocalOnly=True, IncludeQualifiers=True,
                                      IncludeClassOrigin=False))
        _CACHE[mof] = (quals, classes)
    q, cl = _CACHE[mof]
    return copy.deepcopy(q), copy.deepcopy(cl)


def new_conn(mof, namespaces, default_namespace=None, **kw):
    import pywbem_mock
    conn = pywbem_mock.FakedWBEMConnection(default_namespace=default_namespace or namespaces[0], **kw)
    for ns in namespaces:
        if ns not in conn.namespaces:
            conn.add_namespace(ns)
        q, cl = compiled_objects(mof)
        conn.add_cimobjects(q, namespace=ns)
        conn.add_cimobjects(cl, namespace=ns)
    return conn
