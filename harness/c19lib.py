"""C19 helpers: scripted requests transport adapter, CIM-XML response builders for a dozen operations,
independent classification of Python values (to_pyval) and canonicalisers."""
import io
import datetime

XMLDECL = b'<?xml version="1.0" encoding="utf-8" ?>\n'
PASSWORD = 'pw_S3cr3t_Zq'
USER = 'usér'

# attribute order of the CIM object classes as the HARNESS reads them (written once, independent of the code;
# the model takes its order from the table regenerated out of toyaml()'s source)
OBJ_ATTRS = {
    'CIMInstance': ['classname', 'properties', 'qualifiers', 'path'],
    'CIMInstanceName': ['classname', 'namespace', 'host', 'keybindings'],
    'CIMClass': ['classname', 'superclass', 'properties', 'methods', 'qualifiers', 'path'],
    'CIMClassName': ['classname', 'host', 'namespace'],
    'CIMProperty': ['name', 'value', 'type', 'reference_class', 'embedded_object', 'is_array', 'array_size',
                    'class_origin', 'propagated', 'qualifiers'],
    'CIMMethod': ['name', 'return_type', 'class_origin', 'propagated', 'parameters', 'qualifiers'],
    'CIMParameter': ['name', 'type', 'reference_class', 'embedded_object', 'is_array', 'array_size', 'qualifiers'],
    'CIMQualifier': ['name', 'value', 'type', 'propagated', 'tosubclass', 'toinstance', 'overridable',
                     'translatable'],
    'CIMQualifierDeclaration': ['name', 'type', 'value', 'is_array', 'array_size', 'scopes', 'tosubclass',
                                'toinstance', 'overridable', 'translatable'],
}


import collections
Credentials = collections.namedtuple('Credentials', ['userid', 'password'])   # a tuple subclass


class CredsTuple(tuple):
    """another tuple subclass (no field names)"""


class Foreign:
    """a value of a type pywbem knows nothing about (stable repr)"""

    def __repr__(self):
        return 'Foreign()'


def cps(s):
    return [ord(c) for c in s]


# --------------------------------------------------------------------------- transport

class _Raw:
    """minimal stand-in for urllib3's HTTPResponse (pywbem reads only .version)"""
    version = 11

    def __init__(self, body):
        self._b = io.BytesIO(body)

    def read(self, n=None, **kw):
        return self._b.read(n) if n else self._b.read()

    def stream(self, n, decode_content=True):
        d = self._b.read()
        if d:
            yield d

    def close(self):
        pass

    def release_conn(self):
        pass


def make_adapter(script):
    """script: list of steps, consumed one per request:
         {'raise': 'ConnectionError'|'ReadTimeout'|'SSLError'|'ConnectTimeout'|'ChunkedEncodingError'}
       | {'status': int, 'reason': str, 'headers': {..}, 'body': bytes}"""
    import requests
    from requests.adapters import BaseAdapter

    class Scripted(BaseAdapter):
        def __init__(self):
            super().__init__()
            self.script = list(script)
            self.sent = []          # (body bytes, headers list[(k, v)])

        def send(self, request, **kw):
            body = request.body
            if isinstance(body, str):
                body = body.encode('utf-8')
            self.sent.append((body, list(request.headers.items())))
            if not self.script:
                raise requests.exceptions.ConnectionError('scripted responses exhausted')
            step = self.script.pop(0)
            if 'raise' in step:
                raise getattr(requests.exceptions, step['raise'])('scripted ' + step['raise'])
            r = requests.Response()
            r.status_code = step['status']
            r.reason = step.get('reason', 'OK')
            r.headers = requests.structures.CaseInsensitiveDict(step.get('headers', {}))
            r.raw = _Raw(step['body'])
            r.url = request.url
            r.request = request
            r._content = step['body']
            r._content_consumed = True
            return r

        def close(self):
            pass
    return Scripted()


# --------------------------------------------------------------------------- response bodies

def _wrap(node):
    from pywbem import _cim_xml as X
    return XMLDECL + X.CIM(X.MESSAGE(node, '1001', '1.0'), '2.0', '2.0').toxml().encode('utf-8')


def imethod_response(name, children):
    from pywbem import _cim_xml as X
    return _wrap(X.SIMPLERSP(X.IMETHODRESPONSE(name, children)))


def method_response(name, children):
    from pywbem import _cim_xml as X
    return _wrap(X.SIMPLERSP(X.METHODRESPONSE(name, children)))


def export_response(name, children):
    from pywbem import _cim_xml as X
    return _wrap(X.SIMPLEEXPRSP(X.EXPMETHODRESPONSE(name, children[0] if children else None)))


def error_children(code, desc):
    from pywbem import _cim_xml as X
    return [X.ERROR(str(code), desc)]


def _localpath(p):
    q = p.copy()
    q.host = None
    q.namespace = None
    return q


def _fullpath(p, ns='root/cimv2', host='höst'):
    q = p.copy()
    q.host = host
    q.namespace = q.namespace or ns
    return q


def success_children(op, objs):
    """children of (I)METHODRESPONSE for a successful `op` returning the generated objects `objs`"""
    from pywbem import _cim_xml as X
    import pywbem
    if op == 'GetInstance':
        return [X.IRETURNVALUE([objs['inst'].tocimxml(ignore_path=True)])]
    if op == 'EnumerateInstances':
        return [X.IRETURNVALUE([X.VALUE_NAMEDINSTANCE(_localpath(i.path).tocimxml(), i.tocimxml(ignore_path=True))
                                for i in objs['insts']])]
    if op == 'EnumerateInstanceNames':
        return [X.IRETURNVALUE([_localpath(i.path).tocimxml() for i in objs['insts']])]
    if op == 'CreateInstance':
        return [X.IRETURNVALUE([_localpath(objs['inst'].path).tocimxml()])]
    if op in ('ModifyInstance', 'DeleteInstance', 'SetQualifier', 'DeleteQualifier', 'CloseEnumeration',
              'DeleteClass', 'CreateClass', 'ModifyClass'):
        return []
    if op in ('Associators', 'References'):
        return [X.IRETURNVALUE([X.VALUE_OBJECTWITHPATH(_fullpath(i.path).tocimxml(), i.tocimxml(ignore_path=True))
                                for i in objs['insts']])]
    if op in ('AssociatorNames', 'ReferenceNames'):
        return [X.IRETURNVALUE([X.OBJECTPATH(_fullpath(i.path).tocimxml()) for i in objs['insts']])]
    if op == 'ExecQuery':
        return [X.IRETURNVALUE([X.VALUE_OBJECT(i.tocimxml(ignore_path=True)) for i in objs['insts']])]
    if op in ('OpenEnumerateInstances', 'PullInstancesWithPath'):
        eos = objs.get('eos', True)
        ch = [X.IRETURNVALUE([X.VALUE_INSTANCEWITHPATH(_fullpath(i.path).tocimxml(), i.tocimxml(ignore_path=True))
                              for i in objs['insts']]),
              X.PARAMVALUE('EndOfSequence', X.VALUE('TRUE' if eos else 'FALSE'), 'boolean')]
        ch.append(X.PARAMVALUE('EnumerationContext', None if eos else X.VALUE(objs.get('ctx', 'ctx-1')), 'string'))
        return ch
    if op in ('OpenEnumerateInstancePaths', 'PullInstancePaths'):
        eos = objs.get('eos', True)
        ch = [X.IRETURNVALUE([_fullpath(i.path).tocimxml() for i in objs['insts']]),
              X.PARAMVALUE('EndOfSequence', X.VALUE('TRUE' if eos else 'FALSE'), 'boolean')]
        ch.append(X.PARAMVALUE('EnumerationContext', None if eos else X.VALUE(objs.get('ctx', 'ctx-1')), 'string'))
        return ch
    if op in ('OpenQueryInstances', 'PullInstances'):
        # query results: plain INSTANCE elements, i.e. instances WITHOUT a path
        eos = objs.get('eos', True)
        ch = [X.IRETURNVALUE([i.tocimxml(ignore_path=True) for i in objs['insts']]),
              X.PARAMVALUE('EndOfSequence', X.VALUE('TRUE' if eos else 'FALSE'), 'boolean'),
              X.PARAMVALUE('EnumerationContext', None if eos else X.VALUE(objs.get('ctx', 'ctx-1')), 'string')]
        if op == 'OpenQueryInstances' and objs.get('rqrc'):
            k = objs['klass'].copy()
            k.path = None
            ch.append(X.PARAMVALUE('QueryResultClass', k.tocimxml()))
        return ch
    if op == 'GetClass':
        return [X.IRETURNVALUE([objs['klass'].tocimxml()])]
    if op == 'EnumerateClasses':
        return [X.IRETURNVALUE([k.tocimxml() for k in objs['klasses']])]
    if op == 'EnumerateClassNames':
        return [X.IRETURNVALUE([X.CLASSNAME(k.classname) for k in objs['klasses']])]
    if op == 'GetQualifier':
        return [X.IRETURNVALUE([objs['qd'].tocimxml()])]
    if op == 'EnumerateQualifiers':
        return [X.IRETURNVALUE([q.tocimxml() for q in objs['qds']])]
    if op == 'InvokeMethod':
        ch = [X.RETURNVALUE(X.VALUE(str(objs.get('rv', 0))), 'uint32')]
        for name, val in objs.get('outparams', []):
            ch.append(X.PARAMVALUE(name, X.VALUE(val), 'string'))
        return ch
    if op == 'ExportIndication':
        return []
    raise ValueError(op)


def response_body(op, children, method_name=None):
    if op == 'InvokeMethod':
        return method_response(method_name or 'M', children)
    if op == 'ExportIndication':
        return export_response(op, children)
    return imethod_response(op, children)


# --------------------------------------------------------------------------- value classification

def to_pyval(o, depth=0):
    """Python value -> the model's PyVal JSON (classification by the harness, independent of toyaml)"""
    import pywbem
    from pywbem._nocasedict import NocaseDict
    if depth > 40:
        return {'t': 'other', 'v': cps('too-deep')}
    d = depth + 1
    if o is None:
        return {'t': 'none'}
    if isinstance(o, tuple) and type(o) is not tuple and hasattr(o, '_fields'):
        return {'t': 'namedtuple', 'k': [cps(k) for k in o._fields], 'v': [to_pyval(x, d) for x in o]}
    if isinstance(o, list):
        return {'t': 'list', 'v': [to_pyval(x, d) for x in o]}
    if isinstance(o, tuple):
        return {'t': 'tuple', 'v': [to_pyval(x, d) for x in o]}
    if isinstance(o, (dict, NocaseDict)):
        keys = list(o.keys())
        if not all(isinstance(k, str) for k in keys):
            return {'t': 'other', 'v': cps('dict-with-nonstr-keys')}
        return {'t': 'dict', 'k': [cps(k) for k in keys], 'v': [to_pyval(o[k], d) for k in keys]}
    if isinstance(o, bytes):
        return {'t': 'bytes', 'v': list(o)}
    if type(o) is str:
        return {'t': 'str', 'v': cps(o)}
    if isinstance(o, str):
        return {'t': 'strsub', 'v': cps(o)}
    if isinstance(o, bool):
        return {'t': 'bool', 'v': bool(o)}
    if isinstance(o, pywbem.CIMInt):
        return {'t': 'cimint', 'v': str(int(o))}
    if isinstance(o, int):
        return {'t': 'int', 'v': str(int(o))}
    if isinstance(o, pywbem.CIMFloat):
        return {'t': 'cimfloat', 'v': cps(repr(float(o)))}
    if isinstance(o, float):
        return {'t': 'float', 'v': cps(repr(o))}
    if isinstance(o, pywbem.CIMDateTime):
        return {'t': 'cimdt', 'v': cps(str(o))}
    if isinstance(o, datetime.datetime):
        return {'t': 'datetime', 'v': cps(str(pywbem.CIMDateTime(o)))}
    if isinstance(o, datetime.timedelta):
        return {'t': 'timedelta', 'v': cps(str(pywbem.CIMDateTime(o)))}
    for kind, attrs in OBJ_ATTRS.items():
        if type(o).__name__ == kind and isinstance(o, getattr(pywbem, kind)):
            return {'t': 'obj', 'kind': kind, 'v': [to_pyval(getattr(o, a), d) for a in attrs]}
    return {'t': 'other', 'v': cps(type(o).__name__)}


def pyval_classes(pv, acc=None):
    """set of 't' tags occurring in a PyVal JSON"""
    acc = set() if acc is None else acc
    acc.add(pv['t'])
    if pv['t'] == 'bytes':
        try:
            bytes(pv['v']).decode('utf-8')
        except UnicodeDecodeError:
            acc.add('badbytes')
    if isinstance(pv.get('v'), list) and pv['t'] in ('list', 'tuple', 'namedtuple', 'dict', 'obj'):
        for x in pv['v']:
            pyval_classes(x, acc)
    return acc


def canon_yaml(y):
    """what toyaml returned / what was handed to yaml.dump -> the model's Yaml JSON"""
    if y is None:
        return {'y': 'null'}
    if type(y) is bool:
        return {'y': 'bool', 'v': y}
    if type(y) is int:
        return {'y': 'int', 'v': str(y)}
    if type(y) is float:
        return {'y': 'float', 'v': cps(repr(y))}
    if type(y) is str:
        return {'y': 'str', 'v': cps(y)}
    if type(y) is list:
        return {'y': 'seq', 'v': [canon_yaml(x) for x in y]}
    if isinstance(y, dict) and type(y).__name__ in ('dict', 'OrderedDict'):
        ks = list(y.keys())
        if all(type(k) is str for k in ks):
            return {'y': 'map', 'k': [cps(k) for k in ks], 'v': [canon_yaml(y[k]) for k in ks]}
    return {'y': 'unrep', 'v': type(y).__name__}


def yaml_dumpable(cy):
    if cy['y'] == 'unrep':
        return False
    if cy['y'] in ('seq', 'map'):
        return all(yaml_dumpable(x) for x in cy['v'])
    return True


# --------------------------------------------------------------------------- views for the API logger

def afmt(x):
    """the opaque text `_format("{0!A}", x)` (pywbem's _ascii2 is not modelled)"""
    from pywbem._utils import _format
    return _format("{0!A}", x)


def item_view(x):
    return {'t': cps(type(x).__name__), 'p': cps(afmt(str(x.path))) if hasattr(x, 'path') else None}


def view_of(ret):
    if isinstance(ret, list):
        return {'k': 'list', 'items': [item_view(x) for x in ret], 'ascii': cps(afmt(ret))}
    if hasattr(ret, 'classname'):
        name = ret.classname
    elif hasattr(ret, 'name'):
        name = ret.name
    else:
        name = ''
    return {'k': 'single', 't': cps(type(ret).__name__), 'name': cps('{}'.format(name)),
            'p': cps(afmt(str(ret.path))) if hasattr(ret, 'path') else None, 'ascii': cps(afmt(ret))}


def retview_of(ret):
    if isinstance(ret, tuple) and type(ret) is not tuple:
        if hasattr(ret, 'instances'):
            data, dname = ret.instances, 'instances'
        else:
            data, dname = ret.paths, 'paths'
        qrc = cps('{}'.format(ret.query_result_class)) if hasattr(ret, 'query_result_class') else None
        return {'k': 'pull', 'type': cps(type(ret).__name__), 'ctx': cps('{}'.format(ret.context)),
                'eos': cps('{}'.format(ret.eos)), 'qrc': qrc, 'data': cps(dname), 'view': view_of(data)}
    qrc = None
    if isinstance(ret, list) and hasattr(ret, 'query_result_class'):
        qrc = cps('{}'.format(ret.query_result_class))
    return {'k': 'plain', 'view': view_of(ret), 'qrc': qrc}
