"""C11 — a failed mock-repository operation changes nothing.

K: seeded operation histories (repository built by the history itself: several namespaces, class trees,
   qualifier declarations, instances, associations inside and across namespaces) are run (a) through the real
   FakedWBEMConnection and (b) through the Lean model Model/Atomic.lean (native driver drv_c11).  After EVERY
   operation the outcome (exception class + CIM status code) and the abstract content of the whole repository
   (all namespaces, classes, qualifier declarations, instances, in store order) are diffed.
Oracle: for every call that raises, a full-fidelity dump of the repository (CIM-XML text + repr of every object in
   every store of every namespace, in store order, plus the namespace list) taken before the call must be
   identical to the dump taken after it.  Evaluated on the real code only.
Oracle-only probes: the CIM_Namespace provider (not in the model) on a mock server with an Interop namespace.
"""
import json
import os
import random
import sys
import tempfile
from collections import OrderedDict

import common

PROP = 'C11'


# (the lead's common.lean_check now extracts the generated tables under the shared build lock, so the
# C11-specific re-extraction wrapper that used to live here is no longer needed)

BASE_NSS = ['root/a', 'root/b', 'root/c']
QDECLS = [
    {'name': 'Key', 'ty': 'boolean', 'scopes': ['property', 'reference'], 'body': 1},
    {'name': 'Association', 'ty': 'boolean', 'scopes': ['association'], 'body': 1},
    {'name': 'Indication', 'ty': 'boolean', 'scopes': ['class', 'indication'], 'body': 1},
    {'name': 'Description', 'ty': 'string', 'scopes': ['any'], 'body': 0},
    {'name': 'EmbeddedInstance', 'ty': 'string', 'scopes': ['method', 'parameter', 'property'], 'body': 0},
    {'name': 'Extra1', 'ty': 'boolean', 'scopes': ['class'], 'body': 1},
    {'name': 'Extra2', 'ty': 'string', 'scopes': ['property'], 'body': 0},
    {'name': 'Override', 'ty': 'string', 'scopes': ['method', 'property', 'reference'], 'body': 0},
    {'name': 'IN', 'ty': 'boolean', 'scopes': ['parameter'], 'body': 2},
]
ALL_SCOPES = ('CLASS', 'ASSOCIATION', 'INDICATION', 'PROPERTY', 'REFERENCE', 'METHOD', 'PARAMETER', 'ANY')
BODY_VALUES = {('boolean', 0): None, ('boolean', 1): False, ('boolean', 2): True,
               ('string', 0): None, ('string', 3): 'v0', ('string', 4): 'v1'}


def q(name, ty='boolean', val=None):
    return {'name': name, 'ty': ty, 'val': val}


KEYQ = q('Key')
ASSOCQ = q('Association')


def pdef(name, ty='string', arr=False, ref=None, quals=()):
    return {'name': name, 'ty': ty, 'arr': arr, 'ref': ref, 'quals': list(quals)}


def cdef(name, sup=None, quals=(), props=(), methods=()):
    return {'name': name, 'super': sup, 'quals': list(quals), 'props': list(props), 'methods': list(methods)}


def mdef(name, ret='uint32', quals=(), params=()):
    return {'name': name, 'ret': ret, 'quals': list(quals), 'params': list(params)}


def unq(quals):
    """qualifiers of a stored class element as input qualifiers (without the resolved flags)"""
    return [{'name': u['name'], 'ty': u['ty'], 'val': u['val']} for u in quals]


def pv(name, ty, val, arr=False):
    return {'name': name, 'ty': ty, 'arr': arr, 'val': val}


def sval(s):
    return {'s': s}


def ival(i):
    return {'i': str(i)}


def refval(cls, ns, keys, host=None):
    return {'ref': {'cls': cls, 'ns': ns, 'host': host, 'keys': [[k, v] for k, v in keys]}}


# --------------------------------------------------------------------------- model JSON -> pywbem objects / MOF

def py_qualuse(u):
    import pywbem
    if u['ty'] == 'boolean':
        return pywbem.CIMQualifier(u['name'], True, type='boolean')
    return pywbem.CIMQualifier(u['name'], u['val'] if u['val'] is not None else 'x', type=u['ty'])


def py_class(c):
    import pywbem
    props = []
    for p in c['props']:
        props.append(pywbem.CIMProperty(p['name'], None, type=p['ty'], is_array=p['arr'],
                                        reference_class=p['ref'], qualifiers=[py_qualuse(u) for u in p['quals']]))
    methods = []
    for m in c.get('methods', []):
        params = [pywbem.CIMParameter(p['name'], p['ty'], is_array=p['arr'], reference_class=p['ref'],
                                      qualifiers=[py_qualuse(u) for u in p['quals']]) for p in m['params']]
        methods.append(pywbem.CIMMethod(m['name'], m['ret'], parameters=params,
                                        qualifiers=[py_qualuse(u) for u in m['quals']]))
    return pywbem.CIMClass(c['name'], superclass=c['super'], qualifiers=[py_qualuse(u) for u in c['quals']],
                           properties=props, methods=methods)


def py_qualdecl(d):
    import pywbem
    scopes = OrderedDict((s, s.lower() in d['scopes']) for s in ALL_SCOPES)
    return pywbem.CIMQualifierDeclaration(d['name'], d['ty'], value=BODY_VALUES[(d['ty'], d['body'])],
                                          scopes=scopes)


def py_scalar(v, ty=None):
    import pywbem
    if 's' in v:
        return v['s']
    n = int(v['i'])
    if ty in (None, 'reference', 'string'):
        return pywbem.Uint32(n)
    return pywbem.cimtype_from_name(ty)(n) if hasattr(pywbem, 'cimtype_from_name') else pywbem.Uint32(n)


def py_path0(r):
    import pywbem
    kb = OrderedDict((k, py_scalar(v)) for k, v in r['keys'])
    return pywbem.CIMInstanceName(r['cls'], keybindings=kb, namespace=r['ns'], host=r['host'])


def py_val(v, ty=None):
    if v is None:
        return None
    if 'ref' in v:
        return py_path0(v['ref'])
    return py_scalar(v, ty)


def py_inst(i):
    import pywbem
    props = []
    for p in i['props']:
        props.append(pywbem.CIMProperty(p['name'], py_val(p['val']), type=p['ty'], is_array=p['arr']))
    return pywbem.CIMInstance(i['cls'], properties=props)


def py_path(p):
    import pywbem
    kb = OrderedDict((k, py_val(v)) for k, v in p['keys'])
    return pywbem.CIMInstanceName(p['cls'], keybindings=kb, namespace=p['ns'])


def mof_quals(quals):
    if not quals:
        return ''
    parts = []
    for u in quals:
        if u['ty'] == 'boolean':
            parts.append(u['name'])
        else:
            parts.append('%s("%s")' % (u['name'], u['val'] if u['val'] is not None else 'x'))
    return '[' + ', '.join(parts) + '] '


def mof_class(c):
    out = [mof_quals(c['quals']) + 'class ' + c['name'] + (' : ' + c['super'] if c['super'] else '') + ' {']
    for p in c['props']:
        if p['ty'] == 'reference':
            out.append('  %s%s REF %s;' % (mof_quals(p['quals']), p['ref'], p['name']))
        else:
            out.append('  %s%s %s%s;' % (mof_quals(p['quals']), p['ty'], p['name'], '[]' if p['arr'] else ''))
    for m in c.get('methods', []):
        params = []
        for p in m['params']:
            if p['ty'] == 'reference':
                params.append('%s%s REF %s' % (mof_quals(p['quals']), p['ref'], p['name']))
            else:
                params.append('%s%s %s%s' % (mof_quals(p['quals']), p['ty'], p['name'], '[]' if p['arr'] else ''))
        out.append('  %s%s %s(%s);' % (mof_quals(m['quals']), m['ret'], m['name'], ', '.join(params)))
    out.append('};')
    return '\n'.join(out)


def mof_qualdecl(d):
    v = BODY_VALUES[(d['ty'], d['body'])]
    lit = 'null' if v is None else ('"%s"' % v if isinstance(v, str) else str(v).lower())
    return 'Qualifier %s : %s = %s, Scope(%s);' % (d['name'], d['ty'], lit, ', '.join(d['scopes']))


def mof_scalar(v):
    if 's' in v:
        return '"%s"' % v['s']
    return v['i']


def mof_inst(i):
    out = ['instance of %s {' % i['cls']]
    for p in i['props']:
        v = p['val']
        if v is None:
            lit = 'NULL'
        elif 'ref' in v:
            r = v['ref']
            keys = ','.join('%s=%s' % (k, mof_scalar(kv).replace('"', '\\"')) for k, kv in r['keys'])
            lit = '"%s%s.%s"' % ((r['ns'] + ':') if r['ns'] is not None else '', r['cls'], keys)
        else:
            lit = mof_scalar(v)
        out.append('  %s = %s;' % (p['name'], lit))
    out.append('};')
    return '\n'.join(out)


def mof_prod(p):
    if p['k'] == 'cls':
        return mof_class(p['cls'])
    if p['k'] == 'inst':
        return mof_inst(p['inst'])
    if p['k'] == 'qual':
        return mof_qualdecl(p['qual'])
    if p['k'] == 'include':
        # a file that does not exist: MOFCompiler.compile_file raises OSError (not a pywbem.Error)
        return '#pragma include ("c11_no_such_file.mof")'
    return 'class C11_Broken { string ; };'


def mof_items_text(items, tmpdir, counter, relative):
    """MOF text of a list of items; include files are written into tmpdir (named by include pragmas relative to the
    including file when the main text is compiled from a file in tmpdir, else by absolute path)"""
    out = []
    for it in items:
        k = it['k']
        if k == 'pragma_ns':
            out.append('#pragma namespace ("%s")' % it['ns'])
        elif k == 'bad_pragma':
            out.append('#pragma namespace ("//somehost/root/a")')
        elif k == 'other_pragma':
            out.append('#pragma locale ("en_US")')
        elif k == 'include_file':
            counter[0] += 1
            name = 'inc%d.mof' % counter[0]
            inner = mof_items_text(it['items'], tmpdir, counter, relative)
            with open(os.path.join(tmpdir, name), 'w') as f:
                f.write(inner + '\n')
            out.append('#pragma include ("%s")' % (name if relative else os.path.join(tmpdir, name)))
        else:
            out.append(mof_prod(it))
    return '\n'.join(out)


SCHEMA_CLASS = 'C11_Target'


def write_schema_dirs(root, files):
    """DMTF-schema-like directories: <root>/S<i>/schema.mof (the schema pragma file: one include pragma per class file)
    and <root>/S<i>/cls/<class>.mof; the class file of SCHEMA_CLASS holds the productions of files[i]; a file that is
    'not listed' names another class only.  Returns the pragma file paths."""
    out = []
    for i, f in enumerate(files):
        sdir = os.path.join(root, 'S%d' % i)
        cdir = os.path.join(sdir, 'cls')
        os.makedirs(cdir)
        listed = SCHEMA_CLASS if f.get('listed', True) else 'C11_Other'
        with open(os.path.join(sdir, 'schema.mof'), 'w') as fh:
            fh.write('#pragma locale ("en_US")\n#pragma include ("cls/C11_Unrelated.mof")\n'
                     '#pragma include ("cls/%s.mof")\n' % listed)
        with open(os.path.join(cdir, 'C11_Unrelated.mof'), 'w') as fh:
            fh.write('class C11_Unrelated { string never_compiled; };\n')
        with open(os.path.join(cdir, '%s.mof' % listed), 'w') as fh:
            fh.write(mof_items_text(f.get('prods', []), cdir, [100 * (i + 1)], relative=True) + '\n')
        out.append(os.path.join(sdir, 'schema.mof'))
    return out


def py_obj(o):
    import pywbem
    if o['k'] == 'cls':
        return py_class(o['cls'])
    if o['k'] == 'qual':
        return py_qualdecl(o['qual'])
    if o['k'] == 'inst':
        i = py_inst(o['inst'])
        if o['path'] is not None:
            i.path = py_path(o['path'])
        return i
    return pywbem.CIMProperty('notacimobject', 'x')


# --------------------------------------------------------------------------- real repository -> abstract / full dump

def abs_quse(u):
    return {'name': u.name, 'ty': u.type, 'val': u.value if isinstance(u.value, str) else None,
            'propagated': bool(u.propagated)}


def abs_scalar(v):
    if isinstance(v, str):
        return {'s': v}
    if isinstance(v, bool):
        return {'s': 'bool:%s' % v}
    if isinstance(v, int):
        return {'i': str(int(v))}
    return {'s': 'other:%r' % (v,)}


def abs_val(v):
    import pywbem
    if v is None:
        return None
    if isinstance(v, pywbem.CIMInstanceName):
        return {'ref': {'cls': v.classname, 'ns': v.namespace, 'host': v.host,
                        'keys': [[k, abs_scalar(x)] for k, x in v.keybindings.items()]}}
    return abs_scalar(v)


def body_of(d):
    for (ty, b), v in BODY_VALUES.items():
        if ty == d.type and v == d.value and type(v) is type(d.value):
            return b
    return 99


def abstract_state(conn):
    rep = conn.cimrepository
    nss = []
    for ns in rep.namespaces:
        classes = []
        for c in rep.get_class_store(ns).iter_values(copy=False):
            classes.append({'name': c.classname, 'super': c.superclass,
                            'quals': [abs_quse(u) for u in c.qualifiers.values()],
                            'props': [{'name': p.name, 'ty': p.type, 'arr': bool(p.is_array),
                                       'ref': p.reference_class,
                                       'quals': [abs_quse(u) for u in p.qualifiers.values()],
                                       'origin': p.class_origin, 'propagated': bool(p.propagated)}
                                      for p in c.properties.values()],
                            'methods': [{'name': m.name, 'ret': m.return_type,
                                         'quals': [abs_quse(u) for u in m.qualifiers.values()],
                                         'params': [{'name': p.name, 'ty': p.type, 'arr': bool(p.is_array),
                                                     'ref': p.reference_class,
                                                     'quals': [abs_quse(u) for u in p.qualifiers.values()]}
                                                    for p in m.parameters.values()],
                                         'origin': m.class_origin, 'propagated': bool(m.propagated)}
                                        for m in c.methods.values()]})
        quals = []
        for d in rep.get_qualifier_store(ns).iter_values(copy=False):
            quals.append({'name': d.name, 'ty': d.type,
                          'scopes': sorted(k.lower() for k, v in d.scopes.items() if v), 'body': body_of(d)})
        insts = []
        for i in rep.get_instance_store(ns).iter_values(copy=False):
            insts.append({'path': {'cls': i.path.classname, 'ns': i.path.namespace,
                                   'keys': [[k, abs_val(v)] for k, v in i.path.keybindings.items()]},
                          'cls': i.classname,
                          'props': [{'name': p.name, 'ty': p.type, 'arr': bool(p.is_array), 'val': abs_val(p.value)}
                                    for p in i.properties.values()]})
        nss.append({'name': ns, 'classes': classes, 'quals': quals, 'insts': insts})
    return {'nss': nss}


def full_dump(conn):
    """everything the repository contains, at full fidelity, in store order"""
    rep = conn.cimrepository
    out = []
    for ns in rep.namespaces:
        cs = [(c.classname, c.tocimxmlstr(), repr(c)) for c in rep.get_class_store(ns).iter_values(copy=False)]
        qs = [(d.name, d.tocimxmlstr(), repr(d)) for d in rep.get_qualifier_store(ns).iter_values(copy=False)]
        store = rep.get_instance_store(ns)
        keys = [repr(k) for k in store.iter_names()]
        is_ = [(repr(i.path), i.tocimxmlstr(), repr(i)) for i in store.iter_values(copy=False)]
        out.append((ns, cs, qs, keys, is_))
    return out


def dump_diff(before, after):
    """short description of what differs between two full dumps"""
    b = {x[0].lower(): x for x in before}
    a = {x[0].lower(): x for x in after}
    out = []
    for ns in b:
        if ns not in a:
            out.append('namespace %s removed' % ns)
    for ns in a:
        if ns not in b:
            out.append('namespace %s added' % ns)
            continue
        for idx, what in ((1, 'classes'), (2, 'qualifier declarations'), (4, 'instances')):
            bn = [x[0] for x in b[ns][idx]]
            an = [x[0] for x in a[ns][idx]]
            if b[ns][idx] != a[ns][idx]:
                added = [x for x in an if x not in bn]
                removed = [x for x in bn if x not in an]
                out.append('%s: %s added=%s removed=%s%s' % (ns, what, added[:4], removed[:4],
                                                           '' if added or removed else ' (content/order changed)'))
    if [x[0] for x in before] != [x[0] for x in after] and not out:
        out.append('namespace order/case changed')
    return out


# --------------------------------------------------------------------------- running one operation on the real code

def real_op(conn, op):
    """execute op (model JSON) through the public API of FakedWBEMConnection"""
    import pywbem
    from pywbem._nocasedict import NocaseDict
    k = op['op']
    ns = op.get('ns')
    if k == 'createClass':
        conn.CreateClass(py_class(op['cls']), namespace=ns)
    elif k == 'modifyClass':
        conn.ModifyClass(py_class(op['cls']), namespace=ns)
    elif k == 'deleteClass':
        conn.DeleteClass(op['name'], namespace=ns)
    elif k == 'setQualifier':
        conn.SetQualifier(py_qualdecl(op['qual']), namespace=ns)
    elif k == 'deleteQualifier':
        conn.DeleteQualifier(op['name'], namespace=ns)
    elif k == 'createInstance':
        conn.CreateInstance(py_inst(op['inst']), namespace=ns)
    elif k == 'modifyInstance':
        i = py_inst(op['inst'])
        i.path = py_path(op['path'])
        i.path.namespace = ns
        if op.get('pl') is not None:
            conn.ModifyInstance(i, PropertyList=list(op['pl']))
        else:
            conn.ModifyInstance(i)
    elif k == 'installUserProvider':
        conn.register_provider(make_user_provider(conn, op), namespaces=[ns])
    elif k == 'installNsProvider':
        import pywbem_mock
        conn.register_provider(pywbem_mock.CIMNamespaceProvider(conn.cimrepository), namespaces=[ns])
    elif k == 'deleteInstance':
        p = py_path(op['path'])
        p.namespace = ns
        conn.DeleteInstance(p)
    elif k == 'addNamespace':
        conn.add_namespace(ns)
    elif k == 'removeNamespace':
        conn.remove_namespace(ns)
    elif k == 'addObjects':
        conn.add_cimobjects([py_obj(o) for o in op['objs']], namespace=ns)
    elif k == 'addObject':
        conn.add_cimobjects(py_obj(op['obj']), namespace=ns)
    elif k == 'compileSchema':
        import shutil
        if not op.get('keep_cache'):
            conn._mofwbemconnection.classes = NocaseDict()      # pylint: disable=protected-access
        root = tempfile.mkdtemp(prefix='c11_schema_')
        try:
            pragma_files = write_schema_dirs(root, op['files'])
            conn.compile_schema_classes([SCHEMA_CLASS], pragma_files if len(pragma_files) > 1 or op.get('as_list')
                                        else pragma_files[0], namespace=ns)
        finally:
            shutil.rmtree(root, ignore_errors=True)
    elif k == 'compileMof':
        # the class cache of the MOF connection is not repository content and not modelled: start each compile
        # with an empty cache (the oracle-only search also runs with the cache left alone)
        if not op.get('keep_cache'):
            conn._mofwbemconnection.classes = NocaseDict()      # pylint: disable=protected-access
        import shutil
        tmpdir = tempfile.mkdtemp(prefix='c11_')
        try:
            via_file = op.get('via') == 'file'
            text = mof_items_text(op['prods'], tmpdir, [0], relative=via_file)
            if via_file:
                path = os.path.join(tmpdir, 'main.mof')
                with open(path, 'w') as f:
                    f.write(text)
                conn.compile_mof_file(path, namespace=ns)
            else:
                conn.compile_mof_string(text, namespace=ns)
        finally:
            shutil.rmtree(tmpdir, ignore_errors=True)
    else:
        raise ValueError(op)


def make_user_provider(conn, op):
    """a user-defined instance-write provider that rejects (with a non-pywbem exception or a CIMError) requests whose
    trigger property / keybinding has one of the listed values and otherwise delegates to the default implementation"""
    import pywbem
    import pywbem_mock

    def boom():
        if op['exc'] == 'CIMError':
            return pywbem.CIMError(op['code'], 'rejected by user-defined provider')
        return {'ValueError': ValueError, 'TypeError': TypeError, 'KeyError': KeyError, 'OSError': OSError}[op['exc']](
            'rejected by user-defined provider')

    class RejectingProvider(pywbem_mock.InstanceWriteProvider):
        provider_classnames = op['cls']

        def __init__(self, cimrepository):
            super().__init__(cimrepository)

        def CreateInstance(self, namespace, new_instance):
            if op['trigger'] in new_instance and new_instance[op['trigger']] in op['rej_create']:
                raise boom()
            return super().CreateInstance(namespace, new_instance)

        def ModifyInstance(self, modified_instance, IncludeQualifiers=None):
            if modified_instance.path.keybindings.get(op['trigger']) in op['rej_modify']:
                raise boom()
            return super().ModifyInstance(modified_instance, IncludeQualifiers=IncludeQualifiers)

        def DeleteInstance(self, InstanceName):
            if InstanceName.keybindings.get(op['trigger']) in op['rej_delete']:
                raise boom()
            return super().DeleteInstance(InstanceName)

    return RejectingProvider(conn.cimrepository)


def op_sig(op, exc):
    """classification of a failing call for known-finding matching"""
    sig = {'kind': 'repository_changed_by_failed_call', 'entry': op['op'], 'exc': exc.get('exc'),
           'code': exc.get('code')}
    if op['op'] in ('addObjects', 'compileMof', 'compileSchema'):
        sig['fail_pos'] = op.get('fail_pos')
        sig['fail_pos_ge2'] = bool(op.get('fail_pos') and op['fail_pos'] >= 2)
    if op.get('reason'):
        sig['reason'] = op['reason']
    return sig


class Real:
    def __init__(self, nss):
        import pywbem_mock
        self.conn = pywbem_mock.FakedWBEMConnection(default_namespace=nss[0])
        for ns in nss[1:]:
            self.conn.add_namespace(ns)
        self.violations = []
        self.last = None        # full dump after the previous call, if that call raised and changed nothing

    def step(self, op, check=True):
        """returns (outcome json, violation or None)"""
        before = self.last if self.last is not None else full_dump(self.conn)
        self.last = None
        try:
            real_op(self.conn, op)
            return None, None
        except Exception as e:  # noqa
            exc = common.exc_json(e)
            viol = None
            after = full_dump(self.conn)
            if after != before:
                viol = (op_sig(op, exc), dump_diff(before, after))
            else:
                self.last = after
            return exc, viol


# --------------------------------------------------------------------------- history generator

def recase(rng, s):
    r = rng.random()
    if r < 0.5:
        return s
    if r < 0.75:
        return s.upper()
    if r < 0.9:
        return s.lower()
    return ''.join(c.upper() if rng.random() < 0.5 else c.lower() for c in s)


class Gen:
    """generates the next operation from the abstract state of the REAL repository"""

    def __init__(self, rng, thorough):
        self.rng = rng
        self.n = 0
        self.thorough = thorough
        self.nsprov = None      # Interop namespace the CIM_Namespace provider is registered for, if any
        self.userprov = None    # installUserProvider op of the registered user-defined provider, if any

    def fresh(self, pre):
        self.n += 1
        return '%s%d' % (pre, self.n)

    # ---- queries on the abstract state
    @staticmethod
    def ns_names(st):
        return [n['name'] for n in st['nss']]

    def pick_ns(self, st, nonempty=False):
        c = [n for n in st['nss'] if n['classes']] if nonempty else st['nss']
        return self.rng.choice(c or st['nss'])

    @staticmethod
    def keyprops(c):
        return [p for p in c['props'] if any(u['name'].lower() == 'key' for u in p['quals'])]

    @staticmethod
    def is_assoc(c):
        return any(u['name'].lower() == 'association' for u in c['quals'])

    @staticmethod
    def subs(n, name):
        return [c for c in n['classes'] if c['super'] and c['super'].lower() == name.lower()]

    @staticmethod
    def insts_of(n, name):
        return [i for i in n['insts'] if i['path']['cls'].lower() == name.lower()]

    @staticmethod
    def find_class(n, name):
        for c in n['classes']:
            if c['name'].lower() == name.lower():
                return c
        return None

    # ---- building blocks
    def new_class(self, n, sup=None):
        name = self.fresh('TC_')
        props = []
        if sup is None:
            props.append(pdef('k', 'string', quals=[KEYQ]))
        for _ in range(self.rng.choice([0, 1, 1, 2])):
            props.append(pdef(self.fresh('p'), self.rng.choice(['string', 'uint32', 'string'])))
        quals = []
        if self.rng.random() < 0.3:
            quals.append(q('Description', 'string', 'd'))
        if self.rng.random() < 0.15:
            quals.append(q('Extra1'))
        methods = []
        if self.rng.random() < 0.35:
            for _ in range(self.rng.choice([1, 1, 2])):
                methods.append(self.new_method(n))
        return cdef(name, sup, quals, props, methods)

    def new_method(self, n, name=None):
        rng = self.rng
        params = []
        for _ in range(rng.choice([0, 1, 2])):
            params.append(pdef(self.fresh('a'), rng.choice(['string', 'uint32']), arr=rng.random() < 0.2,
                               quals=[q('IN')] if rng.random() < 0.5 else []))
        plain = [c for c in n['classes'] if not self.is_assoc(c)] if n else []
        if plain and rng.random() < 0.3:
            params.append(pdef(self.fresh('r'), 'reference', ref=rng.choice(plain)['name']))
        return mdef(name or self.fresh('Meth'), rng.choice(['uint32', 'string', 'uint32']),
                    [q('Description', 'string', 'm')] if rng.random() < 0.3 else [], params)

    def new_assoc(self, n, key_refs=True):
        plain = [c for c in n['classes'] if not self.is_assoc(c) and self.keyprops(c)]
        if not plain:
            return None
        a, b = self.rng.choice(plain), self.rng.choice(plain)
        name = self.fresh('TA_')
        if key_refs:
            props = [pdef('left', 'reference', ref=a['name'], quals=[KEYQ]),
                     pdef('right', 'reference', ref=b['name'], quals=[KEYQ]), pdef('w', 'uint32')]
        else:
            props = [pdef('id', 'string', quals=[KEYQ]), pdef('left', 'reference', ref=a['name']),
                     pdef('right', 'reference', ref=b['name'])]
        return cdef(name, None, [ASSOCQ], props)

    def inst_for(self, n, c, keyval=None):
        """a valid new instance of plain class c (all key properties, some others)"""
        props = []
        kv = keyval or self.fresh('x')
        for p in c['props']:
            iskey = p in self.keyprops(c)
            if p['ty'] == 'reference' or p['arr'] or any(u['name'].lower() == 'embeddedinstance' for u in p['quals']):
                continue
            if iskey or self.rng.random() < 0.6:
                if p['ty'] == 'string':
                    props.append(pv(recase(self.rng, p['name']), 'string', sval(kv if iskey else self.fresh('s'))))
                elif p['ty'] == 'uint32':
                    props.append(pv(recase(self.rng, p['name']), 'uint32', ival(self.rng.randint(0, 9))))
        return {'cls': recase(self.rng, c['name']), 'props': props}

    def ref_to(self, st, cls_name, ns_pref=None, other_ns=False):
        """reference to an existing instance of class cls_name (or a subclass) -> refval or None"""
        cands = []
        for n in st['nss']:
            if ns_pref is not None and (n['name'].lower() == ns_pref.lower()) == other_ns:
                continue
            for i in n['insts']:
                if i['path']['cls'].lower() == cls_name.lower() and \
                        all(v is not None and 'ref' not in v for _, v in i['path']['keys']):
                    cands.append((n['name'], i))
        if not cands:
            return None
        ns, i = self.rng.choice(cands)
        return refval(i['path']['cls'], ns, [(k, v) for k, v in i['path']['keys']])

    def assoc_inst(self, st, n, c, cross=None):
        """valid instance of association class c in namespace n; cross: None=any, True=cross-namespace refs"""
        props = []
        for p in c['props']:
            if p['ty'] == 'reference':
                r = self.ref_to(st, p['ref'], n['name'],
                                other_ns=bool(cross) and (p['name'] == 'right' or (p['name'] == 'third' and self.rng.random() < 0.5)))
                if r is None:
                    r = self.ref_to(st, p['ref'])
                if r is None:
                    return None
                if self.rng.random() < 0.2:
                    r['ref']['ns'] = recase(self.rng, r['ref']['ns'])
                props.append(pv(p['name'], 'reference', r))
            elif p in self.keyprops(c):
                props.append(pv(p['name'], 'string', sval(self.fresh('a'))))
            elif p['ty'] == 'uint32' and self.rng.random() < 0.5:
                props.append(pv(p['name'], 'uint32', ival(self.rng.randint(0, 9))))
        return {'cls': c['name'], 'props': props}

    # ---- setup
    def setup_ops(self, nss):
        rng = self.rng
        ops = []
        for ns in nss:
            mode = rng.choice(['objs', 'objs', 'mof', 'set'])
            decls = [d for d in QDECLS]
            if mode == 'objs':
                ops.append({'op': 'addObjects', 'ns': ns, 'objs': [{'k': 'qual', 'qual': d} for d in decls]})
            elif mode == 'mof':
                ops.append({'op': 'compileMof', 'ns': ns, 'prods': [{'k': 'qual', 'qual': d} for d in decls]})
            else:
                for d in decls:
                    ops.append({'op': 'setQualifier', 'ns': ns, 'qual': d})
        return ops

    def schema(self):
        """a class forest shared by the namespaces: (class defs in dependency order)"""
        rng = self.rng
        classes = []
        roots = []
        for _ in range(rng.choice([2, 2, 3])):
            c = self.new_class(None)
            classes.append(c)
            roots.append(c)
        plain = list(roots)
        for _ in range(rng.choice([1, 2, 3, 4])):
            sup = rng.choice(plain)
            c = self.new_class(None, sup['name'])
            classes.append(c)
            plain.append(c)
        a, b = rng.choice(roots), rng.choice(roots)
        classes.append(cdef(self.fresh('TA_'), None, [ASSOCQ],
                            [pdef('left', 'reference', ref=a['name'], quals=[KEYQ]),
                             pdef('right', 'reference', ref=b['name'], quals=[KEYQ]), pdef('w', 'uint32')]))
        classes.append(cdef(self.fresh('TM_'), None, [ASSOCQ],
                            [pdef('id', 'string', quals=[KEYQ]), pdef('left', 'reference', ref=a['name']),
                             pdef('right', 'reference', ref=b['name'])]))
        if rng.random() < 0.6:
            c3 = rng.choice(roots)
            classes.append(cdef(self.fresh('TT_'), None, [ASSOCQ],
                                [pdef('left', 'reference', ref=a['name'], quals=[KEYQ]),
                                 pdef('right', 'reference', ref=b['name'], quals=[KEYQ]),
                                 pdef('third', 'reference', ref=c3['name'], quals=[KEYQ])]))
        if rng.random() < 0.5:
            classes.append(cdef(self.fresh('TE_'), None, [],
                                [pdef('k', 'string', quals=[KEYQ]),
                                 pdef('emb', 'string', quals=[q('EmbeddedInstance', 'string', a['name'])])]))
        if rng.random() < 0.4:
            classes.append(cdef(self.fresh('TI_'), None, [q('Indication')], [pdef('k', 'string', quals=[KEYQ])]))
        return classes

    def schema_ops(self, nss, classes):
        rng = self.rng
        ops = []
        for idx, ns in enumerate(nss):
            cl = list(classes)
            if idx > 0 and rng.random() < 0.3:
                cl = cl[:-1] if rng.random() < 0.5 else [c for c in cl if not c['name'].startswith('TA_')]
            mode = rng.choice(['objs', 'mof', 'create', 'objs'])
            if mode == 'objs':
                ops.append({'op': 'addObjects', 'ns': ns, 'objs': [{'k': 'cls', 'cls': c} for c in cl]})
            elif mode == 'mof':
                ops.append({'op': 'compileMof', 'ns': ns, 'prods': [{'k': 'cls', 'cls': c} for c in cl],
                            'via': rng.choice(['string', 'string', 'file'])})
            else:
                for c in cl:
                    ops.append({'op': 'createClass', 'ns': ns, 'cls': c})
        return ops

    # ---- one random operation: returns op (with 'reason' tag; reason 'ok*' = expected to succeed)
    def next_op(self, st):
        rng = self.rng
        kinds = ['createClass'] * 3 + ['modifyClass'] * 2 + ['deleteClass'] * 1 + ['setQualifier', 'deleteQualifier'] + \
            ['createInstance'] * 6 + ['modifyInstance'] * 3 + ['deleteInstance'] * 2 + ['addNamespace', 'removeNamespace'] + \
            ['addObjects'] * 4 + ['addObject'] + ['compileMof'] * 4 + ['compileSchema'] * 2
        for _ in range(30):
            k = rng.choice(kinds)
            op = getattr(self, 'g_' + k)(st)
            if op is not None:
                return op
        return {'op': 'addNamespace', 'ns': self.fresh('root/n'), 'reason': 'ok'}

    def next_assoc_op(self, st):
        """operations on (multi-namespace) associations, rejected for the reasons specific to them"""
        rng = self.rng
        for _ in range(20):
            reason = rng.choice(['create_cross', 'create_cross', 'create_same', 'cross_case_dup', 'cross_case_dup',
                                 'multi_noclass', 'multi_exists', 'onesided',
                                 'delete_onesided', 'modify_onesided', 'delete_multi', 'modify_multi', 'modify_retarget_third',
                                 'modify_retarget_third', 'ref_missing',
                                 'ref_bad_ns', 'ref_host', 'ref_no_ns', 'ref_null', 'case_ns'])
            op = self.g_assoc(st, reason)
            if op is not None:
                return op
        return None

    def g_assoc(self, st, reason):
        rng = self.rng
        n = self.pick_ns(st, nonempty=True)
        assocs = [c for c in n['classes'] if self.is_assoc(c) and any(p['ty'] == 'reference' for p in c['props'])]
        if reason == 'cross_case_dup':
            # every reference names the SAME other namespace, in different lexical case: one copy there, not two
            if not assocs or len(st['nss']) < 2:
                return None
            c = rng.choice(assocs)
            other = rng.choice([m for m in st['nss'] if m['name'].lower() != n['name'].lower()])
            props = []
            variants = [other['name'], other['name'].upper(), other['name'].lower().title(), other['name'].swapcase()]
            vi = 0
            for p in c['props']:
                if p['ty'] == 'reference':
                    r = self.ref_to(st, p['ref'], other['name'], other_ns=False)
                    if r is None:
                        return None
                    r['ref']['ns'] = variants[vi % len(variants)]
                    vi += 1
                    props.append(pv(p['name'], 'reference', r))
                elif p in self.keyprops(c):
                    props.append(pv(p['name'], 'string', sval(self.fresh('a'))))
            return {'op': 'createInstance', 'ns': n['name'], 'inst': {'cls': c['name'], 'props': props},
                    'reason': 'assoc_cross_case_dup'}
        if reason in ('create_cross', 'create_same', 'ref_missing', 'ref_bad_ns', 'ref_host', 'ref_no_ns', 'ref_null', 'case_ns',
                      'multi_noclass', 'multi_exists'):
            if not assocs:
                return None
            c = rng.choice(assocs)
            i = self.assoc_inst(st, n, c, cross=(reason not in ('create_same', 'case_ns')))
            if i is None:
                return None
            refs = [p for p in i['props'] if p['ty'] == 'reference']
            others = self.other_nss(n, {'props': i['props']})
            if reason == 'create_cross' and not others:
                return None
            if reason == 'case_ns':
                for p in refs:
                    p['val']['ref']['ns'] = n['name'].upper() if rng.random() < 0.7 else p['val']['ref']['ns']
            elif reason == 'ref_missing':
                r = rng.choice(refs)['val']['ref']
                r['keys'] = [[k, sval('nosuchinstance')] for k, _ in r['keys']]
            elif reason == 'ref_bad_ns':
                rng.choice(refs)['val']['ref']['ns'] = self.bad_ns()
            elif reason == 'ref_host':
                rng.choice(refs)['val']['ref']['host'] = 'h.example'
            elif reason == 'ref_no_ns':
                rng.choice(refs)['val']['ref']['ns'] = None
            elif reason == 'ref_null':
                rng.choice(refs)['val'] = None
            elif reason == 'multi_noclass':
                if not others or all(self.find_class(self.find_ns(st, o), c['name']) for o in others if self.find_ns(st, o)):
                    return None
            elif reason == 'multi_exists':
                if not others:
                    return None
                on = self.find_ns(st, rng.choice(others))
                if on is None or not self.find_class(on, c['name']):
                    return None
                keys = []
                for kp in self.keyprops(c):
                    v = [p['val'] for p in i['props'] if p['name'].lower() == kp['name'].lower()]
                    if not v:
                        return None
                    keys.append([kp['name'], v[0]])
                pre = {'op': 'addObject', 'ns': on['name'],
                       'obj': {'k': 'inst', 'path': {'cls': c['name'], 'ns': on['name'], 'keys': keys}, 'inst': i},
                       'reason': 'ok_onesided_assoc'}
                return [pre, {'op': 'createInstance', 'ns': n['name'], 'inst': i, 'reason': 'multi_exists'}]
            return {'op': 'createInstance', 'ns': n['name'], 'inst': i, 'reason': 'assoc_' + reason}
        if reason == 'onesided':
            return self.make_onesided(st)
        if reason == 'modify_retarget_third':
            # a multi-namespace association whose non-key reference into another namespace is re-targeted to an
            # instance in a THIRD namespace (no copy of the association there): rejected - and the copy in the
            # namespace that is no longer referenced must still be there
            cands = []
            for m in st['nss']:
                for x in m['insts']:
                    c = self.find_class(m, x['cls'])
                    if c is None or not self.is_assoc(c):
                        continue
                    keys = {p['name'].lower() for p in self.keyprops(c)}
                    for p in x['props']:
                        if p['ty'] == 'reference' and p['name'].lower() not in keys and p['val'] is not None and \
                                p['val']['ref']['ns'] and p['val']['ref']['ns'].lower() != m['name'].lower():
                            cands.append((m, x, c, p))
            rng.shuffle(cands)
            for m, x, c, p in cands:
                decl = [d for d in c['props'] if d['name'].lower() == p['name'].lower()][0]
                thirds = [t for t in st['nss'] if t['name'].lower() not in (m['name'].lower(), p['val']['ref']['ns'].lower())]
                rng.shuffle(thirds)
                for t in thirds:
                    r = self.ref_to(st, decl['ref'], t['name'], other_ns=False)
                    if r is not None:
                        path = {'cls': x['path']['cls'], 'ns': None, 'keys': [[k, v] for k, v in x['path']['keys']]}
                        return {'op': 'modifyInstance', 'ns': m['name'], 'path': path,
                                'inst': {'cls': x['cls'], 'props': [pv(p['name'], 'reference', r)]},
                                'reason': 'modify_retarget_third'}
            return None
        multi = []
        for m in st['nss']:
            for x in m['insts']:
                c = self.find_class(m, x['cls'])
                if c is not None and self.is_assoc(c) and self.other_nss(m, x):
                    multi.append((m, x))
        one = self.onesided(st)
        if reason in ('delete_onesided', 'modify_onesided'):
            pool = one
        else:
            pool = [mx for mx in multi if not any(mx[1] is o[1] for o in one)]
        if not pool:
            return None
        m, x = rng.choice(pool)
        path = {'cls': x['path']['cls'], 'ns': None, 'keys': [[k, v] for k, v in x['path']['keys']]}
        if reason.startswith('delete'):
            return {'op': 'deleteInstance', 'ns': m['name'], 'path': path, 'reason': reason}
        c = self.find_class(m, x['cls'])
        keys = {p['name'].lower() for p in self.keyprops(c)}
        props = []
        for p in c['props']:
            if p['name'].lower() in keys or p['arr']:
                continue
            if p['ty'] == 'uint32':
                props.append(pv(p['name'], 'uint32', ival(rng.randint(100, 999))))
            elif p['ty'] == 'reference' and rng.random() < 0.6:
                r = self.ref_to(st, p['ref'], m['name'], other_ns=rng.random() < 0.5) or self.ref_to(st, p['ref'])
                if r is not None:
                    props.append(pv(p['name'], 'reference', r))
        if not props:
            return None
        return {'op': 'modifyInstance', 'ns': m['name'], 'path': path, 'inst': {'cls': x['cls'], 'props': props},
                'reason': reason}

    def bad_ns(self):
        return self.rng.choice(['root/zz', 'nope', 'root/a/b'])

    # ---- multi-namespace association helpers
    def other_nss(self, n, x):
        """namespaces (lower) other than n referenced by the reference properties of stored instance x"""
        out = []
        for p in x['props']:
            if p['ty'] == 'reference' and p['val'] is not None and 'ref' in p['val']:
                ns = p['val']['ref']['ns']
                if ns and ns.lower() != n['name'].lower() and ns.lower() not in out:
                    out.append(ns.lower())
        return out

    def find_ns(self, st, name):
        for n in st['nss']:
            if n['name'].lower() == name.lower():
                return n
        return None

    @staticmethod
    def same_inst(a, b):
        def norm(v):
            return json.dumps(v, sort_keys=True).lower()
        return a['path']['cls'].lower() == b['path']['cls'].lower() and \
            sorted((k.lower(), norm(v)) for k, v in a['path']['keys']) == sorted((k.lower(), norm(v)) for k, v in b['path']['keys'])

    def onesided(self, st):
        """(namespace record, stored association instance) whose copy in another referenced namespace is missing"""
        out = []
        for n in st['nss']:
            for x in n['insts']:
                c = self.find_class(n, x['cls'])
                if c is None or not self.is_assoc(c):
                    continue
                for o in self.other_nss(n, x):
                    on = self.find_ns(st, o)
                    if on is not None and not any(self.same_inst(x, y) for y in on['insts']):
                        out.append((n, x))
                        break
        return out

    def make_onesided(self, st):
        """an add_cimobjects call that stores a cross-namespace association instance in ONE namespace only"""
        rng = self.rng
        for _ in range(10):
            n = self.pick_ns(st, nonempty=True)
            assocs = [c for c in n['classes'] if self.is_assoc(c) and any(p['ty'] == 'reference' for p in c['props'])]
            if not assocs:
                continue
            c = rng.choice(assocs)
            i = self.assoc_inst(st, n, c, cross=True)
            if i is None:
                continue
            x = {'props': i['props']}
            if not self.other_nss(n, x):
                continue
            both = False
            if rng.random() < 0.3:
                # the last reference names a namespace that does not exist (only add_cimobjects accepts that);
                # half of the time the instance is then stored in the other referenced namespaces as well
                [p for p in i['props'] if p['ty'] == 'reference'][-1]['val']['ref']['ns'] = 'root/zz'
                both = rng.random() < 0.6
            keys = []
            for kp in self.keyprops(c):
                v = [p['val'] for p in i['props'] if p['name'].lower() == kp['name'].lower()]
                if not v:
                    break
                keys.append([kp['name'], v[0]])
            else:
                ops = [{'op': 'addObject', 'ns': n['name'],
                        'obj': {'k': 'inst', 'path': {'cls': c['name'], 'ns': n['name'], 'keys': keys}, 'inst': i},
                        'reason': 'ok_onesided_assoc'}]
                if both:
                    for o in self.other_nss(n, {'props': i['props']}):
                        on = self.find_ns(st, o)
                        if on is not None and self.find_class(on, c['name']):
                            ops.append({'op': 'addObject', 'ns': on['name'],
                                        'obj': {'k': 'inst', 'path': {'cls': c['name'], 'ns': on['name'], 'keys': keys},
                                                'inst': i}, 'reason': 'ok_onesided_assoc'})
                return ops if len(ops) > 1 else ops[0]
        return None

    def g_createClass(self, st):
        rng = self.rng
        n = self.pick_ns(st, nonempty=True)
        ns = recase(rng, n['name'])
        plain = [c for c in n['classes'] if not self.is_assoc(c)]
        reason = rng.choice(['ok', 'ok', 'ok_sub', 'ok_assoc', 'ok_assoc_sub', 'bad_ns', 'exists', 'nosuper',
                             'missing_ref', 'missing_emb', 'assoc_sub_nonassoc', 'ref_in_nonassoc',
                             'undeclared_qual', 'undeclared_prop_qual', 'qual_type', 'qual_scope', 'dup_prop',
                             'self_ref', 'ok_method', 'method_missing_ref', 'method_undeclared_qual', 'param_qual_scope',
                             'dup_method', 'ok_override_prop', 'ok_override_prop', 'override_type_mismatch',
                             'override_missing_name', 'ok_override_other_name', 'ok_override_method',
                             'ok_override_method_params_differ', 'override_method_rettype', 'override_method_missing'])
        c = None
        if reason == 'ok':
            c = self.new_class(n)
        elif reason == 'ok_sub' and plain:
            c = self.new_class(n, rng.choice(plain)['name'])
        elif reason == 'ok_assoc':
            c = self.new_assoc(n, rng.random() < 0.6)
        elif reason == 'ok_assoc_sub':
            assocs = [x for x in n['classes'] if self.is_assoc(x)]
            if assocs:
                c = cdef(self.fresh('TA_'), rng.choice(assocs)['name'], [ASSOCQ], [pdef(self.fresh('p'), 'uint32')])
        elif reason == 'bad_ns':
            c = self.new_class(n)
            ns = self.bad_ns()
        elif reason == 'exists' and n['classes']:
            c = self.new_class(n)
            c['name'] = recase(rng, rng.choice(n['classes'])['name'])
        elif reason == 'nosuper':
            c = self.new_class(n, 'TC_Nope')
        elif reason == 'missing_ref':
            c = self.new_assoc(n)
            if c:
                c['props'][rng.randrange(2)]['ref'] = 'TC_Nope'
        elif reason == 'missing_emb':
            c = self.new_class(n)
            c['props'].append(pdef('emb', 'string', quals=[q('EmbeddedInstance', 'string', 'TC_Nope')]))
        elif reason == 'assoc_sub_nonassoc' and plain:
            c = cdef(self.fresh('TA_'), rng.choice(plain)['name'], [ASSOCQ], [])
        elif reason == 'ref_in_nonassoc' and plain:
            c = self.new_class(n)
            c['props'].append(pdef('r', 'reference', ref=rng.choice(plain)['name']))
        elif reason == 'undeclared_qual':
            c = self.new_class(n)
            c['quals'].append(q('NoSuchQual'))
        elif reason == 'undeclared_prop_qual':
            c = self.new_class(n)
            c['props'][-1]['quals'].append(q('NoSuchQual'))
        elif reason == 'qual_type':
            c = self.new_class(n)
            c['props'][0]['quals'] = [q('Key', 'string', 'x')]
        elif reason == 'qual_scope':
            c = self.new_class(n)
            c['quals'].append(q('Key'))
        elif reason == 'dup_prop' and plain:
            sup = rng.choice(plain)
            c = self.new_class(n, sup['name'])
            if sup['props']:
                c['props'].append(pdef(recase(rng, rng.choice(sup['props'])['name']), 'string'))
            else:
                c = None
        elif reason == 'self_ref':
            name = self.fresh('TA_')
            c = cdef(name, None, [ASSOCQ], [pdef('left', 'reference', ref=name, quals=[KEYQ]),
                                            pdef('right', 'reference', ref=name.lower(), quals=[KEYQ])])
        elif reason == 'ok_method':
            c = self.new_class(n)
            c['methods'].append(self.new_method(n))
        elif reason == 'method_missing_ref':
            c = self.new_class(n)
            m = self.new_method(n)
            m['params'].append(pdef('r', 'reference', ref='TC_Nope'))
            c['methods'].append(m)
        elif reason == 'method_undeclared_qual':
            c = self.new_class(n)
            m = self.new_method(n)
            m['quals'].append(q('NoSuchQual'))
            c['methods'].append(m)
        elif reason == 'param_qual_scope':
            c = self.new_class(n)
            m = self.new_method(n)
            m['params'].append(pdef('pp', 'string', quals=[q('Key')]))
            c['methods'].append(m)
        elif reason.startswith('ok_override') or reason.startswith('override') or reason == 'dup_method':
            with_m = [x for x in plain if x.get('methods')]
            if 'method' in reason:
                if not with_m:
                    return None
                sup = rng.choice(with_m)
                sm = rng.choice(sup['methods'])
                c = self.new_class(n, sup['name'])
                c['methods'] = []
                ov = [q('Override', 'string', recase(rng, sm['name']))]
                params = [pdef(recase(rng, p['name']), p['ty'], p['arr'], p['ref'], []) for p in sm['params']]
                m = mdef(recase(rng, sm['name']), sm['ret'], ov + ([q('Description', 'string', 'o')] if rng.random() < 0.4 else []),
                         params)
                if reason == 'dup_method':
                    m['quals'] = []
                elif reason == 'ok_override_method_params_differ':
                    if params and rng.random() < 0.5:
                        m['params'] = params[:-1]
                    else:
                        m['params'] = params + [pdef('extra', 'string')]
                elif reason == 'override_method_rettype':
                    m['ret'] = 'string' if sm['ret'] != 'string' else 'uint32'
                elif reason == 'override_method_missing':
                    m['quals'] = [q('Override', 'string', 'NoSuchMethod')]
                c['methods'].append(m)
            else:
                cands = [(x, p) for x in plain for p in x['props'] if p['ty'] in ('string', 'uint32') and not p['arr']]
                if not cands:
                    return None
                sup, sp = rng.choice(cands)
                c = self.new_class(n, sup['name'])
                newp = pdef(recase(rng, sp['name']), sp['ty'], quals=[q('Override', 'string', recase(rng, sp['name']))] +
                            ([q('Description', 'string', 'o')] if rng.random() < 0.4 else []))
                if reason == 'override_type_mismatch':
                    newp['ty'] = 'uint32' if sp['ty'] == 'string' else 'string'
                elif reason == 'override_missing_name':
                    newp['quals'][0] = q('Override', 'string', 'nosuchprop')
                elif reason == 'ok_override_other_name':
                    others = [p for p in sup['props'] if p['name'].lower() != sp['name'].lower() and p['ty'] == sp['ty']
                              and not p['arr']]
                    if not others:
                        return None
                    newp['quals'][0] = q('Override', 'string', rng.choice(others)['name'])
                c['props'].append(newp)
        if c is None:
            return None
        return {'op': 'createClass', 'ns': ns, 'cls': c, 'reason': reason}

    def g_modifyClass(self, st):
        rng = self.rng
        n = self.pick_ns(st, nonempty=True)
        if not n['classes']:
            return None
        ns = recase(rng, n['name'])
        leafs = [c for c in n['classes'] if not self.subs(n, c['name']) and not self.insts_of(n, c['name'])]
        reason = rng.choice(['ok', 'ok', 'notfound', 'has_children', 'has_instances', 'nosuper', 'super_changed',
                             'super_dropped', 'missing_ref', 'undeclared_qual', 'bad_ns', 'dup_prop'])

        def redefine(c):
            """class definition with the own properties of stored class c (+ one new)"""
            own = [pdef(p['name'], p['ty'], p['arr'], p['ref'], unq(p['quals'])) for p in c['props'] if not p['propagated']]
            ownm = [mdef(m['name'], m['ret'], unq(m['quals']),
                         [pdef(p['name'], p['ty'], p['arr'], p['ref'], unq(p['quals'])) for p in m['params']])
                    for m in c.get('methods', []) if not m['propagated']]
            return cdef(recase(rng, c['name']), c['super'], unq(c['quals']), own + [pdef(self.fresh('m'), 'string')], ownm)
        c = None
        if reason == 'ok' and leafs:
            c = redefine(rng.choice(leafs))
        elif reason == 'notfound':
            c = self.new_class(n)
        elif reason == 'has_children':
            cands = [x for x in n['classes'] if self.subs(n, x['name'])]
            c = redefine(rng.choice(cands)) if cands else None
        elif reason == 'has_instances':
            cands = [x for x in n['classes'] if self.insts_of(n, x['name'])]
            c = redefine(rng.choice(cands)) if cands else None
        elif reason == 'nosuper' and leafs:
            c = redefine(rng.choice(leafs))
            c['super'] = 'TC_Nope'
        elif reason == 'super_changed' and leafs:
            c = redefine(rng.choice(leafs))
            others = [x['name'] for x in n['classes'] if x['name'].lower() not in (c['name'].lower(), (c['super'] or '').lower())]
            c['super'] = rng.choice(others) if others else None
        elif reason == 'super_dropped' and leafs:
            cands = [x for x in leafs if x['super']]
            if cands:
                c = redefine(rng.choice(cands))
                c['super'] = None
        elif reason == 'missing_ref' and leafs:
            cands = [x for x in leafs if self.is_assoc(x) and any(p['ty'] == 'reference' and not p['propagated'] for p in x['props'])]
            if cands:
                c = redefine(rng.choice(cands))
                [p for p in c['props'] if p['ty'] == 'reference'][0]['ref'] = 'TC_Nope'
        elif reason == 'undeclared_qual' and leafs:
            c = redefine(rng.choice(leafs))
            c['quals'] = c['quals'] + [q('NoSuchQual')]
        elif reason == 'bad_ns' and leafs:
            c = redefine(rng.choice(leafs))
            ns = self.bad_ns()
        elif reason == 'dup_prop' and leafs:
            cands = [x for x in leafs if any(p['propagated'] for p in x['props'])]
            if cands:
                x = rng.choice(cands)
                c = redefine(x)
                c['props'].append(pdef(recase(rng, [p for p in x['props'] if p['propagated']][0]['name']), 'string'))
        if c is None:
            return None
        return {'op': 'modifyClass', 'ns': ns, 'cls': c, 'reason': reason}

    def g_deleteClass(self, st):
        rng = self.rng
        n = self.pick_ns(st, nonempty=True)
        reason = rng.choice(['ok', 'ok', 'notfound', 'bad_ns'])
        if reason == 'ok' and n['classes']:
            return {'op': 'deleteClass', 'ns': recase(rng, n['name']), 'name': recase(rng, rng.choice(n['classes'])['name']),
                    'reason': reason}
        if reason == 'notfound':
            return {'op': 'deleteClass', 'ns': n['name'], 'name': 'TC_Nope', 'reason': reason}
        if reason == 'bad_ns' and n['classes']:
            return {'op': 'deleteClass', 'ns': self.bad_ns(), 'name': n['classes'][0]['name'], 'reason': reason}
        return None

    def g_setQualifier(self, st):
        rng = self.rng
        n = self.pick_ns(st)
        reason = rng.choice(['ok_new', 'ok_update', 'bad_ns'])
        if reason == 'ok_new':
            d = {'name': self.fresh('Q'), 'ty': rng.choice(['boolean', 'string']), 'scopes': sorted(rng.sample(['class', 'property', 'any', 'association'], 2)), 'body': 0}
        else:
            if not n['quals']:
                return None
            old = rng.choice(n['quals'])
            d = {'name': recase(rng, old['name']), 'ty': old['ty'], 'scopes': old['scopes'],
                 'body': rng.choice([0, 1, 2]) if old['ty'] == 'boolean' else rng.choice([0, 3, 4])}
        return {'op': 'setQualifier', 'ns': self.bad_ns() if reason == 'bad_ns' else recase(rng, n['name']), 'qual': d,
                'reason': reason}

    def g_deleteQualifier(self, st):
        rng = self.rng
        n = self.pick_ns(st)
        used = set()
        for c in n['classes']:
            used |= {u['name'].lower() for u in c['quals']}
            for p in c['props']:
                used |= {u['name'].lower() for u in p['quals']}
            for m in c.get('methods', []):
                used |= {u['name'].lower() for u in m['quals']}
                for p in m['params']:
                    used |= {u['name'].lower() for u in p['quals']}
        reason = rng.choice(['ok', 'in_use', 'notfound', 'bad_ns'])
        name = None
        if reason == 'ok':
            cands = [d['name'] for d in n['quals'] if d['name'].lower() not in used]
            name = rng.choice(cands) if cands else None
        elif reason == 'in_use':
            cands = [d['name'] for d in n['quals'] if d['name'].lower() in used]
            name = rng.choice(cands) if cands else None
        elif reason == 'notfound':
            name = 'NoSuchQual'
        elif n['quals']:
            name = n['quals'][0]['name']
        if name is None:
            return None
        return {'op': 'deleteQualifier', 'ns': self.bad_ns() if reason == 'bad_ns' else recase(rng, n['name']),
                'name': recase(rng, name), 'reason': reason}

    def g_createInstance(self, st):
        rng = self.rng
        n = self.pick_ns(st, nonempty=True)
        ns = n['name'] if rng.random() < 0.8 else recase(rng, n['name'])
        plain = [c for c in n['classes'] if not self.is_assoc(c) and self.keyprops(c)]
        assocs = [c for c in n['classes'] if self.is_assoc(c) and any(p['ty'] == 'reference' for p in c['props'])]
        reason = rng.choice(['ok'] * 6 + ['ok_assoc'] * 3 + ['ok_assoc_cross'] * 4 +
                            ['bad_ns', 'noclass', 'unknown_prop', 'wrong_type', 'wrong_array', 'missing_key', 'null_key',
                             'exists', 'exists', 'ref_host', 'ref_no_ns', 'ref_bad_ns', 'ref_missing', 'ref_null',
                             'assoc_exists', 'assoc_missing_key'])
        i = None
        if reason in ('ok', 'bad_ns', 'unknown_prop', 'wrong_type', 'wrong_array', 'missing_key', 'null_key', 'noclass'):
            if not plain:
                return None
            c = rng.choice(plain)
            i = self.inst_for(n, c)
            if reason == 'bad_ns':
                ns = self.bad_ns()
            elif reason == 'noclass':
                i['cls'] = 'TC_Nope'
            elif reason == 'unknown_prop':
                i['props'].append(pv('nosuchprop', 'string', sval('x')))
            elif reason == 'wrong_type':
                p = rng.choice(i['props'])
                if p['ty'] == 'string':
                    p['ty'], p['val'] = 'uint32', ival(3)
                else:
                    p['ty'], p['val'] = 'string', sval('3')
            elif reason == 'wrong_array':
                p = rng.choice(i['props'])
                p['arr'], p['val'] = True, None
            elif reason == 'missing_key':
                keys = {p['name'].lower() for p in self.keyprops(c)}
                i['props'] = [p for p in i['props'] if p['name'].lower() not in keys]
            elif reason == 'null_key':
                keys = {p['name'].lower() for p in self.keyprops(c)}
                for p in i['props']:
                    if p['name'].lower() in keys:
                        p['val'] = None
        elif reason == 'exists':
            cands = [x for x in n['insts'] if self.find_class(n, x['cls']) and not self.is_assoc(self.find_class(n, x['cls']))]
            if not cands:
                return None
            x = rng.choice(cands)
            i = {'cls': recase(rng, x['cls']), 'props': [pv(recase(rng, p['name']), p['ty'], p['val'], p['arr'])
                                                        for p in x['props']]}
        else:
            if not assocs:
                return None
            c = rng.choice(assocs)
            i = self.assoc_inst(st, n, c, cross=(reason == 'ok_assoc_cross'))
            if i is None:
                return None
            refs = [p for p in i['props'] if p['ty'] == 'reference']
            if reason == 'ref_host':
                rng.choice(refs)['val']['ref']['host'] = 'h.example'
            elif reason == 'ref_no_ns':
                rng.choice(refs)['val']['ref']['ns'] = None
            elif reason == 'ref_bad_ns':
                rng.choice(refs)['val']['ref']['ns'] = self.bad_ns()
            elif reason == 'ref_missing':
                r = rng.choice(refs)['val']['ref']
                r['keys'] = [[k, sval('nosuchinstance')] for k, _ in r['keys']]
            elif reason == 'ref_null':
                rng.choice(refs)['val'] = None
            elif reason == 'assoc_missing_key':
                keys = {p['name'].lower() for p in self.keyprops(c)}
                if not keys:
                    return None
                drop = rng.choice(sorted(keys))
                i['props'] = [p for p in i['props'] if p['name'].lower() != drop]
            elif reason == 'assoc_exists':
                cands = [x for x in n['insts'] if x['cls'].lower() == c['name'].lower()]
                if not cands:
                    return None
                x = rng.choice(cands)
                i = {'cls': x['cls'], 'props': [pv(p['name'], p['ty'], p['val'], p['arr']) for p in x['props']]}
        if i is None:
            return None
        return {'op': 'createInstance', 'ns': ns, 'inst': i, 'reason': reason}

    def g_modifyInstance(self, st):
        rng = self.rng
        cands = [(n, i) for n in st['nss'] for i in n['insts'] if self.find_class(n, i['cls'])]
        if not cands:
            return None
        n, x = rng.choice(cands)
        c = self.find_class(n, x['cls'])
        ns = n['name'] if rng.random() < 0.8 else recase(rng, n['name'])
        path = {'cls': recase(rng, x['path']['cls']), 'ns': None,
                'keys': [[recase(rng, k), v] for k, v in (x['path']['keys'] if rng.random() < 0.7 else reversed(x['path']['keys']))]}
        reason = rng.choice(['ok'] * 5 + ['ok_ref'] * 3 + ['notfound', 'noclass', 'cls_mismatch', 'unknown_prop', 'wrong_type', 'key_change',
                                                          'ref_null', 'ref_missing', 'bad_ns', 'ref_host'])
        keys = {p['name'].lower() for p in self.keyprops(c)}
        nonkey = [p for p in c['props'] if p['name'].lower() not in keys and not p['arr']]
        props = []
        for p in nonkey:
            if p['ty'] == 'string' and not any(u['name'].lower() == 'embeddedinstance' for u in p['quals']):
                props.append(pv(recase(rng, p['name']), 'string', rng.choice([sval(self.fresh('s')), None])))
            elif p['ty'] == 'uint32':
                props.append(pv(recase(rng, p['name']), 'uint32', ival(rng.randint(10, 99))))
        props = [p for p in props if rng.random() < 0.7]
        if rng.random() < 0.3:     # include unchanged key properties
            for p in x['props']:
                if p['name'].lower() in keys:
                    props.append(pv(p['name'], p['ty'], p['val'], p['arr']))
        i = {'cls': x['cls'], 'props': props}
        nkrefs = [p for p in nonkey if p['ty'] == 'reference']
        if reason == 'ok_ref' or reason in ('ref_null', 'ref_missing', 'ref_host'):
            if not nkrefs:
                return None
            p = rng.choice(nkrefs)
            r = self.ref_to(st, p['ref'], n['name'], other_ns=rng.random() < 0.4) or self.ref_to(st, p['ref'])
            if r is None:
                return None
            if reason == 'ref_null':
                r = None
            elif reason == 'ref_missing':
                r['ref']['keys'] = [[k, sval('nosuchinstance')] for k, _ in r['ref']['keys']]
            elif reason == 'ref_host':
                r['ref']['host'] = 'h.example'
            i['props'].append(pv(p['name'], 'reference', r))
        elif reason == 'notfound':
            path['keys'] = [[k, sval('nosuchinstance') if (v is not None and 's' in v) else v] for k, v in path['keys']]
            if path['keys'] == [[k, v] for k, v in path['keys'] if not (v is not None and 's' in v)]:
                return None
        elif reason == 'noclass':
            i['cls'] = 'TC_Nope'
            path['cls'] = 'TC_Nope'
        elif reason == 'cls_mismatch':
            others = [y['name'] for y in n['classes'] if y['name'].lower() != x['cls'].lower()]
            if not others:
                return None
            i['cls'] = rng.choice(others)
        elif reason == 'unknown_prop':
            i['props'].append(pv('nosuchprop', 'string', sval('x')))
        elif reason == 'wrong_type':
            if not i['props']:
                return None
            p = rng.choice(i['props'])
            if p['ty'] == 'string':
                p['ty'], p['val'] = 'uint32', ival(3)
            else:
                p['ty'], p['val'] = 'string', sval('3')
        elif reason == 'key_change':
            kp = [p for p in x['props'] if p['name'].lower() in keys and p['val'] is not None and 's' in p['val']]
            if not kp:
                return None
            p = rng.choice(kp)
            i['props'] = [z for z in i['props'] if z['name'].lower() != p['name'].lower()]
            i['props'].append(pv(p['name'], p['ty'], sval(p['val']['s'] + 'changed')))
        elif reason == 'bad_ns':
            ns = self.bad_ns()
        op = {'op': 'modifyInstance', 'ns': ns, 'path': path, 'inst': i, 'reason': reason}
        if rng.random() < 0.45:
            self.add_pl(op, c, keys)
        return op

    def add_pl(self, op, c, keys):
        """decorate a ModifyInstance request with a PropertyList (reason gets a ':pl_<kind>' suffix)"""
        rng = self.rng
        have = [p['name'] for p in op['inst']['props']]
        have_lc = {h.lower() for h in have}
        others = [p['name'] for p in c['props'] if p['name'].lower() not in keys and p['name'].lower() not in have_lc]
        kind = rng.choice(['subset', 'subset', 'superset', 'superset', 'all_class', 'empty', 'dup_case', 'unknown',
                           'key_missing', 'key_present'])
        sub = [recase(rng, h) for h in have if rng.random() < 0.6]
        if kind == 'subset':
            pl = sub
        elif kind == 'superset':
            pl = [recase(rng, h) for h in have] + [recase(rng, o) for o in others if rng.random() < 0.7]
            rng.shuffle(pl)
        elif kind == 'all_class':
            pl = [p['name'] for p in c['props'] if p['name'].lower() not in keys]
        elif kind == 'empty':
            pl = []
        elif kind == 'dup_case':
            pl = sub + [h.upper() for h in sub] + [o for o in others[:1]] + [o.lower() for o in others[:1]]
        elif kind == 'unknown':
            pl = sub + ['nosuchprop']
        elif kind == 'key_missing':
            missing = [k for k in sorted(keys) if k not in have_lc]
            if not missing:
                return
            pl = sub + [recase(rng, rng.choice(missing))]
        else:
            present = [h for h in have if h.lower() in keys]
            if not present:
                return
            pl = sub + [recase(rng, rng.choice(present))]
        op['pl'] = pl
        op['reason'] = op['reason'] + ':pl_' + kind

    # ---- user-defined providers
    def userprov_setup(self, st):
        """register a rejecting provider for a plain root class (key property k) in one namespace"""
        rng = self.rng
        cands = [(n, c) for n in st['nss'] for c in n['classes']
                 if not self.is_assoc(c) and c['super'] is None and [p['name'] for p in self.keyprops(c)] == ['k']
                 and c['name'].lower() != self.NSCLASS.lower()]
        if not cands:
            return None
        n, c = rng.choice(cands)
        exc = rng.choice([('ValueError', None), ('TypeError', None), ('KeyError', None), ('OSError', None),
                          ('CIMError', 1), ('CIMError', 4)])
        op = {'op': 'installUserProvider', 'ns': n['name'], 'cls': c['name'], 'trigger': 'k',
              'rej_create': ['rejC1', 'rejC2'], 'rej_modify': ['rejM1', 'rejM2'], 'rej_delete': ['rejD1', 'rejD2'],
              'exc': exc[0], 'code': exc[1], 'reason': 'setup'}
        self.userprov = op
        return op

    def g_userprov(self, st):
        rng = self.rng
        u = self.userprov
        n = self.find_ns(st, u['ns'])
        c = self.find_class(n, u['cls']) if n else None
        if c is None:
            return None
        ns = n['name'] if rng.random() < 0.7 else recase(rng, n['name'])
        existing = {v['s'] for x in self.insts_of(n, c['name']) for k, v in x['path']['keys'] if v and 's' in v}
        reason = rng.choice(['create_rejected', 'create_rejected', 'seed', 'seed', 'seed', 'modify_rejected', 'delete_rejected',
                             'modify_ok', 'delete_ok', 'delete_class', 'mof_rejected', 'mof_rejected'])
        if reason == 'create_rejected':
            return {'op': 'createInstance', 'ns': ns, 'inst': self.inst_for(n, c, keyval=rng.choice(u['rej_create'])),
                    'reason': 'userprov_' + reason}
        if reason == 'seed':
            cand = [v for v in u['rej_modify'] + u['rej_delete'] + [self.fresh('u')] if v not in existing]
            return {'op': 'createInstance', 'ns': ns, 'inst': self.inst_for(n, c, keyval=rng.choice(cand)),
                    'reason': 'userprov_seed'}
        if reason == 'delete_class':
            return {'op': 'deleteClass', 'ns': ns, 'name': recase(rng, c['name']), 'reason': 'userprov_delete_class'}
        if reason == 'mof_rejected':
            m = rng.choice([1, 2, 3])
            prods = self.valid_prods(st, n, m)
            bad = self.inst_for(n, c, keyval=rng.choice(u['rej_create']))
            bad['cls'] = c['name']
            for p in bad['props']:
                p['name'] = [z for z in c['props'] if z['name'].lower() == p['name'].lower()][0]['name']
            k = rng.randint(0, len(prods))
            return {'op': 'compileMof', 'ns': ns, 'prods': prods[:k] + [{'k': 'inst', 'inst': bad}] + prods[k:],
                    'reason': 'userprov_mof_rejected', 'fail_pos': k + 1, 'via': rng.choice(['string', 'file'])}
        want = {'modify_rejected': u['rej_modify'], 'delete_rejected': u['rej_delete']}.get(reason)
        cands = [x for x in self.insts_of(n, c['name'])
                 if any(v and 's' in v and ((v['s'] in want) if want is not None else
                                            (v['s'] not in u['rej_modify'] + u['rej_delete'])) for k, v in x['path']['keys'])]
        if not cands:
            return None
        x = rng.choice(cands)
        path = {'cls': recase(rng, x['path']['cls']), 'ns': None, 'keys': [[recase(rng, k), v] for k, v in x['path']['keys']]}
        if reason.startswith('delete'):
            return {'op': 'deleteInstance', 'ns': ns, 'path': path, 'reason': 'userprov_' + reason}
        nonkey = [p for p in c['props'] if p['name'].lower() != 'k' and p['ty'] in ('string', 'uint32') and not p['arr']
                  and not any(q_['name'].lower() == 'embeddedinstance' for q_ in p['quals'])]
        props = [pv(p['name'], p['ty'], sval(self.fresh('s')) if p['ty'] == 'string' else ival(rng.randint(0, 9))) for p in nonkey]
        return {'op': 'modifyInstance', 'ns': ns, 'path': path, 'inst': {'cls': x['cls'], 'props': props},
                'reason': 'userprov_' + reason}

    # ---- the CIM_Namespace provider
    NSCLASS = 'CIM_Namespace'
    NSKEYS = [('SystemCreationClassName', 'CIM_ComputerSystem'), ('SystemName', 'MockSystem_WBEMServerTest'),
              ('ObjectManagerCreationClassName', 'CIM_ObjectManager'), ('ObjectManagerName', 'FakeObjectManager'),
              ('CreationClassName', 'CIM_Namespace')]

    def nsprov_setup(self, interop):
        """operations that create the Interop namespace with class CIM_Namespace and register the provider"""
        rng = self.rng
        self.nsprov = interop
        cls = cdef(self.NSCLASS, None, [], [pdef(k, 'string', quals=[KEYQ]) for k, _ in self.NSKEYS] +
                   [pdef('Name', 'string', quals=[KEYQ]), pdef('Descr', 'string')])
        ops = [{'op': 'addNamespace', 'ns': interop, 'reason': 'ok'}]
        if rng.random() < 0.5:
            ops.append({'op': 'compileMof', 'ns': interop, 'prods': [{'k': 'qual', 'qual': QDECLS[0]}, {'k': 'cls', 'cls': cls}]})
        else:
            ops.append({'op': 'addObjects', 'ns': interop, 'objs': [{'k': 'qual', 'qual': QDECLS[0]}, {'k': 'cls', 'cls': cls}]})
        ops.append({'op': 'installNsProvider', 'ns': recase(rng, interop), 'reason': 'setup'})
        return ops

    def ns_inst(self, name, drop=None, **override):
        vals = dict(self.NSKEYS)
        vals['Name'] = name
        vals.update(override)
        props = []
        for k in [k for k, _ in self.NSKEYS] + ['Name']:
            if k == drop:
                continue
            v = vals[k]
            props.append(pv(recase(self.rng, k), 'string', None if v is None else sval(v)))
        return {'cls': recase(self.rng, self.NSCLASS), 'props': props}

    def g_nsprov(self, st):
        rng = self.rng
        interop = self.nsprov
        n = self.find_ns(st, interop)
        if n is None or not self.find_class(n, self.NSCLASS):
            return None
        ns = interop if rng.random() < 0.7 else recase(rng, interop)
        names = self.ns_names(st)
        insts = [x for x in n['insts'] if x['path']['cls'].lower() == self.NSCLASS.lower()]

        def name_of(x):
            for k, v in x['path']['keys']:
                if k.lower() == 'name' and v is not None and 's' in v:
                    return v['s']
            return None
        with_inst = {(name_of(x) or '').lower() for x in insts}
        reason = rng.choice(['create_ok'] * 4 + ['create_missing_key'] * 2 + ['create_no_name', 'create_no_ccn', 'create_name_null',
                             'create_ccn_null', 'create_ccn_mismatch', 'create_existing_ns', 'create_dup', 'create_dup_other_keys',
                             'create_second_interop', 'create_descr', 'create_unknown_prop', 'create_slashes', 'create_other_ns',
                             'delete_ok', 'delete_ok', 'delete_nonempty', 'delete_interop', 'delete_ns_gone', 'delete_notfound',
                             'modify'])
        if reason.startswith('create'):
            fresh = self.fresh('root/p')
            i = None
            if reason == 'create_ok':
                i = self.ns_inst(fresh)
            elif reason == 'create_missing_key':
                i = self.ns_inst(fresh, drop=rng.choice([k for k, _ in self.NSKEYS if k != 'CreationClassName']))
            elif reason == 'create_no_name':
                i = self.ns_inst(fresh, drop='Name')
            elif reason == 'create_no_ccn':
                i = self.ns_inst(fresh, drop='CreationClassName')
            elif reason == 'create_name_null':
                i = self.ns_inst(None)
            elif reason == 'create_ccn_null':
                i = self.ns_inst(fresh, CreationClassName=None)
            elif reason == 'create_ccn_mismatch':
                i = self.ns_inst(fresh, CreationClassName='CIM_Other')
            elif reason == 'create_existing_ns':
                cands = [x for x in names if x.lower() not in with_inst]
                if cands:
                    i = self.ns_inst(recase(rng, rng.choice(cands)))
            elif reason == 'create_dup':
                cands = [name_of(x) for x in insts if name_of(x)]
                if cands:
                    i = self.ns_inst(recase(rng, rng.choice(cands)))
            elif reason == 'create_dup_other_keys':
                cands = [name_of(x) for x in insts if name_of(x)]
                if cands:
                    i = self.ns_inst(rng.choice(cands), SystemName='OtherSystem')
            elif reason == 'create_second_interop':
                cands = [x for x in ('interop', 'root/interop', 'root/PG_Interop') if x.lower() != interop.lower()]
                i = self.ns_inst(rng.choice(cands))
            elif reason == 'create_descr':
                i = self.ns_inst(fresh)
                i['props'].append(pv('descr', 'string', sval('d')))
            elif reason == 'create_unknown_prop':
                i = self.ns_inst(fresh)
                i['props'].append(pv('nosuchprop', 'string', sval('d')))
            elif reason == 'create_slashes':
                i = self.ns_inst(rng.choice(['/', '//']) + fresh + rng.choice(['', '/']))
            elif reason == 'create_other_ns':
                i = self.ns_inst(fresh)
                ns = rng.choice([x for x in names if x.lower() != interop.lower()])
            if i is None:
                return None
            return {'op': 'createInstance', 'ns': ns, 'inst': i, 'reason': 'nsprov_' + reason}
        if not insts:
            return None

        def empty(name):
            m = self.find_ns(st, name)
            return m is not None and not (m['classes'] or m['quals'] or m['insts'])
        pick = None
        if reason == 'delete_ok':
            cands = [x for x in insts if name_of(x) and empty(name_of(x)) and name_of(x).lower() != BASE_NSS[0]]
            pick = rng.choice(cands) if cands else None
        elif reason == 'delete_nonempty':
            cands = [x for x in insts if name_of(x) and self.find_ns(st, name_of(x)) and not empty(name_of(x))
                     and name_of(x).lower() != interop.lower()]
            pick = rng.choice(cands) if cands else None
        elif reason == 'delete_interop':
            cands = [x for x in insts if (name_of(x) or '').lower() == interop.lower()]
            pick = rng.choice(cands) if cands else None
        elif reason == 'delete_ns_gone':
            cands = [x for x in insts if name_of(x) and self.find_ns(st, name_of(x)) is None]
            pick = rng.choice(cands) if cands else None
        elif reason in ('delete_notfound', 'modify'):
            pick = rng.choice(insts)
        if pick is None:
            return None
        path = {'cls': recase(rng, pick['path']['cls']), 'ns': None,
                'keys': [[recase(rng, k), v] for k, v in pick['path']['keys']]}
        if reason == 'delete_notfound':
            path['keys'] = [[k, sval('nosuchnamespace') if k.lower() == 'name' else v] for k, v in path['keys']]
        if reason == 'modify':
            return {'op': 'modifyInstance', 'ns': ns, 'path': path,
                    'inst': {'cls': pick['cls'], 'props': [pv('Descr', 'string', sval('changed'))]},
                    'reason': 'nsprov_modify'}
        return {'op': 'deleteInstance', 'ns': ns, 'path': path, 'reason': 'nsprov_' + reason}

    def g_deleteInstance(self, st):
        rng = self.rng
        cands = [(n, i) for n in st['nss'] for i in n['insts']]
        if not cands:
            return None
        n, x = rng.choice(cands)
        ns = n['name'] if rng.random() < 0.8 else recase(rng, n['name'])
        path = {'cls': recase(rng, x['path']['cls']), 'ns': None,
                'keys': [[recase(rng, k), v] for k, v in x['path']['keys']]}
        reason = rng.choice(['ok'] * 4 + ['notfound', 'noclass', 'bad_ns'])
        if reason == 'notfound':
            path['keys'] = [[k, sval('nosuchinstance')] for k, v in path['keys']]
        elif reason == 'noclass':
            path['cls'] = 'TC_Nope'
        elif reason == 'bad_ns':
            ns = self.bad_ns()
        return {'op': 'deleteInstance', 'ns': ns, 'path': path, 'reason': reason}

    def g_addNamespace(self, st):
        rng = self.rng
        names = self.ns_names(st)
        reason = rng.choice(['ok', 'ok', 'exists', 'exists_slash', 'interop', 'interop2'])
        if reason == 'ok':
            ns = rng.choice(['/', '']) + self.fresh('root/n') + rng.choice(['', '/'])
        elif reason == 'exists':
            ns = recase(rng, rng.choice(names))
        elif reason == 'exists_slash':
            ns = '/' + rng.choice(names) + '/'
        elif reason == 'interop':
            ns = rng.choice(['interop', 'root/interop', 'root/PG_Interop', 'ROOT/Interop'])
        else:
            if not any(x.lower() in ('interop', 'root/interop', 'root/pg_interop') for x in names):
                return None
            ns = rng.choice(['interop', 'root/interop', 'root/PG_Interop'])
        return {'op': 'addNamespace', 'ns': ns, 'reason': reason}

    def g_removeNamespace(self, st):
        rng = self.rng
        reason = rng.choice(['ok', 'notfound', 'nonempty', 'interop'])
        empty = [n['name'] for n in st['nss'] if not (n['classes'] or n['quals'] or n['insts'])
                 and n['name'].lower() not in ('interop', 'root/interop', 'root/pg_interop') and n['name'] != BASE_NSS[0]]
        full = [n['name'] for n in st['nss'] if (n['classes'] or n['quals'] or n['insts'])]
        inter = [n['name'] for n in st['nss'] if n['name'].lower() in ('interop', 'root/interop', 'root/pg_interop')]
        if reason == 'ok' and empty:
            ns = rng.choice(['', '/']) + recase(rng, rng.choice(empty))
        elif reason == 'notfound':
            ns = self.bad_ns()
        elif reason == 'nonempty' and full:
            ns = recase(rng, rng.choice(full))
        elif reason == 'interop' and inter:
            ns = rng.choice(inter)
        else:
            return None
        return {'op': 'removeNamespace', 'ns': ns, 'reason': reason}

    # ---- batches
    def valid_objs(self, st, n, m):
        """m objects that add_cimobjects accepts one after the other in namespace n"""
        rng = self.rng
        objs = []
        newcls = []
        plain = [c for c in n['classes'] if not self.is_assoc(c) and self.keyprops(c)]
        for _ in range(m):
            r = rng.random()
            if r < 0.4 or not plain:
                sup = rng.choice([None] + [c['name'] for c in plain] + newcls) if rng.random() < 0.5 else None
                c = self.new_class(n, sup)
                if not any(d['name'].lower() == 'key' for d in n['quals']):
                    c['props'] = [p for p in c['props'] if not p['quals']]
                    c['quals'] = []
                elif any(u['name'] in ('Description', 'Extra1') for u in c['quals']) and \
                        not all(any(d['name'].lower() == u['name'].lower() for d in n['quals']) for u in c['quals']):
                    c['quals'] = []
                newcls.append(c['name'])
                objs.append({'k': 'cls', 'cls': c})
            elif r < 0.8:
                c = rng.choice(plain)
                i = self.inst_for(n, c)
                i['cls'] = c['name']
                keys = []
                for kp in self.keyprops(c):
                    v = [p['val'] for p in i['props'] if p['name'].lower() == kp['name'].lower()]
                    keys.append([kp['name'], v[0]])
                objs.append({'k': 'inst', 'path': {'cls': c['name'], 'ns': rng.choice([None, n['name']]), 'keys': keys},
                             'inst': i})
            else:
                objs.append({'k': 'qual', 'qual': {'name': self.fresh('Q'), 'ty': 'boolean', 'scopes': ['any'], 'body': 1}})
        return objs

    def bad_obj(self, st, n, reason):
        rng = self.rng
        if reason == 'cls_nosuper':
            return {'k': 'cls', 'cls': self.new_class(n, 'TC_Nope')}
        if reason == 'cls_exists':
            if not n['classes']:
                return None
            c = self.new_class(n)
            c['name'] = recase(rng, rng.choice(n['classes'])['name'])
            c['quals'] = []
            c['props'] = [pdef('zz', 'uint32')]
            return {'k': 'cls', 'cls': c}
        if reason == 'cls_undeclared_qual':
            c = self.new_class(n)
            c['quals'] = [q('NoSuchQual')]
            c['props'] = [pdef('zz', 'uint32')]
            return {'k': 'cls', 'cls': c}
        if reason == 'inst_nopath':
            return {'k': 'inst', 'path': None, 'inst': {'cls': 'TC_Any', 'props': [pv('k', 'string', sval('v'))]}}
        if reason == 'inst_exists':
            if not n['insts']:
                return None
            x = rng.choice(n['insts'])
            if x['path']['ns'] is None or x['path']['ns'].lower() != n['name'].lower():
                return None
            return {'k': 'inst', 'path': {'cls': recase(rng, x['path']['cls']), 'ns': rng.choice([None, recase(rng, n['name'])]),
                                          'keys': [[recase(rng, k), v] for k, v in reversed(x['path']['keys'])]},
                    'inst': {'cls': x['cls'], 'props': []}}
        if reason == 'qual_exists':
            if not n['quals']:
                return None
            d = rng.choice(n['quals'])
            return {'k': 'qual', 'qual': {'name': recase(rng, d['name']), 'ty': 'boolean', 'scopes': ['any'], 'body': 1}}
        if reason == 'bad_type':
            return {'k': 'bad'}
        return None

    def g_addObjects(self, st):
        rng = self.rng
        n = self.pick_ns(st)
        m = rng.choice([1, 2, 2, 3, 3, 4, 5])
        objs = self.valid_objs(st, n, m)
        reason = rng.choice(['ok', 'cls_nosuper', 'cls_exists', 'cls_undeclared_qual', 'inst_nopath', 'inst_exists',
                             'qual_exists', 'bad_type', 'bad_ns', 'dup_in_batch'])
        op = {'op': 'addObjects', 'ns': recase(rng, n['name']), 'objs': objs, 'reason': reason, 'fail_pos': None}
        if reason == 'ok':
            return op
        if reason == 'bad_ns':
            op['ns'] = self.bad_ns()
            op['fail_pos'] = 0
            return op
        k = rng.randint(0, len(objs))       # position of the invalid element: every k
        if reason == 'dup_in_batch':
            if not objs:
                return None
            src = rng.choice(objs[:k] or objs)
            bad = json.loads(json.dumps(src))
            k = max(k, objs.index(src) + 1)
        else:
            bad = self.bad_obj(st, n, reason)
        if bad is None:
            return None
        op['objs'] = objs[:k] + [bad] + objs[k:]
        op['fail_pos'] = k + 1
        return op

    def g_addObject(self, st):
        op = self.g_addObjects(st)
        if op is None or op['reason'] in ('bad_ns', 'dup_in_batch'):
            return None
        idx = (op['fail_pos'] - 1) if op['fail_pos'] else 0
        if idx >= len(op['objs']):
            return None
        return {'op': 'addObject', 'ns': op['ns'], 'obj': op['objs'][idx], 'reason': op['reason']}

    def valid_prods(self, st, n, m):
        rng = self.rng
        prods = []
        have_q = {d['name'].lower() for d in n['quals']}
        plain = [c for c in n['classes'] if not self.is_assoc(c) and self.keyprops(c)]
        newcls = []
        for _ in range(m):
            r = rng.random()
            if r < 0.15 or 'key' not in have_q:
                if 'key' not in have_q:
                    prods.append({'k': 'qual', 'qual': QDECLS[0]})
                    have_q.add('key')
                else:
                    d = {'name': self.fresh('Q'), 'ty': rng.choice(['boolean', 'string']), 'scopes': ['any'], 'body': 0}
                    if rng.random() < 0.4 and n['quals']:
                        old = rng.choice(n['quals'])
                        d = {'name': old['name'], 'ty': old['ty'], 'scopes': old['scopes'], 'body': old['body']}
                    prods.append({'k': 'qual', 'qual': d})
            elif r < 0.55 or not plain:
                sup = rng.choice([None] + [c['name'] for c in plain] + newcls) if rng.random() < 0.5 else None
                c = self.new_class(n, sup)
                c['quals'] = [u for u in c['quals'] if u['name'].lower() in have_q]
                newcls.append(c['name'])
                prods.append({'k': 'cls', 'cls': c})
            elif r < 0.65:
                # redefinition of an existing leaf class without instances -> ModifyClass
                leafs = [c for c in n['classes'] if not self.subs(n, c['name']) and not self.insts_of(n, c['name'])
                         and not any(p['ty'] == 'reference' for p in c['props'])]
                if leafs:
                    c = rng.choice(leafs)
                    own = [pdef(p['name'], p['ty'], p['arr'], p['ref'], p['quals']) for p in c['props'] if not p['propagated']]
                    prods.append({'k': 'cls', 'cls': cdef(c['name'], c['super'], c['quals'], own + [pdef(self.fresh('m'), 'string')])})
            else:
                c = rng.choice(plain)
                i = self.inst_for(n, c)
                i['cls'] = c['name']
                for p in i['props']:
                    pd = [z for z in c['props'] if z['name'].lower() == p['name'].lower()][0]
                    p['name'] = pd['name']
                if rng.random() < 0.2 and self.insts_of(n, c['name']):
                    x = rng.choice(self.insts_of(n, c['name']))
                    if x['path']['ns'] and x['path']['ns'].lower() == n['name'].lower() and x['cls'].lower() == c['name'].lower():
                        i = {'cls': c['name'], 'props': [pv(p['name'], p['ty'], p['val']) for p in x['props'] if p['val'] is not None]}
                prods.append({'k': 'inst', 'inst': i})
        return prods

    def bad_prod(self, st, n, reason):
        rng = self.rng
        plain = [c for c in n['classes'] if not self.is_assoc(c) and self.keyprops(c)]
        assocs = [c for c in n['classes'] if self.is_assoc(c) and any(p['ty'] == 'reference' for p in c['props'])]
        if reason == 'syntax':
            return {'k': 'syntax'}
        if reason == 'missing_include':
            return {'k': 'include'}
        if reason == 'cls_nosuper':
            c = self.new_class(n, 'TC_Nope')
            c['quals'] = []
            return {'k': 'cls', 'cls': c}
        if reason == 'cls_missing_ref':
            c = self.new_assoc(n)
            if c is None:
                return None
            c['props'][0]['ref'] = 'TC_Nope'
            return {'k': 'cls', 'cls': c}
        if reason == 'cls_undeclared_qual':
            c = cdef(self.fresh('TC_'), None, [q('NoSuchQual')], [pdef('zz', 'uint32')])
            return {'k': 'cls', 'cls': c}
        if reason == 'cls_exists_has_instances':
            cands = [c for c in n['classes'] if self.insts_of(n, c['name']) and not any(p['ty'] == 'reference' for p in c['props'])]
            if not cands:
                return None
            c = rng.choice(cands)
            own = [pdef(p['name'], p['ty'], p['arr'], p['ref'], p['quals']) for p in c['props'] if not p['propagated']]
            return {'k': 'cls', 'cls': cdef(c['name'], c['super'], c['quals'], own)}
        if reason == 'cls_ref_in_nonassoc':
            if not plain:
                return None
            return {'k': 'cls', 'cls': cdef(self.fresh('TC_'), None, [], [pdef('k', 'string', quals=[KEYQ]),
                                                                          pdef('r', 'reference', ref=plain[0]['name'])])}
        if reason == 'inst_noclass':
            return {'k': 'inst', 'inst': {'cls': 'TC_Nope', 'props': [pv('k', 'string', sval('v'))]}}
        if reason == 'inst_missing_key':
            def plainprops(c):
                keys = {k['name'].lower() for k in self.keyprops(c)}
                return [p for p in c['props'] if p['name'].lower() not in keys and p['ty'] in ('string', 'uint32')
                        and not p['arr'] and not any(u['name'].lower() == 'embeddedinstance' for u in p['quals'])]
            cands = [c for c in plain if plainprops(c)]
            if not cands:
                return None
            c = rng.choice(cands)
            p = plainprops(c)[0]
            return {'k': 'inst', 'inst': {'cls': c['name'], 'props': [pv(p['name'], p['ty'], sval('s') if p['ty'] == 'string' else ival(1))]}}
        if reason == 'inst_unknown_prop':
            if not plain:
                return None
            i = self.inst_for(n, rng.choice(plain))
            i['props'].append(pv('nosuchprop', 'string', sval('x')))
            return {'k': 'inst', 'inst': i}
        if reason == 'inst_ref_missing':
            if not assocs:
                return None
            c = rng.choice(assocs)
            i = self.assoc_inst(st, n, c)
            if i is None:
                return None
            for p in i['props']:
                if p['ty'] == 'reference':
                    p['val']['ref']['ns'] = n['name']
            r = [p for p in i['props'] if p['ty'] == 'reference'][0]['val']['ref']
            r['keys'] = [[k, sval('nosuchinstance')] for k, _ in r['keys']]
            return {'k': 'inst', 'inst': i}
        return None

    def g_compileSchema(self, st):
        """compile_schema_classes with 1-3 schema pragma files; the failure (if any) is in file k, for every k"""
        rng = self.rng
        n = self.pick_ns(st)
        nfiles = rng.choice([1, 2, 2, 3, 3])
        files = [{'listed': True, 'prods': self.valid_prods(st, n, rng.choice([1, 2, 3]))} for _ in range(nfiles)]
        reason = rng.choice(['ok', 'not_listed', 'not_listed', 'syntax', 'missing_include', 'cls_nosuper', 'cls_missing_ref',
                             'cls_undeclared_qual', 'inst_noclass', 'inst_missing_key', 'bad_ns'])
        op = {'op': 'compileSchema', 'ns': recase(rng, n['name']), 'files': files, 'reason': 'schema_' + reason,
              'fail_pos': None, 'as_list': rng.random() < 0.5}
        if reason == 'ok':
            return op if any(f['prods'] for f in files) else None
        if reason == 'bad_ns':
            op['ns'] = self.bad_ns()
            op['fail_pos'] = 1
            return op
        k = rng.randrange(nfiles)
        if reason == 'not_listed':
            files[k] = {'listed': False, 'prods': []}
        else:
            bad = self.bad_prod(st, n, reason)
            if bad is None:
                return None
            j = rng.randint(0, len(files[k]['prods']))
            files[k]['prods'] = files[k]['prods'][:j] + [bad] + files[k]['prods'][j:]
        op['fail_pos'] = k + 1
        return op

    def g_compileMof(self, st):
        rng = self.rng
        n = self.pick_ns(st)
        m = rng.choice([1, 2, 2, 3, 3, 4, 5])
        # (item, namespace record it is compiled into)
        flat = [(p, n) for p in self.valid_prods(st, n, m)]
        directives = rng.random() < 0.45
        has_interop = any(x.lower() in ('interop', 'root/interop', 'root/pg_interop') for x in self.ns_names(st))
        if directives and rng.random() < 0.7:
            # a second segment behind a namespace pragma
            n2 = self.pick_ns(st)
            flat.append(({'k': 'pragma_ns', 'ns': recase(rng, n2['name'])}, n2))
            flat += [(p, n2) for p in self.valid_prods(st, n2, rng.choice([1, 2, 3]))]
        reason = rng.choice(['ok', 'ok', 'syntax', 'missing_include', 'missing_include', 'cls_nosuper', 'cls_missing_ref',
                             'cls_undeclared_qual',
                             'cls_exists_has_instances', 'cls_ref_in_nonassoc', 'inst_noclass', 'inst_missing_key',
                             'inst_unknown_prop', 'inst_ref_missing', 'bad_ns'] +
                            (['bad_pragma', 'pragma_ns_missing', 'pragma_ns_missing'] if directives else []))
        op = {'op': 'compileMof', 'ns': recase(rng, n['name']), 'reason': reason, 'fail_pos': None,
              'via': rng.choice(['string', 'string', 'string', 'file'])}
        if reason == 'bad_ns':
            op['ns'] = self.bad_ns()
            op['fail_pos'] = 0
        elif reason != 'ok':
            k = rng.randint(0, len(flat))
            nk = flat[k - 1][1] if k > 0 else n
            if reason == 'bad_pragma':
                bad = [({'k': 'bad_pragma'}, nk)]
            elif reason == 'pragma_ns_missing':
                if has_interop:
                    return None
                follow = rng.choice([{'k': 'qual', 'qual': {'name': self.fresh('Q'), 'ty': 'boolean', 'scopes': ['any'], 'body': 0}},
                                     {'k': 'cls', 'cls': cdef(self.fresh('TC_'), None, [], [pdef('zz', 'uint32')])},
                                     {'k': 'inst', 'inst': {'cls': 'TC_Any', 'props': [pv('k', 'string', sval('v'))]}}])
                bad = [({'k': 'pragma_ns', 'ns': 'root/zz'}, nk), (follow, nk)]
                flat = flat[:k]          # what follows would be compiled into the missing namespace as well
            else:
                b = self.bad_prod(st, nk, reason)
                if b is None:
                    return None
                bad = [(b, nk)]
            flat = flat[:k] + bad + flat[k:]
            op['fail_pos'] = k + 1
        elif not flat:
            return None
        items = [x for x, _ in flat]
        if directives:
            # wrap runs of items into include files (nested up to depth 2) and sprinkle ignored pragmas
            for _ in range(rng.choice([1, 1, 2])):
                if len(items) >= 1:
                    i = rng.randrange(len(items))
                    j = rng.randint(i + 1, len(items))
                    items = items[:i] + [{'k': 'include_file', 'items': items[i:j]}] + items[j:]
            if rng.random() < 0.3:
                items.insert(rng.randint(0, len(items)), {'k': 'other_pragma'})
            op['reason'] = reason + ':directives'
        op['prods'] = items
        return op


# --------------------------------------------------------------------------- one history

def model_op(op):
    """strip harness-only fields"""
    return {k: v for k, v in op.items() if k not in ('reason', 'fail_pos', 'via', 'keep_cache', 'as_list') and
            not (k == 'code' and v is None)}


def run_history(seed, thorough, nops, keep_cache=False):
    """generate and execute one history on the real code -> dict(nss, ops, outs, states, violations)"""
    rng = random.Random(seed)
    g = Gen(rng, thorough)
    nss = BASE_NSS[:rng.choice([2, 3, 3])]
    real = Real(nss)
    ops, outs, states, viols = [], [], [], []

    def do(op):
        if keep_cache and op['op'] in ('compileMof', 'compileSchema'):
            op['keep_cache'] = True
        exc, viol = real.step(op)
        ops.append(op)
        outs.append(exc)
        states.append(abstract_state(real.conn))
        if viol:
            viols.append({'sig': viol[0], 'index': len(ops) - 1, 'diff': viol[1]})

    for op in g.setup_ops(nss):
        do(op)
    for op in g.schema_ops(nss, g.schema()):
        do(op)
    # seed instances: plain ones in every namespace, then associations inside and across namespaces
    for n in list(states[-1]['nss']):
        for c in n['classes']:
            if not g.is_assoc(c) and g.keyprops(c) and c['super'] is None:
                for _ in range(rng.choice([1, 2])):
                    do({'op': 'createInstance', 'ns': n['name'], 'inst': g.inst_for(n, c), 'reason': 'ok'})
    for _ in range(rng.choice([3, 5, 7])):
        op = g.g_assoc(states[-1], rng.choice(['create_cross', 'create_cross', 'create_same', 'onesided']))
        for o in (op if isinstance(op, list) else [op] if op is not None else []):
            do(o)
    if rng.random() < 0.45:
        for op in g.nsprov_setup(rng.choice(['interop', 'interop', 'root/interop', 'root/PG_Interop'])):
            do(op)
    if rng.random() < 0.5:
        op = g.userprov_setup(states[-1])
        if op is not None:
            do(op)
    for _ in range(nops):
        r = rng.random()
        op = None
        if g.nsprov is not None and r < 0.2:
            op = g.g_nsprov(states[-1])
        elif g.userprov is not None and 0.2 <= r < 0.38:
            op = g.g_userprov(states[-1])
        elif 0.38 <= r < 0.55:
            op = g.next_assoc_op(states[-1])
        if op is None:
            op = g.next_op(states[-1])
        for o in (op if isinstance(op, list) else [op]):
            do(o)
    return {'nss': nss, 'ops': ops, 'outs': outs, 'states': states, 'viols': viols}


def replay_history(nss, ops):
    real = Real(nss)
    outs, states, viols = [], [], []
    for idx, op in enumerate(ops):
        exc, viol = real.step(op)
        outs.append(exc)
        states.append(abstract_state(real.conn))
        if viol:
            viols.append({'sig': viol[0], 'index': idx, 'diff': viol[1]})
    return outs, states, viols


def _work(item):
    seed, thorough, nops = item[:3]
    try:
        return run_history(seed, thorough, nops, keep_cache=(len(item) > 3 and item[3]))
    except Exception as e:  # noqa - generator/harness problem: report, never hide
        import traceback
        return {'crash': traceback.format_exc()[-1500:], 'seed': seed}


# --------------------------------------------------------------------------- oracle-only probes (namespace provider)

def nsprovider_probes(run):
    """CIM_Namespace provider on a mock with an Interop namespace (not in the model): every failing call must
    leave the repository unchanged"""
    import pywbem
    import pywbem_mock
    cwd = os.getcwd()
    os.chdir(common.REPO)
    try:
        # the version of the DMTF schema shipped in tests/schema (read from the source text: importing the test
        # utilities prints a banner)
        import ast
        with open(os.path.join(common.REPO, 'tests', 'unittest', 'utils', 'dmtf_mof_schema_def.py')) as f:
            tree = ast.parse(f.read())
        DMTF_TEST_SCHEMA_VER = None
        for node in tree.body:
            if isinstance(node, ast.Assign) and getattr(node.targets[0], 'id', None) == 'DMTF_TEST_SCHEMA_VER':
                DMTF_TEST_SCHEMA_VER = ast.literal_eval(node.value)
        schema = pywbem_mock.DMTFCIMSchema(DMTF_TEST_SCHEMA_VER, os.path.join(common.REPO, 'tests', 'schema'),
                                           use_experimental=False)

        def mk(interop_first):
            if interop_first:
                conn = pywbem_mock.FakedWBEMConnection(default_namespace='interop')
                conn.add_namespace('root/cimv2')
            else:
                conn = pywbem_mock.FakedWBEMConnection(default_namespace='root/cimv2')
                conn.add_namespace('interop')
            conn.install_namespace_provider('interop', schema_pragma_file=schema.schema_pragma_file)
            return conn

        def attempt(conn, name, f, **sigx):
            before = full_dump(conn)
            try:
                f()
                run.count('probe:%s:ok' % name)
            except Exception as e:  # noqa
                exc = common.exc_json(e)
                run.count('probe:%s:%s%s' % (name, exc['exc'], exc.get('code', '')))
                after = full_dump(conn)
                if after != before:
                    sig = {'kind': 'repository_changed_by_failed_call', 'entry': name, 'exc': exc.get('exc'),
                           'code': exc.get('code'), 'probe': 'cim_namespace_provider'}
                    sig.update(sigx)
                    run.violate(sig, {'probe': name, 'args': sigx}, dump_diff(before, after))
            run.case({'probe': name, 'args': sigx}, nontrivial=True)

        for interop_first in (True, False):
            conn = mk(interop_first)
            full = {'Name': 'root/p1', 'CreationClassName': 'CIM_Namespace', 'ObjectManagerName': 'o',
                    'ObjectManagerCreationClassName': 'c', 'SystemName': 's', 'SystemCreationClassName': 'sc'}
            # missing key properties, for every key
            for drop in ('ObjectManagerName', 'SystemName', 'SystemCreationClassName', 'ObjectManagerCreationClassName'):
                props = {k: v for k, v in full.items() if k != drop}
                props['Name'] = 'root/p_' + drop.lower()
                attempt(conn, 'CreateInstance', lambda p=props: conn.CreateInstance(pywbem.CIMInstance('CIM_Namespace', p), namespace='interop'),
                        reason='missing_key_' + drop, interop_first=interop_first)
            attempt(conn, 'CreateInstance', lambda: conn.CreateInstance(pywbem.CIMInstance('CIM_Namespace', dict(full, CreationClassName='Other')), namespace='interop'),
                    reason='ccn_mismatch', interop_first=interop_first)
            attempt(conn, 'CreateInstance', lambda: conn.CreateInstance(pywbem.CIMInstance('CIM_Namespace', {k: v for k, v in full.items() if k != 'Name'}), namespace='interop'),
                    reason='no_name', interop_first=interop_first)
            attempt(conn, 'CreateInstance', lambda: conn.CreateInstance(pywbem.CIMInstance('CIM_Namespace', full), namespace='root/cimv2'),
                    reason='not_interop', interop_first=interop_first)
            attempt(conn, 'CreateInstance', lambda: conn.CreateInstance(pywbem.CIMInstance('CIM_Namespace', full), namespace='interop'),
                    reason='ok', interop_first=interop_first)
            attempt(conn, 'CreateInstance', lambda: conn.CreateInstance(pywbem.CIMInstance('CIM_Namespace', full), namespace='interop'),
                    reason='exists', interop_first=interop_first)
            attempt(conn, 'CreateInstance', lambda: conn.CreateInstance(pywbem.CIMInstance('CIM_Namespace', dict(full, Name='root/interop')), namespace='interop'),
                    reason='second_interop', interop_first=interop_first)
            attempt(conn, 'add_namespace', lambda: conn.add_namespace('root/p1'), reason='exists', interop_first=interop_first)
            attempt(conn, 'add_namespace', lambda: conn.add_namespace('root/p2'), reason='ok', interop_first=interop_first)
            conn.CreateInstance(pywbem.CIMInstance('CIM_Namespace', dict(full, Name='root/p4')), namespace='interop')
            conn.compile_mof_string('Qualifier Foo : boolean = false, Scope(any);', namespace='root/p1')
            paths = conn.EnumerateInstanceNames('CIM_Namespace', namespace='interop')
            for p in paths:      # Interop namespace: refused; root/p1: not empty; root/p4: deleted
                attempt(conn, 'DeleteInstance', lambda p=p: conn.DeleteInstance(p), reason='ns_' + p['Name'],
                        interop_first=interop_first)
            conn2 = mk(interop_first)
            conn2.CreateInstance(pywbem.CIMInstance('CIM_Namespace', dict(full, Name='root/p5')), namespace='interop')
            conn2.CreateInstance(pywbem.CIMInstance('CIM_Namespace', dict(full, Name='root/p3')), namespace='interop')
            conn2.compile_mof_string('Qualifier Foo : boolean = false, Scope(any);', namespace='root/p3')
            attempt(conn2, 'DeleteClass', lambda: conn2.DeleteClass('CIM_Namespace', namespace='interop'),
                    reason='provider_refuses', interop_first=interop_first)
            attempt(conn2, 'remove_namespace', lambda: conn2.remove_namespace('root/p3'), reason='nonempty',
                    interop_first=interop_first)
            attempt(conn2, 'remove_namespace', lambda: conn2.remove_namespace('interop'), reason='interop',
                    interop_first=interop_first)
        # a MOF compile that CREATES a namespace (#pragma namespace on a full mock WBEM server) and then fails:
        # the namespace and its CIM_Namespace instance must be gone again
        import contextlib
        import io
        with contextlib.redirect_stdout(io.StringIO()):          # the test utilities print a banner on import
            from tests.unittest.utils.wbemserver_mock import WbemServerMock
            server = WbemServerMock(interop_ns='interop')
        conn3 = server.wbem_server.conn
        for k, tail in enumerate(['class X2 : Nope { string b; };', 'class X3 { string ; };',
                                  'instance of NoSuchClass { a = "x"; };']):
            mof = ('#pragma namespace ("root/newns%d")\nQualifier Foo : boolean = false, Scope(any);\n'
                   'class X1 { string a; };\n' % k) + tail
            attempt(conn3, 'compile_mof_string', lambda m=mof: conn3.compile_mof_string(m, namespace='interop'),
                    reason='pragma_namespace_then_failure', variant=k)
        attempt(conn3, 'compile_mof_string', lambda: conn3.compile_mof_string(
            '#pragma namespace ("root/newns9")\nQualifier Foo : boolean = false, Scope(any);\nclass X1 { string a; };',
            namespace='interop'), reason='pragma_namespace_ok')
    finally:
        os.chdir(cwd)


# --------------------------------------------------------------------------- oracle-only probes (non-pywbem exceptions)

PROBE_MOF_QUALS = 'Qualifier Key : boolean = false, Scope(property, reference);\n'


def foreign_exception_probes(run):
    """batches and single calls that fail with an exception that is NOT a pywbem.Error, at every position:
    a missing include file (OSError) and a user-defined instance-write provider raising RuntimeError (the seam through
    which arbitrary exceptions enter compile_mof_*, CreateInstance and DeleteClass).  The property says 'whenever the
    call raises': the repository dump before and after must be identical whatever the exception class."""
    import pywbem
    import pywbem_mock

    class RaisingProvider(pywbem_mock.InstanceWriteProvider):
        provider_classnames = 'TP_Guarded'

        def __init__(self, cimrepository):
            super().__init__(cimrepository)

        def CreateInstance(self, namespace, new_instance):
            if str(new_instance['k']).startswith('bad'):
                raise RuntimeError('user-defined provider failure')
            return super().CreateInstance(namespace, new_instance)

        def DeleteInstance(self, InstanceName):
            if str(InstanceName['k']).startswith('keep'):
                raise RuntimeError('user-defined provider refuses')
            return super().DeleteInstance(InstanceName)

    def mk(with_provider):
        conn = pywbem_mock.FakedWBEMConnection(default_namespace='root/a')
        conn.compile_mof_string(PROBE_MOF_QUALS + 'class TP_Guarded { [Key] string k; uint32 v; };\n'
                                'class TP_Plain { [Key] string k; };\ninstance of TP_Plain { k = "p0"; };\n',
                                namespace='root/a')
        if with_provider:
            conn.register_provider(RaisingProvider(conn.cimrepository), namespaces=['root/a'])
        return conn

    def attempt(conn, name, f, **sigx):
        before = full_dump(conn)
        try:
            f()
            run.count('probe:%s:ok' % name)
        except Exception as e:  # noqa
            exc = common.exc_json(e)
            run.count('probe:%s:%s%s' % (name, exc['exc'], exc.get('code', '')))
            after = full_dump(conn)
            if after != before:
                sig = {'kind': 'repository_changed_by_failed_call', 'entry': name, 'exc': exc.get('exc'),
                       'code': exc.get('code'), 'probe': 'foreign_exception'}
                sig.update(sigx)
                run.violate(sig, {'probe': name, 'args': sigx}, dump_diff(before, after))
        run.case({'probe': name, 'args': sigx}, nontrivial=True)

    valid = ['Qualifier C11Q%d : boolean = false, Scope(any);',
             'class TP_New%d { [Key] string k; };',
             'instance of TP_Plain { k = "n%d"; };',
             'instance of TP_Guarded { k = "ok%d"; v = 1; };']
    fails = {'missing_include': '#pragma include ("c11_no_such_file.mof")',
             'provider_runtime_error': 'instance of TP_Guarded { k = "bad"; v = 2; };'}
    for reason, bad in fails.items():
        for m in (1, 2, 4):                      # number of valid productions
            for k in range(m + 1):               # the failing production at every position
                for via in ('string', 'file'):
                    conn = mk(True)
                    prods = [valid[j % len(valid)] % j for j in range(m)]
                    text = '\n'.join(prods[:k] + [bad] + prods[k:])

                    def call(conn=conn, text=text, via=via):
                        if via == 'string':
                            conn.compile_mof_string(text, namespace='root/a')
                        else:
                            fd, path = tempfile.mkstemp(suffix='.mof', prefix='c11_')
                            try:
                                with os.fdopen(fd, 'w') as f:
                                    f.write(text)
                                conn.compile_mof_file(path, namespace='root/a')
                            finally:
                                os.unlink(path)
                    attempt(conn, 'compile_mof_' + via, call, reason=reason, n_valid=m, fail_pos=k + 1,
                            fail_pos_ge2=(k + 1 >= 2))
    # single calls through the provider seam
    conn = mk(True)
    attempt(conn, 'CreateInstance', lambda: conn.CreateInstance(
        pywbem.CIMInstance('TP_Guarded', {'k': 'bad1'}), namespace='root/a'), reason='provider_runtime_error')
    for key in ('a1', 'keep2', 'a3', 'keep4'):
        conn.CreateInstance(pywbem.CIMInstance('TP_Guarded', {'k': key}), namespace='root/a')
    attempt(conn, 'DeleteInstance', lambda: conn.DeleteInstance(
        pywbem.CIMInstanceName('TP_Guarded', {'k': 'keep2'}, namespace='root/a')), reason='provider_runtime_error')
    # DeleteClass: the provider refuses the 2nd of 4 instances with a RuntimeError after the 1st was deleted
    attempt(conn, 'DeleteClass', lambda: conn.DeleteClass('TP_Guarded', namespace='root/a'),
            reason='provider_runtime_error')
    # add_cimobjects with an object of a foreign type at every position (AssertionError)
    for m in (1, 3):
        for k in range(m + 1):
            conn = mk(False)
            objs = [pywbem.CIMClass('TP_Obj%d' % j) for j in range(m)]
            objs = objs[:k] + ['not a CIM object'] + objs[k:]
            attempt(conn, 'add_cimobjects', lambda conn=conn, objs=objs: conn.add_cimobjects(objs, namespace='root/a'),
                    reason='foreign_type', n_valid=m, fail_pos=k + 1, fail_pos_ge2=(k + 1 >= 2))


def schema_classes_probes(run):
    """compile_schema_classes with lists of 1..3 schema pragma files (DMTF-schema-like directories built in a temp dir)
    and the failure in file k for EVERY k, for five failure kinds; the repository dump before and after the raising
    call must be identical - also what the pragma files before the k-th one had compiled must be gone again"""
    import shutil
    import pywbem_mock

    def good(i):
        return {'listed': True, 'prods': [
            {'k': 'qual', 'qual': {'name': 'C11SQ%d' % i, 'ty': 'boolean', 'scopes': ['any'], 'body': 1}},
            {'k': 'cls', 'cls': cdef('C11_S%d' % i, None, [], [pdef('k', 'string', quals=[KEYQ]), pdef('v%d' % i, 'uint32')])},
            {'k': 'inst', 'inst': {'cls': 'C11_S%d' % i, 'props': [pv('k', 'string', sval('i%d' % i))]}}]}

    kinds = {
        'not_listed': lambda i: {'listed': False, 'prods': []},
        'cls_nosuper': lambda i: {'listed': True, 'prods': good(i)['prods'] + [
            {'k': 'cls', 'cls': cdef('C11_Broken%d' % i, 'C11_DoesNotExist', [], [pdef('x', 'uint32')])}]},
        'syntax': lambda i: {'listed': True, 'prods': good(i)['prods'] + [{'k': 'syntax'}]},
        'missing_include': lambda i: {'listed': True, 'prods': good(i)['prods'] + [{'k': 'include'}]},
        'inst_noclass': lambda i: {'listed': True, 'prods': good(i)['prods'] + [
            {'k': 'inst', 'inst': {'cls': 'C11_NoSuchClass', 'props': [pv('k', 'string', sval('z'))]}}]},
    }
    for kind, mkbad in kinds.items():
        for n in (1, 2, 3):
            for k in range(n):
                files = [mkbad(i) if i == k else good(i) for i in range(n)]
                conn = pywbem_mock.FakedWBEMConnection(default_namespace='root/a')
                conn.add_namespace('root/b')
                conn.compile_mof_string(mof_qualdecl(QDECLS[0]) + '\nclass C11_Base { [Key] string k; };\n'
                                        'instance of C11_Base { k = "b0"; };\n', namespace='root/a')
                op = {'op': 'compileSchema', 'ns': 'root/a', 'files': files, 'as_list': True}
                before = full_dump(conn)
                sigx = {'reason': kind, 'n_files': n, 'fail_pos': k + 1, 'fail_pos_ge2': k + 1 >= 2}
                try:
                    real_op(conn, op)
                    run.count('probe:compile_schema_classes:ok')
                except Exception as e:  # noqa
                    exc = common.exc_json(e)
                    run.count('probe:compile_schema_classes:%s' % exc['exc'])
                    after = full_dump(conn)
                    if after != before:
                        sig = {'kind': 'repository_changed_by_failed_call', 'entry': 'compile_schema_classes',
                               'exc': exc.get('exc'), 'code': exc.get('code'), 'probe': 'schema_pragma_files'}
                        sig.update(sigx)
                        run.violate(sig, {'probe': 'compile_schema_classes', 'args': sigx}, dump_diff(before, after))
                run.case({'probe': 'compile_schema_classes', 'args': sigx}, nontrivial=True)
    # all files good: everything is compiled
    conn = pywbem_mock.FakedWBEMConnection(default_namespace='root/a')
    conn.compile_mof_string(mof_qualdecl(QDECLS[0]), namespace='root/a')
    real_op(conn, {'op': 'compileSchema', 'ns': 'root/a', 'files': [good(0), good(1), good(2)], 'as_list': True})
    if conn.cimrepository.get_class_store('root/a').len() != 3:
        run.notes.append('compile_schema_classes probe: the three good schema files did not yield three classes')


def all_probes(run):
    nsprovider_probes(run)
    foreign_exception_probes(run)
    schema_classes_probes(run)


# --------------------------------------------------------------------------- run / search / replay

def _register_module():
    # fork pools pickle functions by module name: make sure 'c11' resolves when run through ./check
    sys.modules.setdefault('c11', sys.modules[__name__])


def canon(x):
    return json.loads(json.dumps(x))


def run(run):
    _register_module()
    rng = run.rng
    n_hist = 220 if run.thorough else 30
    nops = 60 if run.thorough else 45
    run.rule = ('seeded operation histories: repository of 2-3 namespaces built by the history itself (qualifier '
                'declarations and a random class forest with associations / EmbeddedInstance / Indication classes via '
                'add_cimobjects, compile_mof_string/file or CreateClass/SetQualifier; instances and associations inside '
                'and across namespaces), then %d random operations per history drawn from all 13 entry points, each '
                'either valid or invalid for one named reason (distribution: reject:<entry>:<reason>); batches of 1-6 '
                'elements with the invalid element at every position; names re-cased at random. A case = one '
                'operation; non-trivial = a raising call on a non-empty repository; distinct = distinct op JSON' % nops)
    run.assumptions += ['names are ASCII (lower-casing in the model is ASCII lower-casing)',
                        'the class cache of _MockMOFWBEMConnection is emptied before each compile call in K '
                        '(it is not repository content; the oracle-only search leaves it alone)',
                        'methods, Override, qualifier flavors, PropertyList, user-defined providers and MOF pragmas '
                        'are not generated; the CIM_Namespace provider is covered by oracle-only probes']
    items = [(rng.randrange(1 << 30), run.thorough, nops) for _ in range(n_hist)]
    results = common.pmap(_work, items, procs=4, chunksize=2)
    reqs = []
    good = []
    for r in results:
        if 'crash' in r:
            raise RuntimeError('history generator crashed (seed %s): %s' % (r['seed'], r['crash']))
        good.append(r)
        reqs.append({'nss': r['nss'], 'ops': [model_op(op) for op in r['ops']]})
    answers = common.run_driver(PROP, reqs)
    for r, ans in zip(good, answers):
        steps = ans.get('steps')
        if steps is None or len(steps) != len(r['ops']):
            run.disagree({'nss': r['nss'], 'ops': r['ops']}, ans, None, 'driver answer malformed')
            continue
        disagreed = False
        for idx, (op, out, st, step) in enumerate(zip(r['ops'], r['outs'], r['states'], steps)):
            nonempty = any(n['classes'] or n['insts'] for n in st['nss'])
            run.case({'nss': r['nss'], 'op': op, 'i': idx}, nontrivial=(out is not None and nonempty))
            tag = '%s:%s' % (op['op'], op.get('reason', 'setup'))
            run.count(('reject:' if out is not None else 'accept:') + tag)
            if out is not None and op.get('fail_pos') is not None:
                run.count('failpos:%s:%s' % (op['op'], min(op['fail_pos'], 4)))
            if disagreed:
                continue
            if step['exc'] != out or canon(step['state']) != canon(st):
                disagreed = True
                what = 'outcome' if step['exc'] != out else 'repository content'
                run.disagree({'nss': r['nss'], 'ops': r['ops'][:idx + 1]},
                             {'exc': step['exc'], 'state': step['state'] if what != 'outcome' else None},
                             {'exc': out, 'state': st if what != 'outcome' else None},
                             '%s after op %d (%s)' % (what, idx, tag))
        for v in r['viols']:
            run.violate(v['sig'], {'nss': r['nss'], 'ops': r['ops'][:v['index'] + 1]}, v['diff'])
    all_probes(run)


def search(run):
    """K or a proof obligation broke and the oracle saw nothing: widen the oracle-only search on the real code
    (more histories, MOF class cache left alone)"""
    _register_module()
    before = len(run.violations)
    rng = run.rng
    items = [(rng.randrange(1 << 30), True, 60, i % 2 == 0) for i in range(160)]
    for r in common.pmap(_work, items, procs=4, chunksize=2):
        if 'crash' in r:
            continue
        for v in r['viols']:
            run.violate(v['sig'], {'nss': r['nss'], 'ops': r['ops'][:v['index'] + 1]}, v['diff'])
    if len(run.violations) == before:
        all_probes(run)
    return run.violations[before:]


def oracle_only(run):
    """the Lean side did not build: still evaluate the property oracle on the real code"""
    _register_module()
    rng = run.rng
    items = [(rng.randrange(1 << 30), run.thorough, 45) for _ in range(36)]
    for r in common.pmap(_work, items, procs=4, chunksize=2):
        if 'crash' in r:
            continue
        for op in r['ops']:
            run.case({'nss': r['nss'], 'op': op}, nontrivial=False)
        for v in r['viols']:
            run.violate(v['sig'], {'nss': r['nss'], 'ops': r['ops'][:v['index'] + 1]}, v['diff'])
    all_probes(run)


def replay(payload):
    case = payload['case']
    if 'probe' in case:
        r = common.Run(PROP, 'quick', 0)
        all_probes(r)
        bad = [v for v in r.violations if v['case'] == case]
        if bad:
            return False, 'property C11 FAILS: %s changed the repository although it raised: %s' % (
                json.dumps(bad[0]['sig']), bad[0]['observed'])
        return True, 'property C11 holds for probe %s' % json.dumps(case)
    outs, states, viols = replay_history(case['nss'], case['ops'])
    last = len(case['ops']) - 1
    bad = [v for v in viols if v['index'] == last] or viols
    if bad:
        v = bad[0]
        return False, ('property C11 FAILS: operation %d (%s) raised %s and changed the repository: %s' % (
            v['index'], case['ops'][v['index']]['op'], json.dumps(outs[v['index']]), '; '.join(v['diff'])))
    return True, 'property C11 holds on this history (last outcome: %s)' % json.dumps(outs[-1] if outs else None)
